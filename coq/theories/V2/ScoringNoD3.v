(* C02 without the oracle contract D3.

   ScoringProof.v proves the soundness of [score] under three facts about the
   recorded word diff [raw]: [valid_script], [wf_script] and D3 (no entry has
   an empty id list).  go-diff does emit entries with empty text on a few
   repetitive inputs, so D3 is sometimes false.  This file proves that the
   SEMANTIC conclusions of C02 do not need D3 at all:

     trim_valid_noD3            what [diff_range] returns on ANY valid
                                well-formed script (empty entries allowed)
     score_sound_noD3           = ScoringProof.score_sound       minus D3
     score_sound_cases_noD3     = ScoringProof.score_sound_cases minus D3
     C02_confidence_bound_noD3  = Glue.C02_confidence_bound      minus D3

   What replaces D3: nothing.  What replaces the structural claim
   [all_del B] of [trim_valid] (which is false without D3, see
   [ScoringProof.Examples.ex_D3_suffix]) is the weaker [dst B = []]: the
   trimmed-off suffix consists of Delete entries and of EMPTY Equal/Insert
   entries, which is all the conclusion needs (both [textLength] and the span
   arithmetic count an empty entry as 0 words).  [all_del A] holds as before.

   Why the string-level trimming loop is still sound.  [seen] is the
   concatenation of [text ++ " "] over the Equal/Insert entries visited; an
   empty entry contributes a lone blank, i.e. an EMPTY WORD.  The loop stops
   when [seen] minus its last character equals the known text, which is the
   blank-separated list of K's words, all non-empty and blank-free.  Splitting
   at blanks is injective ([tr_inj]), hence a firing stop test proves that the
   word sequence reconstructed so far is exactly K's ([stop_sound]): it
   contains no empty word, so no empty Equal/Insert entry was visited, the ids
   reconstructed so far have K's length, and what follows inserts nothing.
   Only this direction (stop fires -> reconstruction complete) is needed; the
   converse fails without D3 ([ex_D3_nostop]: an empty entry in the middle
   keeps the stop from ever firing) but then merely less is trimmed.

   A correction to a tempting simplification: removing the empty entries of a
   script preserves [src], [dst] and validity, but NOT the cost [lev_ids]: an
   empty Equal entry closes the pending change block.  Removal never
   increases the cost ([strip_cost_le]) and can decrease it
   ([strip_cost_strict]).  The theorems below do not go through stripping:
   [lev_ids_bound] holds for every script.

   No axioms of its own.  score_sound_noD3 / score_sound_cases_noD3 /
   trim_valid_noD3 are closed under the global context;
   C02_confidence_bound_noD3 depends on the axioms of the Reals library via
   Float64Proof (through Glue.conf_antitone_wide / conf_one_wide). *)
From Coq Require Import List Arith NArith ZArith Bool Lia.
Import ListNotations.
From LC.Base Require Import Float64 Float64Proof.
From LC.V2 Require Import Match ScoringProof Glue.

Local Open Scope nat_scope.

(* ================================================================== *)
(** * 0. Scripts with empty entries                                    *)
(* ================================================================== *)

(* the trimmed-off suffix: Deletes and empty Equal/Insert entries *)
Lemma dst_nil_src_total : forall l, dst l = [] -> length (src l) = total l.
Proof.
  induction l as [|[op ids] r IH]; intros E; [reflexivity|].
  rewrite dst_cons in E. apply app_eq_nil in E as [E1 E2].
  rewrite src_cons, app_length, (IH E2).
  change (total ((op, ids) :: r)) with (length ids + total r).
  destruct op; cbn [src_ids dst_ids fst snd] in *; try subst ids; reflexivity.
Qed.

(* [dst l = []] says exactly: every Equal/Insert entry is empty *)
Lemma dst_nil_iff : forall l,
  dst l = [] <-> Forall (fun d => fst d = DDelete \/ snd d = []) l.
Proof.
  induction l as [|[op ids] r IH]; [split; [constructor|reflexivity]|].
  rewrite dst_cons. split.
  - intros E. apply app_eq_nil in E as [E1 E2]. constructor; [|now apply IH].
    destruct op; cbn [dst_ids fst snd] in *; auto.
  - intros H. inversion H as [|x y [H1|H1] H2]; subst; cbn [fst snd] in *.
    + subst op. cbn [dst_ids fst app]. now apply IH.
    + subst ids. replace (dst_ids (op, [])) with (@nil N) by (now destruct op).
      now apply IH.
Qed.

(* removing the empty entries *)
Definition nonempty_entry (d : diff) : bool := match snd d with [] => false | _ => true end.
Definition strip (ds : list diff) : list diff := filter nonempty_entry ds.

Lemma strip_src : forall ds, src (strip ds) = src ds.
Proof.
  induction ds as [|[op [|i ids]] r IH]; [reflexivity| |].
  - cbn [strip filter nonempty_entry snd]. fold (strip r). rewrite src_cons, IH.
    now destruct op.
  - cbn [strip filter nonempty_entry snd]. fold (strip r). now rewrite !src_cons, IH.
Qed.

Lemma strip_dst : forall ds, dst (strip ds) = dst ds.
Proof.
  induction ds as [|[op [|i ids]] r IH]; [reflexivity| |].
  - cbn [strip filter nonempty_entry snd]. fold (strip r). rewrite dst_cons, IH.
    now destruct op.
  - cbn [strip filter nonempty_entry snd]. fold (strip r). now rewrite !dst_cons, IH.
Qed.

Lemma strip_valid : forall ds a b, valid_script ds a b <-> valid_script (strip ds) a b.
Proof. intros ds a b. unfold valid_script. now rewrite strip_src, strip_dst. Qed.

Lemma strip_D3 : forall ds, D3 (strip ds).
Proof.
  intros ds d Hd. apply filter_In in Hd as [_ Hd]. unfold nonempty_entry in Hd.
  destruct (snd d); [discriminate|discriminate].
Qed.

Lemma strip_cost_le : forall ds i d, cost (strip ds) i d <= cost ds i d.
Proof.
  induction ds as [|[op [|x ids]] r IH]; intros i d; [reflexivity| |].
  - cbn [strip filter nonempty_entry snd]. fold (strip r).
    destruct op; cbn [cost length].
    + pose proof (cost_shift r 0 0 i d) as H. cbn [Nat.add] in H. specialize (IH i d). lia.
    + rewrite Nat.add_0_r. apply IH.
    + rewrite Nat.add_0_r. apply IH.
  - cbn [strip filter nonempty_entry snd]. fold (strip r).
    destruct op; cbn [cost].
    + specialize (IH 0 0). lia.
    + apply IH.
    + apply IH.
Qed.

Lemma strip_lev_ids_le : forall ds, lev_ids (strip ds) <= lev_ids ds.
Proof. intros ds. rewrite !lev_ids_cost. apply strip_cost_le. Qed.

(* ... and the inequality can be strict: an empty Equal entry separates a
   Delete from an Insert that would otherwise form one substitution block *)
Example strip_cost_strict :
  let ds := [(DDelete, [1%N]); (DEqual, []); (DInsert, [2%N])] in
  lev_ids ds = 2 /\ lev_ids (strip ds) = 1 /\ valid_script ds [1%N] [2%N].
Proof. vm_compute. repeat split; reflexivity. Qed.

(* ================================================================== *)
(** * 1. The reconstructed text as a word sequence                     *)
(* ================================================================== *)
(* [tr ws]: every word followed by one blank *)
Definition tr (ws : list str) : str := flat_map (fun w => w ++ [SP]) ws.

Lemma tr_cons : forall w r, tr (w :: r) = w ++ SP :: tr r.
Proof. intros w r. unfold tr. cbn [flat_map]. rewrite <- app_assoc. reflexivity. Qed.

Lemma tr_app : forall a b, tr (a ++ b) = tr a ++ tr b.
Proof. intros a b. unfold tr. apply flat_map_app. Qed.

Lemma join_tr : forall ws, ws <> [] -> join_strs ws ++ [SP] = tr ws.
Proof.
  induction ws as [|w r IH]; intros Hne; [congruence|].
  destruct r as [|w' r].
  - rewrite tr_cons. reflexivity.
  - rewrite tr_cons, <- IH by discriminate.
    change (join_strs (w :: w' :: r)) with (w ++ SP :: join_strs (w' :: r)).
    rewrite <- app_assoc. reflexivity.
Qed.

Lemma tr_last : forall ws, ws <> [] -> exists t, tr ws = t ++ [SP].
Proof.
  intros ws Hne. destruct (exists_last Hne) as (x & w & ->).
  exists (tr x ++ w). rewrite tr_app, tr_cons. cbn [tr flat_map].
  rewrite <- app_assoc. reflexivity.
Qed.

(* splitting at blanks is injective on blank-free words (empty words allowed) *)
Lemma tr_inj : forall a b,
  (forall w, In w a -> ~ In SP w) -> (forall w, In w b -> ~ In SP w) ->
  tr a = tr b -> a = b.
Proof.
  induction a as [|w a IH]; intros [|v b] Ha Hb E.
  - reflexivity.
  - rewrite tr_cons in E. destruct v; discriminate.
  - rewrite tr_cons in E. destruct w; discriminate.
  - rewrite !tr_cons in E. apply split_sp in E as [-> E].
    + f_equal. apply IH; try assumption.
      * intros x Hx. apply Ha. now right.
      * intros x Hx. apply Hb. now right.
    + apply Ha. now left.
    + apply Hb. now left.
Qed.

Section NoD3.
  Variable word : N -> str.

  (* the words an entry text contributes: an empty text is one empty word *)
  Definition ws_of (ids : list N) : list str :=
    match ids with [] => [[]] | _ => map word ids end.

  Definition went (d : diff) : list str :=
    match fst d with DDelete => [] | _ => ws_of (snd d) end.

  Definition wseq (ds : list diff) : list str := flat_map went ds.

  Lemma text_tr : forall ids, join_words word ids ++ [SP] = tr (ws_of ids).
  Proof.
    intros [|i r]; [reflexivity|].
    rewrite join_words_map. apply join_tr. discriminate.
  Qed.

  Lemma wseq_nosp : forall ds, wf_script word ds -> forall w, In w (wseq ds) -> ~ In SP w.
  Proof.
    intros ds Hwf w Hw. unfold wseq in Hw. apply in_flat_map in Hw as (d & Hd & Hw).
    specialize (Hwf d Hd). unfold went in Hw. destruct (fst d); try contradiction.
    - unfold ws_of in Hw. destruct (snd d) as [|i r] eqn:E.
      + destruct Hw as [<-|[]]. intros [].
      + apply in_map_iff in Hw as (j & <- & Hj). now apply Hwf.
    - unfold ws_of in Hw. destruct (snd d) as [|i r] eqn:E.
      + destruct Hw as [<-|[]]. intros [].
      + apply in_map_iff in Hw as (j & <- & Hj). now apply Hwf.
  Qed.

  Lemma map_word_nosp : forall K, wf_word word K -> forall w, In w (map word K) -> ~ In SP w.
  Proof. intros K HK w Hw. apply in_map_iff in Hw as (j & <- & Hj). now apply HK. Qed.

  Lemma map_word_noempty : forall K, wf_word word K -> ~ In [] (map word K).
  Proof. intros K HK Hw. apply in_map_iff in Hw as (j & E & Hj). destruct (HK j Hj) as [H _]. now apply H. Qed.

  (* no empty word reconstructed = no empty Equal/Insert entry visited *)
  Lemma wseq_noempty : forall ds, wf_script word ds -> ~ In [] (wseq ds) ->
    wseq ds = map word (dst ds).
  Proof.
    induction ds as [|[op ids] r IH]; intros Hwf Hn; [reflexivity|].
    change (wseq ((op, ids) :: r)) with (went (op, ids) ++ wseq r) in *.
    rewrite dst_cons, map_app.
    rewrite IH; [|eapply wf_script_tail; eassumption|intros H; apply Hn, in_or_app; now right].
    f_equal. unfold went, dst_ids. cbn [fst snd].
    destruct op; try reflexivity.
    - destruct ids; [|reflexivity]. exfalso. apply Hn, in_or_app. left. now left.
    - destruct ids; [|reflexivity]. exfalso. apply Hn, in_or_app. left. now left.
  Qed.

  (* soundness of the stop test: when it fires the reconstruction is K *)
  Lemma stop_sound : forall K W, wf_word word K -> (forall w, In w W -> ~ In SP w) ->
    stop_test (rev (tr W)) (rev (join_words word K)) = true -> W = map word K.
  Proof.
    intros K W HK HW Hstop. unfold stop_test in Hstop.
    destruct (rev (tr W)) as [|c [|c' rest]] eqn:Er; try discriminate.
    apply str_eqb_spec in Hstop.
    assert (Etr : tr W = join_words word K ++ [c]).
    { rewrite <- (rev_involutive (tr W)), Er, Hstop. cbn [rev]. now rewrite rev_involutive. }
    assert (HKne : K <> []).
    { intros ->. cbn [join_words rev] in Hstop. discriminate. }
    assert (HWne : W <> []).
    { intros ->. cbn [tr flat_map rev] in Er. discriminate. }
    destruct (tr_last W HWne) as (t & Et).
    rewrite Et in Etr. apply app_inj_tail in Etr as [Et' _].
    apply tr_inj; [assumption|now apply map_word_nosp|].
    rewrite Et, Et', join_words_map. apply join_tr.
    destruct K; [congruence|discriminate].
  Qed.

  (* ================================================================ *)
  (** * 2. Trimming without D3                                         *)
  (* ================================================================ *)
  (* the loop invariant of [diff_range_loop] itself (string level); [pre] is
     the part already consumed *)
  Lemma drl_spec : forall K, wf_word word K -> forall ds pre start found st en,
    wf_script word pre -> wf_script word ds ->
    dst pre ++ dst ds = K ->
    start <= length pre ->
    all_del (firstn start pre) ->
    (found = false -> all_del pre) ->
    diff_range_loop (rev (join_words word K)) (map (hydrate word) ds) (length pre) start found
                    (rev (tr (wseq pre))) = (st, en) ->
    st <= en /\ en <= length (pre ++ ds) /\
    all_del (firstn st (pre ++ ds)) /\ dst (skipn en (pre ++ ds)) = [].
  Proof.
    intros K HKwf.
    induction ds as [|[op ids] r IH]; intros pre start found st en Hwp Hwd HK Hst Hfs Hnf Hrun.
    - cbn [map diff_range_loop] in Hrun. injection Hrun as <- <-.
      rewrite app_nil_r. split; [lia|]. split; [lia|]. split; [assumption|].
      now rewrite skipn_all.
    - cbn [map] in Hrun. change (hydrate word (op, ids)) with (op, join_words word ids) in Hrun.
      rewrite drl_cons in Hrun.
      destruct (stop_test (rev (tr (wseq pre))) (rev (join_words word K))) eqn:Hstop.
      + (* early break: the reconstruction has exactly K's words *)
        injection Hrun as <- <-.
        apply stop_sound in Hstop; [|assumption|now apply wseq_nosp].
        assert (Hmap : wseq pre = map word (dst pre)).
        { apply wseq_noempty; [assumption|]. rewrite Hstop. now apply map_word_noempty. }
        assert (Hlen : length (dst pre) = length K).
        { rewrite <- (map_length word (dst pre)), <- Hmap, Hstop. apply map_length. }
        assert (Hrest : dst ((op, ids) :: r) = []).
        { apply (app_same_length_nil _ (dst pre)). rewrite Hlen. f_equal. symmetry. exact HK. }
        rewrite app_length. split; [lia|]. split; [lia|]. split.
        * rewrite firstn_app_le by lia. assumption.
        * rewrite skipn_app_len. assumption.
      + set (pre' := pre ++ [(op, ids)]).
        assert (Hpl : length pre' = S (length pre)).
        { unfold pre'. rewrite app_length. cbn [length]. lia. }
        assert (Happ : pre ++ (op, ids) :: r = pre' ++ r).
        { unfold pre'. rewrite <- app_assoc. reflexivity. }
        assert (Hdp : dst pre' = dst pre ++ dst_ids (op, ids)).
        { unfold pre'. rewrite dst_app. unfold dst at 2. cbn [flat_map]. now rewrite app_nil_r. }
        assert (HK' : dst pre' ++ dst r = K).
        { rewrite Hdp, <- app_assoc. rewrite dst_cons in HK. exact HK. }
        assert (Hwp' : wf_script word pre').
        { intros x Hx. apply in_app_or in Hx as [Hx|[<-|[]]]; [now apply Hwp|]. apply Hwd. now left. }
        pose proof (wf_script_tail _ _ _ Hwd) as Hwd'.
        assert (Hws : wseq pre' = wseq pre ++ went (op, ids)).
        { unfold pre', wseq. rewrite flat_map_app. cbn [flat_map]. now rewrite app_nil_r. }
        assert (Hseen : op <> DDelete ->
                        SP :: rev (join_words word ids) ++ rev (tr (wseq pre)) = rev (tr (wseq pre'))).
        { intros Hop. rewrite Hws, tr_app, rev_app_distr.
          replace (went (op, ids)) with (ws_of ids)
            by (unfold went; cbn [fst snd]; destruct op; congruence).
          rewrite <- text_tr, rev_app_distr. reflexivity. }
        cut (st <= en /\ en <= length (pre' ++ r) /\
             all_del (firstn st (pre' ++ r)) /\ dst (skipn en (pre' ++ r)) = []).
        { rewrite <- Happ. exact (fun x => x). }
        rewrite <- Hpl in Hrun.
        destruct op.
        * (* Equal *)
          rewrite Hseen in Hrun by discriminate.
          apply (IH pre' (if found then start else length pre) true st en Hwp' Hwd' HK');
            try assumption.
          -- destruct found; lia.
          -- destruct found.
             ++ unfold pre'. rewrite firstn_app_le by lia. assumption.
             ++ unfold pre'. rewrite firstn_app_len. now apply Hnf.
          -- discriminate.
        * (* Insert *)
          rewrite Hseen in Hrun by discriminate.
          apply (IH pre' (if found then start else length pre) true st en Hwp' Hwd' HK');
            try assumption.
          -- destruct found; lia.
          -- destruct found.
             ++ unfold pre'. rewrite firstn_app_le by lia. assumption.
             ++ unfold pre'. rewrite firstn_app_len. now apply Hnf.
          -- discriminate.
        * (* Delete *)
          replace (wseq pre) with (wseq pre') in Hrun
            by (rewrite Hws; unfold went; cbn [fst]; apply app_nil_r).
          apply (IH pre' start found st en Hwp' Hwd' HK'); try assumption.
          -- lia.
          -- unfold pre'. rewrite firstn_app_le by lia. assumption.
          -- intros Hf. unfold pre', all_del. apply Forall_app. split; [now apply Hnf|].
             constructor; [reflexivity|constructor].
  Qed.

  (* [ScoringProof.trim_valid] without D3: [all_del B] becomes [dst B = []],
     and the word counts of the trimmed-off parts ([total] = what
     [text_length] computes) are still the lengths of the trimmed-off spans *)
  Theorem trim_valid_noD3 : forall ds R K st en,
    valid_script ds R K -> wf_script word ds ->
    diff_range (join_words word K) (map (hydrate word) ds) = (st, en) ->
    let A := firstn st ds in
    let B := skipn en ds in
    let M := firstn (en - st) (skipn st ds) in
    let so := length (src A) in
    let eo := length (src B) in
    st <= en /\ en <= length ds /\
    all_del A /\ dst B = [] /\
    total A = so /\ total B = eo /\
    so + eo <= length R /\
    valid_script M (firstn (length R - so - eo) (skipn so R)) K.
  Proof.
    intros ds R K st en [HR HK] Hwf Hrun A B M so eo.
    assert (HKwf : wf_word word K) by (rewrite <- HK; now apply wf_script_dst).
    destruct (drl_spec K HKwf ds [] 0 false st en) as (Hle & Hen & HA & HB); try assumption.
    - intros x [].
    - cbn [length]. lia.
    - constructor.
    - intros _. constructor.
    - cbn [app] in Hen, HA, HB. fold A in HA. fold B in HB.
      pose proof (three_split _ ds st en Hle) as Hsplit. fold A M B in Hsplit.
      assert (HRs : R = src A ++ src M ++ src B).
      { rewrite <- HR. rewrite Hsplit at 1. now rewrite !src_app. }
      assert (HKs : K = dst M).
      { rewrite <- HK. rewrite Hsplit at 1.
        rewrite !dst_app, (all_del_dst A HA), HB, app_nil_r. reflexivity. }
      assert (HlenR : length R = so + length (src M) + eo).
      { rewrite HRs, !app_length. unfold so, eo. lia. }
      split; [exact Hle|]. split; [exact Hen|]. split; [exact HA|]. split; [exact HB|].
      split; [symmetry; now apply all_del_src_total|].
      split; [symmetry; now apply dst_nil_src_total|].
      split; [lia|]. split.
      + rewrite HRs at 2. unfold so at 2. rewrite skipn_app_len.
        replace (length R - so - eo) with (length (src M)) by lia.
        now rewrite firstn_app_len.
      + now symmetry.
  Qed.
End NoD3.

(* ================================================================== *)
(** * 3. [score] without D3                                            *)
(* ================================================================== *)

(* accepted branch: [ScoringProof.score_sound] minus the hypothesis [D3 raw] *)
Theorem score_sound_noD3 : forall C d s e raw R lname conf so eo,
  cf_diff C (cd_key d) s e = Some raw ->
  valid_script raw R (cd_ids d) ->
  wf_script (cf_word C) raw ->
  key_part (cd_key d) 1 = Some lname ->
  score C d s e = Ok (conf, so, eo) ->
  (score_diffs (cf_is_digit C) lname (trimmed C d raw) >= 0)%Z ->
  exists D : nat,
    Z.of_nat D = score_diffs (cf_is_digit C) lname (trimmed C d raw) /\
    Z.of_nat D = lev_word (trimmed C d raw) /\
    conf = confidence (Z.of_nat (length (cd_ids d))) (Z.of_nat D) /\
    (0 <= so)%Z /\ (0 <= eo)%Z /\
    Z.to_nat so + Z.to_nat eo <= length R /\
    let R' := firstn (length R - Z.to_nat so - Z.to_nat eo) (skipn (Z.to_nat so) R) in
    lev R' (cd_ids d) <= D /\ (D = 0 -> R' = cd_ids d).
Proof.
  intros C d s e raw R lname conf so eo Hdiff Hv Hwf Hkey Hscore Hacc.
  rewrite (score_eq C d s e raw lname Hdiff Hkey) in Hscore.
  unfold trimmed in Hacc |- *. cbv zeta in Hscore, Hacc |- *.
  destruct (diff_range (join_words (cf_word C) (cd_ids d)) (map (hydrate (cf_word C)) raw))
    as [st en] eqn:Hdr.
  pose proof (trim_valid_noD3 (cf_word C) raw R (cd_ids d) st en Hv Hwf Hdr) as Ht.
  cbv zeta in Ht. destruct Ht as (_ & _ & _ & _ & HtA & HtB & Hlen & HM).
  rewrite !skipn_map, !firstn_map in *.
  set (A := firstn st raw) in *. set (B := skipn en raw) in *.
  set (M := firstn (en - st) (skipn st raw)) in *.
  assert (HwfM : wf_script (cf_word C) M) by (apply wf_script_firstn, wf_script_skipn, Hwf).
  assert (HwfA : wf_script (cf_word C) A) by (apply wf_script_firstn, Hwf).
  assert (HwfB : wf_script (cf_word C) B) by (apply wf_script_skipn, Hwf).
  destruct (score_diffs_nonneg _ _ _ Hacc) as [_ Hsd].
  rewrite Hsd in *. rewrite (lev_word_hydrate _ M HwfM) in *.
  destruct (Z.ltb_spec (Z.of_nat (lev_ids M)) 0) as [Hneg|_]; [lia|].
  injection Hscore as <- <- <-.
  rewrite (text_length_hydrate _ A HwfA), (text_length_hydrate _ B HwfB).
  rewrite HtA, HtB, !Nat2Z.id.
  exists (lev_ids M).
  destruct (valid_script_lev _ _ _ HM) as [Hb Hz].
  repeat split; try lia; assumption.
Qed.

(* both branches: [ScoringProof.score_sound_cases] minus [D3 raw] *)
Theorem score_sound_cases_noD3 : forall C d s e raw R lname conf so eo,
  cf_diff C (cd_key d) s e = Some raw ->
  valid_script raw R (cd_ids d) ->
  wf_script (cf_word C) raw ->
  key_part (cd_key d) 1 = Some lname ->
  score C d s e = Ok (conf, so, eo) ->
  ((exists c, score_scan (cf_is_digit C) lname (trimmed C d raw) [] [] = Some c /\
              (c = (-1)%Z \/ c = (-2)%Z \/ c = (-3)%Z)) /\
   conf = fzero /\ so = 0%Z /\ eo = 0%Z)
  \/
  (score_scan (cf_is_digit C) lname (trimmed C d raw) [] [] = None /\
   exists D : nat,
     Z.of_nat D = lev_word (trimmed C d raw) /\
     conf = confidence (Z.of_nat (length (cd_ids d))) (Z.of_nat D) /\
     (0 <= so)%Z /\ (0 <= eo)%Z /\
     Z.to_nat so + Z.to_nat eo <= length R /\
     let R' := firstn (length R - Z.to_nat so - Z.to_nat eo) (skipn (Z.to_nat so) R) in
     lev R' (cd_ids d) <= D /\ (D = 0 -> R' = cd_ids d)).
Proof.
  intros C d s e raw R lname conf so eo Hdiff Hv Hwf Hkey Hscore.
  destruct (Z_lt_ge_dec (score_diffs (cf_is_digit C) lname (trimmed C d raw)) 0) as [Hneg|Hpos].
  - left. split.
    + unfold score_diffs in Hneg.
      destruct (score_scan (cf_is_digit C) lname (trimmed C d raw) [] []) as [c|] eqn:E.
      * exists c. split; [reflexivity|]. eapply score_scan_codes; eassumption.
      * exfalso. revert Hneg. unfold trimmed. cbv zeta.
        destruct (diff_range (join_words (cf_word C) (cd_ids d)) (map (hydrate (cf_word C)) raw))
          as [st en].
        rewrite skipn_map, firstn_map, lev_word_hydrate; [lia|].
        apply wf_script_firstn, wf_script_skipn, Hwf.
    + eapply score_rejected; eassumption.
  - right. destruct (score_diffs_nonneg _ _ _ Hpos) as [Hnone _]. split; [exact Hnone|].
    destruct (score_sound_noD3 C d s e raw R lname conf so eo Hdiff Hv Hwf Hkey Hscore Hpos)
      as (D & _ & H2 & H3). exists D. split; assumption.
Qed.

(* ================================================================== *)
(** * 4. The composed C02 statement without D3                         *)
(* ================================================================== *)
Local Open Scope Z_scope.

(* [Glue.trimmed_lev_word_bound] minus D3 *)
Lemma trimmed_lev_word_bound_noD3 : forall C d raw R,
  valid_script raw R (cd_ids d) -> wf_script (cf_word C) raw ->
  lev_word (trimmed C d raw) <= Z.of_nat (length R) + Z.of_nat (length (cd_ids d)).
Proof.
  intros C d raw R Hv Hwf. unfold trimmed. cbv zeta.
  destruct (diff_range (join_words (cf_word C) (cd_ids d)) (map (hydrate (cf_word C)) raw))
    as [st en] eqn:Hdr.
  pose proof (trim_valid_noD3 (cf_word C) raw R (cd_ids d) st en Hv Hwf Hdr) as Ht.
  cbv zeta in Ht. destruct Ht as (_ & _ & _ & _ & _ & _ & _ & [HsM HdM]).
  rewrite skipn_map, firstn_map.
  rewrite lev_word_hydrate by (apply wf_script_firstn, wf_script_skipn, Hwf).
  pose proof (lev_ids_le_total (firstn (en - st) (skipn st raw))) as Hb.
  rewrite HsM, HdM in Hb.
  rewrite firstn_length in Hb. lia.
Qed.

(* [Glue.C02_confidence_bound] minus the hypothesis [D3 raw] *)
Theorem C02_confidence_bound_noD3 : forall C d s e raw R lname cnf so eo,
  cf_diff C (cd_key d) s e = Some raw ->
  valid_script raw R (cd_ids d) ->
  wf_script (cf_word C) raw ->
  key_part (cd_key d) 1 = Some lname ->
  score C d s e = Ok (cnf, so, eo) ->
  (0 < length (cd_ids d))%nat ->
  Z.of_nat (length (cd_ids d)) < 2 ^ 53 ->
  Z.of_nat (length R) < 2 ^ 53 ->
  let K := cd_ids d in
  let R' := firstn (length R - Z.to_nat so - Z.to_nat eo) (skipn (Z.to_nat so) R) in
  (score_scan (cf_is_digit C) lname (trimmed C d raw) [] [] = None ->
   fle cnf (confidence (Z.of_nat (length K)) (Z.of_nat (lev R' K))) = true) /\
  ((exists c, score_scan (cf_is_digit C) lname (trimmed C d raw) [] [] = Some c) ->
   cnf = fzero /\ so = 0 /\ eo = 0 /\ R' = R) /\
  ((lev R' K <= length K)%nat ->
   fle cnf (confidence (Z.of_nat (length K)) (Z.of_nat (lev R' K))) = true) /\
  (feq cnf fone = true -> R' = K).
Proof.
  intros C d s e raw R lname cnf so eo Hdiff Hv Hwf Hkey Hscore Hpos HsK HsR K R'.
  subst K.
  assert (Hk : 0 < Z.of_nat (length (cd_ids d)) < 2 ^ 53) by lia.
  pose proof (trimmed_lev_word_bound_noD3 C d raw R Hv Hwf) as HDb.
  destruct (score_sound_cases_noD3 C d s e raw R lname cnf so eo Hdiff Hv Hwf Hkey Hscore)
    as [((c & Hc & _) & -> & -> & ->) | (Hnone & D & HD & -> & Hso & Heo & Hlen & Hlev & Hz)].
  - (* rejected *)
    assert (HR : R' = R).
    { unfold R'. change (Z.to_nat 0) with 0%nat. cbn [skipn].
      rewrite !Nat.sub_0_r. apply firstn_all. }
    split; [|split; [|split]].
    + intros Hn. congruence.
    + intros _. repeat split. exact HR.
    + intros Hle. apply conf_nonneg_when_le; [exact Hk|]. lia.
    + rewrite feq_fzero_fone. discriminate.
  - (* accepted: cnf = confidence |K| D with lev R' K <= D <= |R| + |K| < 2^54 *)
    cbv zeta in Hlev, Hz. fold R' in Hlev, Hz.
    assert (HDs : Z.of_nat D < 2 ^ 1000).
    { rewrite HD. apply Z.le_lt_trans with (1 := HDb).
      apply Z.lt_trans with (2 ^ 53 + 2 ^ 53); [lia|]. vm_compute. reflexivity. }
    assert (Hfle : fle (confidence (Z.of_nat (length (cd_ids d))) (Z.of_nat D))
                       (confidence (Z.of_nat (length (cd_ids d))) (Z.of_nat (lev R' (cd_ids d)))) = true).
    { apply conf_antitone_wide; [exact Hk|lia|exact HDs]. }
    split; [|split; [|split]].
    + intros _. exact Hfle.
    + intros (c & Hc). congruence.
    + intros _. exact Hfle.
    + intros Hone. apply Hz.
      apply (conf_one_wide (Z.of_nat (length (cd_ids d))) (Z.of_nat D) Hk) in Hone; lia.
Qed.

(* ================================================================== *)
(** * 5. Non-vacuity: scripts that violate D3                          *)
(* ================================================================== *)
Module ExamplesNoD3.
  Import Examples.
  Local Open Scope N_scope.

  (* an empty Insert in the middle (the stop never fires), an empty Equal at
     the front (it, not the first real entry, fixes [start]: the leading
     Delete is trimmed, the empty Equal stays in the middle script) and an
     empty Insert after the reconstruction is complete *)
  Definition nd_K : list N := [1;2;3].
  Definition nd_R : list N := [5;1;2;4;5].
  Definition nd_script : list diff :=
    [(DDelete, [5]); (DEqual, []); (DEqual, [1;2]); (DDelete, [4]); (DInsert, [3]);
     (DInsert, []); (DDelete, [5])].

  Example nd_valid : valid_script nd_script nd_R nd_K.
  Proof. split; reflexivity. Qed.

  Example nd_not_D3 : ~ D3 nd_script.
  Proof. intros H. apply (H (DEqual, [])); [right; now left|reflexivity]. Qed.

  Example nd_wf : wf_script ex_word nd_script.
  Proof. intros d _ i _. apply ex_word_wf. Qed.

  Definition nd_C : config :=
    {| cf_thr := fzero; cf_word := ex_word; cf_is_digit := fun _ => false;
       cf_total_less := true; cf_diff := fun _ _ _ => Some nd_script |}.
  Definition nd_d : cdoc :=
    {| cd_key := [76;47;88;47;118]; cd_ids := nd_K;
       cd_set := {| SSet.ss_len := 3; SSet.ss_q := 1; SSet.ss_sums := [] |} |}.

  (* string level: nothing is trimmed at the end (the empty Equal put a
     leading blank into [seen]); the id-level loop (for which an empty entry
     adds nothing to [seen]) stops after (DInsert, [3]) *)
  Example nd_range :
    diff_range (join_words ex_word nd_K) (map (hydrate ex_word) nd_script) = (1, 7)%nat /\
    diff_range_ids ex_word nd_K nd_script = (1, 5)%nat.
  Proof. vm_compute. split; reflexivity. Qed.

  Example nd_score : score nd_C nd_d 0 5 = Ok (confidence 3 2, 1%Z, 0%Z).
  Proof. vm_compute. reflexivity. Qed.

  Example nd_accepted :
    (score_diffs (cf_is_digit nd_C) ex_lname (trimmed nd_C nd_d nd_script) >= 0)%Z.
  Proof. vm_compute. discriminate. Qed.

  (* the theorem applies: reported span [1;2;4;5], D = 2 = its true distance *)
  Example nd_instance :
    exists D : nat,
      Z.of_nat D = lev_word (trimmed nd_C nd_d nd_script) /\
      (lev (firstn (length nd_R - 1 - 0) (skipn 1 nd_R)) nd_K <= D)%nat /\ D = 2%nat.
  Proof.
    destruct (score_sound_noD3 nd_C nd_d 0 5 nd_script nd_R ex_lname _ _ _
                               eq_refl nd_valid nd_wf eq_refl nd_score nd_accepted)
      as (D & _ & H2 & _ & _ & _ & _ & H7 & _).
    exists D. split; [exact H2|]. split; [exact H7|].
    apply Nat2Z.inj. rewrite H2. vm_compute. reflexivity.
  Qed.

  (* the stop does fire when the empty entries come after the reconstruction:
     the trimmed-off suffix contains an empty Equal and an empty Insert (so
     [all_del B] is false) and is counted as 1 word, the Delete *)
  Definition nd_script2 : list diff :=
    [(DEqual, [1;2;3]); (DEqual, []); (DInsert, []); (DDelete, [5])].

  Example nd_range2 :
    valid_script nd_script2 [1;2;3;5] nd_K /\
    diff_range (join_words ex_word nd_K) (map (hydrate ex_word) nd_script2) = (0, 1)%nat /\
    text_length (skipn 1 (map (hydrate ex_word) nd_script2)) = 1%Z /\
    ~ all_del (skipn 1 nd_script2) /\ dst (skipn 1 nd_script2) = [].
  Proof.
    split; [split; reflexivity|]. split; [vm_compute; reflexivity|].
    split; [vm_compute; reflexivity|]. split; [|reflexivity].
    intros H. inversion H as [|x l Hx _]. discriminate.
  Qed.
End ExamplesNoD3.

Print Assumptions strip_lev_ids_le.
Print Assumptions stop_sound.
Print Assumptions drl_spec.
Print Assumptions trim_valid_noD3.
Print Assumptions score_sound_noD3.
Print Assumptions score_sound_cases_noD3.
Print Assumptions trimmed_lev_word_bound_noD3.
Print Assumptions C02_confidence_bound_noD3.
