(* The sliding density window of detectRuns (SSet.detect_runs) refines the
   obvious specification: index i is reported iff the naive count of hits in
   [i, min(i+L, n)) reaches the target.  Also: a characterisation of
   group_runs (cover / soundness / ordering of the runs) and position
   independence of the window test in the interior of an embedded block
   (together with an example showing that the test IS position dependent at
   the leading edge). *)
From Coq Require Import List NArith ZArith Bool Lia ZifyBool Sorted Relations_1.
Import ListNotations.
From LC.Base Require Import Float64.
From LC.V2 Require Import SSet.
Local Open Scope N_scope.

(* ---------- the naive specification ---------- *)

Definition sumN (l : list N) : N := fold_right N.add 0 l.

(* number of hits in [i, min(i+L, length hits)) *)
Definition window_count (hits : list N) (i L : nat) : N := sumN (firstn L (skipn i hits)).

Lemma sumN_nil : sumN [] = 0.
Proof. reflexivity. Qed.

Lemma sumN_cons x l : sumN (x :: l) = x + sumN l.
Proof. reflexivity. Qed.

Lemma sumN_app l1 l2 : sumN (l1 ++ l2) = sumN l1 + sumN l2.
Proof.
  induction l1 as [|x l1 IH].
  - rewrite app_nil_l, sumN_nil. lia.
  - rewrite <- app_comm_cons, !sumN_cons, IH. lia.
Qed.

Lemma sumN_firstn_add : forall (i : nat) (l : list N) (L : nat),
  sumN (firstn (i + L) l) = sumN (firstn i l) + sumN (firstn L (skipn i l)).
Proof.
  induction i as [|i IH]; intros l L.
  - cbn [Nat.add firstn skipn]. rewrite sumN_nil. lia.
  - destruct l as [|x r].
    + rewrite ?skipn_nil, !firstn_nil, sumN_nil. lia.
    + cbn [Nat.add firstn skipn]. rewrite !sumN_cons, IH. lia.
Qed.

Lemma sumN_firstn_mono (l : list N) (a b : nat) :
  (a <= b)%nat -> sumN (firstn a l) <= sumN (firstn b l).
Proof.
  intros Hab. replace b with (a + (b - a))%nat by lia.
  rewrite sumN_firstn_add. lia.
Qed.

(* ---------- prefix sums ---------- *)

Lemma prefix_sums_nth : forall hits acc k,
  (k <= length hits)%nat -> nth k (prefix_sums hits acc) 0 = acc + sumN (firstn k hits).
Proof.
  induction hits as [|x r IH]; intros acc k Hk.
  - cbn [length] in Hk. assert (k = 0%nat) as -> by lia.
    cbn [prefix_sums nth firstn]. rewrite sumN_nil. lia.
  - destruct k as [|k].
    + cbn [prefix_sums nth firstn]. rewrite sumN_nil. lia.
    + cbn [length] in Hk. cbn [prefix_sums nth firstn].
      rewrite IH by lia. rewrite sumN_cons. lia.
Qed.

Lemma prefix_sums_length : forall hits acc, length (prefix_sums hits acc) = S (length hits).
Proof.
  induction hits as [|x r IH]; intros acc.
  - reflexivity.
  - cbn [prefix_sums length]. now rewrite IH.
Qed.

Lemma last_prefix_sums : forall hits acc, last (prefix_sums hits acc) 0 = acc + sumN hits.
Proof.
  induction hits as [|x r IH]; intros acc.
  - cbn [prefix_sums last]. rewrite sumN_nil. lia.
  - cbn [prefix_sums]. rewrite sumN_cons.
    remember (prefix_sums r (acc + x)) as t eqn:Ht.
    destruct t as [|y t].
    + destruct r; discriminate Ht.
    + change (last (acc :: y :: t) 0) with (last (y :: t) 0).
      rewrite Ht, IH. lia.
Qed.

(* ---------- zip_windows against the naive count ---------- *)

Lemma skipn_nth_cons (l : list N) (i : nat) (d : N) :
  (i < length l)%nat -> skipn i l = nth i l d :: skipn (S i) l.
Proof.
  revert i. induction l as [|x l IH]; intros i Hi.
  - cbn [length] in Hi. lia.
  - destruct i as [|i].
    + reflexivity.
    + cbn [length] in Hi. cbn [skipn nth]. rewrite (IH i) by lia. reflexivity.
Qed.

Lemma zip_windows_cons a lo b hi lastv i target k :
  zip_windows (a :: lo) (b :: hi) lastv i target (S k)
  = if target <=? b - a then i :: zip_windows lo hi lastv (i + 1) target k
    else zip_windows lo hi lastv (i + 1) target k.
Proof. reflexivity. Qed.

Lemma zip_windows_nil_hi a lo lastv i target k :
  zip_windows (a :: lo) [] lastv i target (S k)
  = if target <=? lastv - a then i :: zip_windows lo [] lastv (i + 1) target k
    else zip_windows lo [] lastv (i + 1) target k.
Proof. reflexivity. Qed.

(* the prefix-sum difference is the naive window count (also when the window
   is truncated at the end of the list) *)
Lemma prefix_diff_window hits (i L : nat) :
  sumN (firstn (i + L) hits) - sumN (firstn i hits) = window_count hits i L.
Proof.
  unfold window_count. rewrite sumN_firstn_add. lia.
Qed.

Lemma zip_windows_gen hits L target : forall (m i0 : nat),
  (i0 + m = length hits)%nat ->
  let P := prefix_sums hits 0 in
  zip_windows (skipn i0 P) (skipn (i0 + L) P) (last P 0) (N.of_nat i0) target m
  = map N.of_nat (filter (fun i => target <=? window_count hits i L) (seq i0 m)).
Proof.
  induction m as [|k IH]; intros i0 Hlen P.
  - destruct (skipn i0 P); reflexivity.
  - assert (HPlen : length P = S (length hits)) by apply prefix_sums_length.
    rewrite (skipn_nth_cons P i0 0) by lia.
    assert (Ha : nth i0 P 0 = sumN (firstn i0 hits)).
    { unfold P. rewrite prefix_sums_nth by lia. lia. }
    specialize (IH (S i0) ltac:(lia)). cbv zeta in IH. fold P in IH.
    replace (N.of_nat (S i0)) with (N.of_nat i0 + 1) in IH by lia.
    cbn [seq filter].
    assert (Hb : (i0 + L <= length hits)%nat \/ (length hits < i0 + L)%nat) by lia.
    destruct Hb as [Hb | Hb].
    + rewrite (skipn_nth_cons P (i0 + L) 0) by lia.
      assert (Hbv : nth (i0 + L) P 0 = sumN (firstn (i0 + L) hits)).
      { unfold P. rewrite prefix_sums_nth by lia. lia. }
      rewrite zip_windows_cons, Ha, Hbv, prefix_diff_window.
      change (S (i0 + L)) with (S i0 + L)%nat.
      rewrite IH.
      destruct (target <=? window_count hits i0 L); reflexivity.
    + rewrite (skipn_all2 P (n := (i0 + L)%nat)) by lia.
      assert (Hbv : last P 0 = sumN (firstn (i0 + L) hits)).
      { unfold P. rewrite last_prefix_sums, firstn_all2 by lia. lia. }
      rewrite zip_windows_nil_hi, Ha, Hbv, prefix_diff_window.
      rewrite (skipn_all2 P (n := (S i0 + L)%nat)) in IH by lia.
      rewrite <- Hbv, IH.
      destruct (target <=? window_count hits i0 L); reflexivity.
Qed.

Theorem zip_windows_spec hits L target :
  let P := prefix_sums hits 0 in
  zip_windows P (skipn L P) (last P 0) 0 target (length hits)
  = map N.of_nat (filter (fun i => target <=? window_count hits i L) (seq 0 (length hits))).
Proof.
  exact (zip_windows_gen hits L target (length hits) 0%nat eq_refl).
Qed.

(* the output of the window pass as a function of the hit list *)
Definition window_out (hits : list N) (L : nat) (target : N) : list N :=
  let P := prefix_sums hits 0 in
  zip_windows P (skipn L P) (last P 0) 0 target (length hits).

Theorem window_out_spec hits L target :
  window_out hits L target
  = map N.of_nat (filter (fun i => target <=? window_count hits i L) (seq 0 (length hits))).
Proof. exact (zip_windows_spec hits L target). Qed.

Theorem window_out_In hits L target (i : nat) :
  In (N.of_nat i) (window_out hits L target)
  <-> (i < length hits)%nat /\ target <= window_count hits i L.
Proof.
  rewrite window_out_spec, in_map_iff. split.
  - intros (j & Hj & Hin). apply Nat2N.inj in Hj. subst j.
    apply filter_In in Hin. destruct Hin as [Hseq Hq].
    apply in_seq in Hseq. apply N.leb_le in Hq. split; [lia | exact Hq].
  - intros [Hlt Hq]. exists i. split; [reflexivity|].
    apply filter_In. split.
    + apply in_seq. lia.
    + apply N.leb_le. exact Hq.
Qed.

(* ---------- detect_runs: the list handed to group_runs ---------- *)

Lemma hits_scan_length : forall fuel i cur m, length (hits_scan fuel i cur m) = fuel.
Proof.
  induction fuel as [|f IH]; intros i cur m.
  - reflexivity.
  - cbn [hits_scan length]. now rewrite IH.
Qed.

Lemma hits_of_length matched n : length (hits_of matched n) = N.to_nat n.
Proof. unfold hits_of. apply hits_scan_length. Qed.

Corollary detect_runs_out_spec matched target_len subset_len thr q :
  target_len <> 0 ->
  let hits := hits_of matched target_len in
  let t := trunc (fmul (of_Z (Z.of_N subset_len)) thr) in
  let tgt := if (t <? 0)%Z then 0 else Z.to_N t in
  let L := N.to_nat (N.min subset_len target_len) in
  detect_runs matched target_len subset_len thr q
  = group_runs
      (map N.of_nat (filter (fun i => tgt <=? window_count hits i L) (seq 0 (N.to_nat target_len))))
      q None.
Proof.
  intros Hne hits t tgt L. unfold detect_runs.
  destruct (N.eqb_spec target_len 0) as [He | _]; [contradiction|].
  cbv zeta. f_equal.
  pose proof (zip_windows_spec hits L tgt) as H. cbv zeta in H.
  assert (Hl : length hits = N.to_nat target_len) by apply hits_of_length.
  rewrite Hl in H. exact H.
Qed.

Lemma detect_runs_zero matched subset_len thr q : detect_runs matched 0 subset_len thr q = [].
Proof. reflexivity. Qed.

(* ---------- position (in)dependence of the window test ---------- *)

Lemma sumN_firstn_skipn_zeros : forall (n j k : nat), sumN (firstn k (skipn j (repeat 0 n))) = 0.
Proof.
  induction n as [|n IH]; intros j k.
  - cbn [repeat]. rewrite skipn_nil, firstn_nil. reflexivity.
  - cbn [repeat]. destruct j as [|j].
    + cbn [skipn]. destruct k as [|k].
      * reflexivity.
      * cbn [firstn]. rewrite sumN_cons. specialize (IH 0%nat k). cbn [skipn] in IH. rewrite IH. reflexivity.
    + cbn [skipn]. apply IH.
Qed.

Lemma skipn_repeat_app_ge : forall (la i : nat) (rest : list N),
  skipn (la + i) (repeat 0 la ++ rest) = skipn i rest.
Proof.
  induction la as [|la IH]; intros i rest.
  - reflexivity.
  - cbn [repeat app Nat.add skipn]. apply IH.
Qed.

Lemma skipn_repeat_app_le : forall (la i : nat) (rest : list N),
  (i <= la)%nat -> skipn i (repeat 0 la ++ rest) = repeat 0 (la - i) ++ rest.
Proof.
  induction la as [|la IH]; intros i rest Hi.
  - assert (i = 0%nat) as -> by lia. reflexivity.
  - destruct i as [|i].
    + reflexivity.
    + cbn [repeat app skipn Nat.sub]. apply IH. lia.
Qed.

Lemma sumN_firstn_zeros_app : forall (d L : nat) (rest : list N),
  sumN (firstn L (repeat 0 d ++ rest)) = sumN (firstn (L - d) rest).
Proof.
  induction d as [|d IH]; intros L rest.
  - rewrite Nat.sub_0_r. reflexivity.
  - destruct L as [|L].
    + reflexivity.
    + cbn [repeat app firstn Nat.sub]. rewrite sumN_cons, IH. lia.
Qed.

Lemma window_count_app_zeros hits lb i L :
  window_count (hits ++ repeat 0 lb) i L = window_count hits i L.
Proof.
  unfold window_count.
  rewrite skipn_app, firstn_app, sumN_app, sumN_firstn_skipn_zeros. lia.
Qed.

(* a window starting inside X (or after it) sees the same hits as in X alone *)
Theorem window_count_embedded hitsX la lb i L :
  window_count (repeat 0 la ++ hitsX ++ repeat 0 lb) (la + i) L = window_count hitsX i L.
Proof.
  unfold window_count at 1. rewrite skipn_repeat_app_ge.
  exact (window_count_app_zeros hitsX lb i L).
Qed.

(* a window starting in the preceding block sees a prefix of X's first window *)
Theorem window_count_before hitsX la lb i L :
  (i <= la)%nat ->
  window_count (repeat 0 la ++ hitsX ++ repeat 0 lb) i L <= window_count hitsX 0 L.
Proof.
  intros Hi. unfold window_count at 1.
  rewrite skipn_repeat_app_le by exact Hi.
  rewrite sumN_firstn_zeros_app.
  change (sumN (firstn (L - (la - i)) (hitsX ++ repeat 0 lb)))
    with (window_count (hitsX ++ repeat 0 lb) 0 (L - (la - i))).
  rewrite window_count_app_zeros. unfold window_count. cbn [skipn].
  apply sumN_firstn_mono. lia.
Qed.

Lemma window_count_past_end hits i L : (length hits <= i)%nat -> window_count hits i L = 0.
Proof.
  intros Hi. unfold window_count. rewrite skipn_all2 by exact Hi.
  rewrite firstn_nil. reflexivity.
Qed.

(* the qualification test, with the same L and target *)
Corollary qualifies_embedded hitsX la lb i L target :
  (target <=? window_count (repeat 0 la ++ hitsX ++ repeat 0 lb) (la + i) L)
  = (target <=? window_count hitsX i L).
Proof. now rewrite window_count_embedded. Qed.

Corollary qualifies_after hitsX la lb j L target :
  0 < target -> (la + length hitsX <= j)%nat ->
  (target <=? window_count (repeat 0 la ++ hitsX ++ repeat 0 lb) j L) = false.
Proof.
  intros Ht Hj. replace j with (la + (j - la))%nat by lia.
  rewrite window_count_embedded, window_count_past_end by lia.
  apply N.leb_gt. exact Ht.
Qed.

Corollary qualifies_before hitsX la lb i L target :
  (i <= la)%nat ->
  (target <=? window_count (repeat 0 la ++ hitsX ++ repeat 0 lb) i L) = true ->
  (target <=? window_count hitsX 0 L) = true.
Proof.
  intros Hi Hq. apply N.leb_le in Hq. apply N.leb_le.
  pose proof (window_count_before hitsX la lb i L Hi). lia.
Qed.

(* the same three facts on the output of the window pass *)
Corollary window_out_embedded hitsX la lb (i : nat) L target :
  0 < target ->
  (In (N.of_nat (la + i)) (window_out (repeat 0 la ++ hitsX ++ repeat 0 lb) L target)
   <-> In (N.of_nat i) (window_out hitsX L target)).
Proof.
  intros Ht. rewrite !window_out_In, window_count_embedded.
  rewrite !app_length, !repeat_length. split.
  - intros [Hlt Hq]. split; [|exact Hq].
    destruct (Nat.lt_ge_cases i (length hitsX)) as [Hc | Hc]; [exact Hc|].
    rewrite window_count_past_end in Hq by exact Hc. lia.
  - intros [Hlt Hq]. split; [lia | exact Hq].
Qed.

Corollary window_out_after hitsX la lb (j : nat) L target :
  0 < target -> (la + length hitsX <= j)%nat ->
  ~ In (N.of_nat j) (window_out (repeat 0 la ++ hitsX ++ repeat 0 lb) L target).
Proof.
  intros Ht Hj. rewrite window_out_In. intros [_ Hq].
  pose proof (qualifies_after hitsX la lb j L target Ht Hj) as Hf.
  apply N.leb_gt in Hf. lia.
Qed.

Corollary window_out_before hitsX la lb (i : nat) L target :
  0 < target -> (i <= la)%nat ->
  In (N.of_nat i) (window_out (repeat 0 la ++ hitsX ++ repeat 0 lb) L target) ->
  In 0 (window_out hitsX L target).
Proof.
  intros Ht Hi Hin. apply window_out_In in Hin. destruct Hin as [_ Hq].
  pose proof (window_count_before hitsX la lb i L Hi) as Hb.
  change 0 with (N.of_nat 0). apply window_out_In. split; [|lia].
  destruct hitsX as [|x r]; [|cbn [length]; lia].
  unfold window_count in Hb at 2. cbn [skipn] in Hb. rewrite firstn_nil, sumN_nil in Hb. lia.
Qed.

(* ... but an index BEFORE la can qualify: the density window is position
   dependent at the leading edge.  X = [1;1;1;1] alone qualifies only at index
   0; after 3 non-matching tokens the qualifying indices are 1, 2, 3 (and not
   only 3 = la + 0), so a run of the embedded text starts 2 tokens early. *)
Example leading_edge_alone : window_out [1;1;1;1] 6 4 = [0].
Proof. vm_compute. reflexivity. Qed.

Example leading_edge_embedded :
  window_out (repeat 0 3 ++ [1;1;1;1] ++ repeat 0 5) 6 4 = [1;2;3].
Proof. vm_compute. reflexivity. Qed.

Example leading_edge_count :
  (4 <=? window_count (repeat 0 3 ++ [1;1;1;1] ++ repeat 0 5) 1 6) = true
  /\ (4 <=? window_count [1;1;1;1] 0 6) = true.
Proof. vm_compute. split; reflexivity. Qed.

(* ---------- group_runs ---------- *)

Lemma group_runs_none i r q : group_runs (i :: r) q None = group_runs r q (Some (i, i + q)).
Proof. reflexivity. Qed.

Lemma group_runs_some i r q s e :
  group_runs (i :: r) q (Some (s, e))
  = if i + q =? e + 1 then group_runs r q (Some (s, i + q))
    else (s, e) :: group_runs r q (Some (i, i + q)).
Proof. reflexivity. Qed.

(* the open run is emitted first, possibly extended *)
Lemma group_runs_head q : forall out s e,
  exists e' rest, group_runs out q (Some (s, e)) = (s, e') :: rest /\ e <= e'.
Proof.
  induction out as [|i r IH]; intros s e.
  - exists e, []. split; [reflexivity | lia].
  - rewrite group_runs_some. destruct (N.eqb_spec (i + q) (e + 1)) as [Heq | Hne].
    + destruct (IH s (i + q)) as (e' & rest & Hr & Hle).
      exists e', rest. split; [exact Hr | lia].
    + exists e, (group_runs r q (Some (i, i + q))). split; [reflexivity | lia].
Qed.

Lemma group_runs_cover_gen q : forall out cur i,
  match cur with Some (s, e) => s + q <= e | None => True end ->
  In i out ->
  exists s e, In (s, e) (group_runs out q cur) /\ s <= i /\ i + q <= e.
Proof.
  induction out as [|i0 r IH]; intros cur i Hinv Hin.
  - destruct Hin.
  - assert (Hstart : exists s e, In (s, e) (group_runs r q (Some (i0, i0 + q))) /\ s <= i /\ i + q <= e).
    { destruct Hin as [-> | Hin].
      - destruct (group_runs_head q r i (i + q)) as (e' & rest & Hr & Hle).
        exists i, e'. rewrite Hr. split; [left; reflexivity | lia].
      - apply IH; [lia | exact Hin]. }
    destruct cur as [[s0 e0]|].
    + rewrite group_runs_some. destruct (N.eqb_spec (i0 + q) (e0 + 1)) as [Heq | Hne].
      * destruct Hin as [-> | Hin].
        -- destruct (group_runs_head q r s0 (i + q)) as (e' & rest & Hr & Hle).
           exists s0, e'. rewrite Hr. split; [left; reflexivity | lia].
        -- apply IH; [lia | exact Hin].
      * destruct Hstart as (s & e & Hr & Hb). exists s, e. split; [right; exact Hr | exact Hb].
    + rewrite group_runs_none. exact Hstart.
Qed.

(* every reported index lies in some run *)
Lemma group_runs_cover out q : forall i, In i out ->
  exists s e, In (s, e) (group_runs out q None) /\ s <= i /\ i + q <= e.
Proof. intros i Hin. apply group_runs_cover_gen; [exact I | exact Hin]. Qed.

(* a run of [out]: its first and last index are in [out], and so is everything between *)
Definition run_ok (out : list N) (q s e : N) : Prop :=
  In s out /\ In (e - q) out /\ s + q <= e /\ forall j, s <= j <= e - q -> In j out.

(* the open run (s0, e0) extended by indices of [out] *)
Definition run_ext (out : list N) (q s0 e0 s e : N) : Prop :=
  s = s0 /\ e0 <= e /\ (e = e0 \/ In (e - q) out) /\ forall j, e0 - q < j <= e - q -> In j out.

Lemma run_ok_cons out q s e i : run_ok out q s e -> run_ok (i :: out) q s e.
Proof.
  intros (Hs & He & Hle & Hall). repeat split.
  - right; exact Hs.
  - right; exact He.
  - exact Hle.
  - intros j Hj. right. apply Hall. exact Hj.
Qed.

Lemma run_start_conv i r q s e :
  run_ext r q i (i + q) s e \/ run_ok r q s e -> run_ok (i :: r) q s e.
Proof.
  intros [(Hs & Hle & Hlast & Hall) | Hok]; [|apply run_ok_cons; exact Hok].
  subst s. repeat split.
  - left; reflexivity.
  - destruct Hlast as [-> | Hlast].
    + left. lia.
    + right. exact Hlast.
  - exact Hle.
  - intros j Hj. destruct (N.eq_dec j i) as [-> | Hne].
    + left; reflexivity.
    + right. apply Hall. lia.
Qed.

Lemma sorted_tail_gt (i : N) (r : list N) (q : N) :
  StronglySorted N.lt (i :: r) -> StronglySorted N.lt r /\ Forall (fun x => i + q - q < x) r.
Proof.
  intros Hs. apply StronglySorted_inv in Hs. destruct Hs as [Hs Hall]. split; [exact Hs|].
  eapply Forall_impl; [|exact Hall]. cbv beta. intros x Hx. lia.
Qed.

Lemma group_runs_sound_gen q : forall out s0 e0,
  StronglySorted N.lt out -> s0 + q <= e0 -> Forall (fun i => e0 - q < i) out ->
  forall s e, In (s, e) (group_runs out q (Some (s0, e0))) ->
  run_ext out q s0 e0 s e \/ run_ok out q s e.
Proof.
  induction out as [|i r IH]; intros s0 e0 Hsort Hinv Hgt s e Hin.
  - cbn [group_runs] in Hin. destruct Hin as [Heq | []]. inversion Heq; subst s e.
    left. repeat split; [lia | left; reflexivity | intros j Hj; lia].
  - destruct (sorted_tail_gt i r q Hsort) as [Hsr Hir].
    apply Forall_inv in Hgt as Hi.
    rewrite group_runs_some in Hin.
    destruct (N.eqb_spec (i + q) (e0 + 1)) as [Heq | Hne].
    + apply (IH s0 (i + q) Hsr ltac:(lia) Hir) in Hin.
      destruct Hin as [(Hs & Hle & Hlast & Hall) | Hok]; [left | right; apply run_ok_cons; exact Hok].
      repeat split.
      * exact Hs.
      * lia.
      * right. destruct Hlast as [-> | Hlast]; [left; lia | right; exact Hlast].
      * intros j Hj. destruct (N.eq_dec j i) as [-> | Hji]; [left; reflexivity|].
        right. apply Hall. lia.
    + destruct Hin as [Heq | Hin].
      * inversion Heq; subst s e. left.
        repeat split; [lia | left; reflexivity | intros j Hj; lia].
      * right. apply run_start_conv.
        apply (IH i (i + q) Hsr ltac:(lia) Hir). exact Hin.
Qed.

(* every run starts and ends at reported indices and consists of consecutive reported indices *)
Lemma group_runs_sound out q :
  StronglySorted N.lt out ->
  forall s e, In (s, e) (group_runs out q None) ->
  In s out /\ In (e - q) out /\ s + q <= e /\ forall j, s <= j <= e - q -> In j out.
Proof.
  intros Hsort s e Hin. destruct out as [|i r].
  - destruct Hin.
  - rewrite group_runs_none in Hin.
    destruct (sorted_tail_gt i r q Hsort) as [Hsr Hir].
    apply (run_start_conv i r q s e).
    apply (group_runs_sound_gen q r i (i + q) Hsr ltac:(lia) Hir). exact Hin.
Qed.

(* runs are well formed, increasing and separated by at least one unreported index *)
Definition run_sep (q : N) (r1 r2 : N * N) : Prop :=
  fst r1 + q <= snd r1 /\ fst r2 + q <= snd r2 /\ snd r1 - q + 1 < fst r2.

Lemma run_sep_trans q : Relations_1.Transitive (run_sep q).
Proof.
  intros [s1 e1] [s2 e2] [s3 e3]. unfold run_sep. cbn [fst snd]. lia.
Qed.

Lemma group_runs_ordered_gen q : forall out s0 e0,
  StronglySorted N.lt out -> s0 + q <= e0 -> Forall (fun i => e0 - q < i) out ->
  Sorted (run_sep q) (group_runs out q (Some (s0, e0))).
Proof.
  induction out as [|i r IH]; intros s0 e0 Hsort Hinv Hgt.
  - cbn [group_runs]. constructor; constructor.
  - destruct (sorted_tail_gt i r q Hsort) as [Hsr Hir].
    apply Forall_inv in Hgt as Hi.
    rewrite group_runs_some.
    destruct (N.eqb_spec (i + q) (e0 + 1)) as [Heq | Hne].
    + apply IH; [exact Hsr | lia | exact Hir].
    + constructor.
      * apply IH; [exact Hsr | lia | exact Hir].
      * destruct (group_runs_head q r i (i + q)) as (e' & rest & Hr & Hle).
        rewrite Hr. constructor. unfold run_sep. cbn [fst snd]. lia.
Qed.

(* consecutive runs (s1,e1), (s2,e2): e1 - q + 1 < s2 *)
Lemma group_runs_ordered out q :
  StronglySorted N.lt out -> Sorted (run_sep q) (group_runs out q None).
Proof.
  intros Hsort. destruct out as [|i r].
  - constructor.
  - rewrite group_runs_none.
    destruct (sorted_tail_gt i r q Hsort) as [Hsr Hir].
    apply group_runs_ordered_gen; [exact Hsr | lia | exact Hir].
Qed.

(* ... hence any earlier run lies entirely before any later one *)
Corollary group_runs_strongly_ordered out q :
  StronglySorted N.lt out -> StronglySorted (run_sep q) (group_runs out q None).
Proof.
  intros Hsort. apply Sorted_StronglySorted; [apply run_sep_trans|].
  apply group_runs_ordered. exact Hsort.
Qed.

Corollary group_runs_ordered_consecutive out q pre s1 e1 s2 e2 post :
  StronglySorted N.lt out ->
  group_runs out q None = pre ++ (s1, e1) :: (s2, e2) :: post ->
  s1 + q <= e1 /\ s2 + q <= e2 /\ e1 - q + 1 < s2.
Proof.
  intros Hsort Heq. pose proof (group_runs_ordered out q Hsort) as Hs.
  rewrite Heq in Hs. clear Heq. induction pre as [|p pre IH].
  - cbn [app] in Hs. apply Sorted_inv in Hs. destruct Hs as [_ Hhd].
    apply HdRel_inv in Hhd. exact Hhd.
  - apply IH. rewrite <- app_comm_cons in Hs. apply Sorted_inv in Hs. apply Hs.
Qed.

(* the list detect_runs hands to group_runs is strictly increasing, so the
   three group_runs lemmas apply to it *)
Lemma seq_sorted : forall m i0, StronglySorted lt (seq i0 m).
Proof.
  induction m as [|m IH]; intros i0.
  - constructor.
  - cbn [seq]. constructor; [apply IH|].
    apply Forall_forall. intros x Hx. apply in_seq in Hx. lia.
Qed.

Lemma filter_sorted {A} (R : A -> A -> Prop) (f : A -> bool) (l : list A) :
  StronglySorted R l -> StronglySorted R (filter f l).
Proof.
  induction 1 as [|a l Hs IH Hall].
  - constructor.
  - cbn [filter]. destruct (f a); [|exact IH].
    constructor; [exact IH|].
    apply Forall_forall. intros x Hx. apply filter_In in Hx.
    rewrite Forall_forall in Hall. apply Hall. apply Hx.
Qed.

Lemma map_of_nat_sorted (l : list nat) :
  StronglySorted lt l -> StronglySorted N.lt (map N.of_nat l).
Proof.
  induction 1 as [|a l Hs IH Hall].
  - constructor.
  - cbn [map]. constructor; [exact IH|].
    apply Forall_forall. intros x Hx. apply in_map_iff in Hx.
    destruct Hx as (y & <- & Hy). rewrite Forall_forall in Hall.
    specialize (Hall y Hy). lia.
Qed.

Lemma window_out_sorted hits L target : StronglySorted N.lt (window_out hits L target).
Proof.
  rewrite window_out_spec. apply map_of_nat_sorted, filter_sorted, seq_sorted.
Qed.

Print Assumptions zip_windows_spec.
Print Assumptions detect_runs_out_spec.
Print Assumptions group_runs_sound.
Print Assumptions window_count_embedded.
