(* Position independence of the FUSION stage (fuseRanges) and of the
   claimed-token cut (findPotentialMatches): shifting every matched range,
   every run and the target size by d shifts the fused result by d --
   provided no matched range lies on a negative diagonal (that is where the
   Go code clamps a negative offset to 0, which is position dependent by
   construction; see [fuse_negative_offset_is_position_dependent]).
   Together with Shift.matched_ranges_shift this gives position independence
   of getMatchedRanges / findPotentialMatches GIVEN that the runs shift
   (the density window of detectRuns is position dependent at the edges, so
   that part is an explicit hypothesis here). *)
From Coq Require Import List NArith ZArith Bool Lia.
Import ListNotations.
From LC.Base Require Import Float64 Sort.
From LC.V2 Require Import SSet Shift.
Local Open Scope N_scope.

Definition shift_run (d : N) (r : N * N) : N * N := (fst r + d, snd r + d).
Definition nonneg_off (m : range) : Prop := (src_start m <= tgt_start m)%N.   (* zoff m >= 0 *)

(* ---------------------------------------------------------------------- *)
(* field lemmas                                                            *)
(* ---------------------------------------------------------------------- *)
Lemma src_start_shift d r : src_start (shift d r) = src_start r. Proof. reflexivity. Qed.
Lemma src_end_shift d r : src_end (shift d r) = src_end r. Proof. reflexivity. Qed.
Lemma tgt_start_shift d r : tgt_start (shift d r) = tgt_start r + d. Proof. reflexivity. Qed.
Lemma tgt_end_shift d r : tgt_end (shift d r) = tgt_end r + d. Proof. reflexivity. Qed.
Lemma claimed_shift d r : claimed (shift d r) = claimed r. Proof. reflexivity. Qed.

Lemma ltb_add_r a b d : (a + d <? b + d) = (a <? b).
Proof. destruct (N.ltb_spec (a + d) (b + d)), (N.ltb_spec a b); lia. Qed.

Lemma leb_add_r a b d : (a + d <=? b + d) = (a <=? b).
Proof. destruct (N.leb_spec (a + d) (b + d)), (N.leb_spec a b); lia. Qed.

Lemma nonneg_off_zoff m : nonneg_off m <-> (0 <= zoff m)%Z.
Proof. unfold nonneg_off, zoff. lia. Qed.

Lemma zoff_shift d m : zoff (shift d m) = (zoff m + Z.of_N d)%Z.
Proof. unfold zoff. rewrite tgt_start_shift, src_start_shift. lia. Qed.

Lemma rin_shift d m c : rin (shift d m) (shift d c) = rin m c.
Proof. unfold rin. rewrite !tgt_start_shift, !tgt_end_shift, !leb_add_r. reflexivity. Qed.

Lemma in_filter_shift d runs ts o :
  in_filter (map (shift_run d) runs) (ts + d) (o + d) = in_filter runs ts o.
Proof.
  unfold in_filter. induction runs as [|r runs IH]; [reflexivity|].
  cbn [map existsb]. rewrite IH. f_equal.
  unfold shift_run; cbn [fst snd]. rewrite leb_add_r, !ltb_add_r. reflexivity.
Qed.

(* ---------------------------------------------------------------------- *)
(* absorb                                                                  *)
(* ---------------------------------------------------------------------- *)
Lemma absorb_shift em d m cs :
  absorb em (shift d m) (map (shift d) cs) = option_map (map (shift d)) (absorb em m cs).
Proof.
  induction cs as [|c rest IH]; [reflexivity|].
  cbn [map absorb]. rewrite IH.
  rewrite !zoff_shift, rin_shift.
  replace (zoff m + Z.of_N d - (zoff c + Z.of_N d))%Z with (zoff m - zoff c)%Z by lia.
  rewrite !claimed_shift, !src_start_shift, !src_end_shift, !tgt_start_shift, !tgt_end_shift.
  rewrite !ltb_add_r.
  destruct ((Z.abs (zoff m - zoff c) <? em)%Z && (Z.abs (zoff m - zoff c) <? Z.of_N (claimed m))%Z).
  - destruct (rin m c); [reflexivity|].
    destruct ((tgt_start m <? tgt_start c) && (src_start m <? src_start c)); [reflexivity|].
    destruct ((tgt_end c <? tgt_end m) && (src_end c <? src_end m)); [reflexivity|].
    destruct (absorb em m rest); reflexivity.
  - destruct (absorb em m rest); reflexivity.
Qed.

(* ---------------------------------------------------------------------- *)
(* one iteration of the loop, as a function                                *)
(* ---------------------------------------------------------------------- *)
Definition fuse_step (em : Z) (runs : list (N * N)) (ts : N) (m : range) (ftc : N)
           (fic isf : bool) (cs : list range) : list range * bool :=
  let off := zoff m in
  let offc := if (off <? 0)%Z then (if (- off <=? em)%Z then Some 0 else None) else Some (Z.to_N off) in
  match offc with
  | None => (cs, fic)
  | Some o =>
    if negb (in_filter runs ts o) then (cs, fic)
    else
      match absorb em m cs with
      | Some cs1 => (cs1, fic)
      | None =>
        let m0 := if fic then match cs with c :: _ => claimed c | [] => ftc end else ftc in
        if m0 <? claimed m * 10
        then (cs ++ [m], if isf then true else fic)
        else (cs, fic)
      end
  end.

Lemma fuse_loop_cons em runs ts m rest ftc fic isf cs :
  fuse_loop em runs ts (m :: rest) ftc fic isf cs =
  fuse_loop em runs ts rest ftc (snd (fuse_step em runs ts m ftc fic isf cs)) false
            (fst (fuse_step em runs ts m ftc fic isf cs)).
Proof.
  change (fuse_loop em runs ts (m :: rest) ftc fic isf cs)
    with (let '(cs', fic') := fuse_step em runs ts m ftc fic isf cs in
          fuse_loop em runs ts rest ftc fic' false cs').
  destruct (fuse_step em runs ts m ftc fic isf cs); reflexivity.
Qed.

Lemma fuse_step_shift em d runs ts m ftc fic isf cs :
  nonneg_off m ->
  fuse_step em (map (shift_run d) runs) (ts + d) (shift d m) ftc fic isf (map (shift d) cs) =
  (map (shift d) (fst (fuse_step em runs ts m ftc fic isf cs)),
   snd (fuse_step em runs ts m ftc fic isf cs)).
Proof.
  intros Hm. apply nonneg_off_zoff in Hm. unfold fuse_step.
  rewrite zoff_shift.
  replace (zoff m + Z.of_N d <? 0)%Z with false by (symmetry; apply Z.ltb_ge; lia).
  replace (zoff m <? 0)%Z with false by (symmetry; apply Z.ltb_ge; lia).
  replace (Z.to_N (zoff m + Z.of_N d)) with (Z.to_N (zoff m) + d)
    by (rewrite Z2N.inj_add, N2Z.id by lia; reflexivity).
  rewrite in_filter_shift, absorb_shift, claimed_shift.
  destruct (in_filter runs ts (Z.to_N (zoff m))); cbn [negb]; [|reflexivity].
  destruct (absorb em m cs) as [cs1|]; cbn [option_map]; [reflexivity|].
  replace (match map (shift d) cs with [] => ftc | c :: _ => claimed c end)
    with (match cs with [] => ftc | c :: _ => claimed c end)
    by (destruct cs; reflexivity).
  destruct ((if fic then match cs with [] => ftc | c :: _ => claimed c end else ftc) <? claimed m * 10);
    cbn [fst snd]; [|reflexivity].
  rewrite map_app. reflexivity.
Qed.

Lemma fuse_loop_shift em d runs ts ms ftc fic isf cs :
  Forall nonneg_off ms ->
  fuse_loop em (map (shift_run d) runs) (ts + d) (map (shift d) ms) ftc fic isf (map (shift d) cs)
  = map (shift d) (fuse_loop em runs ts ms ftc fic isf cs).
Proof.
  intros HF. revert fic isf cs.
  induction HF as [|m rest Hm HF IH]; intros fic isf cs; [reflexivity|].
  cbn [map]. rewrite !fuse_loop_cons, fuse_step_shift by assumption. cbn [fst snd].
  apply IH.
Qed.

Theorem fuse_ranges_shift matched conf size runs ts d :
  Forall nonneg_off matched ->
  fuse_ranges (map (shift d) matched) conf size (map (shift_run d) runs) (ts + d)
  = map (shift d) (fuse_ranges matched conf size runs ts).
Proof.
  intros HF. unfold fuse_ranges.
  rewrite <- (sort_map range_lt range_lt (shift d) (range_lt_shift d)). f_equal.
  replace (match map (shift d) matched with [] => 0 | m :: _ => claimed m end)
    with (match matched with [] => 0 | m :: _ => claimed m end)
    by (destruct matched; reflexivity).
  apply (fuse_loop_shift _ d runs ts matched _ false true []). assumption.
Qed.

Lemma take_while_claimed_shift thr d l :
  take_while_claimed thr (map (shift d) l) = map (shift d) (take_while_claimed thr l).
Proof.
  induction l as [|m r IH]; [reflexivity|].
  cbn [map take_while_claimed]. rewrite claimed_shift.
  destruct (Z.of_N (claimed m) <? thr)%Z; [reflexivity|]. cbn [map]. rewrite IH. reflexivity.
Qed.

(* ---------------------------------------------------------------------- *)
(* the hypothesis is needed: the clamp of a negative offset to 0           *)
(* ---------------------------------------------------------------------- *)
Example fuse_negative_offset_is_position_dependent :
  exists em runs ts m d,
    ~ nonneg_off m /\
    fuse_loop em (map (shift_run d) runs) (ts + d) [shift d m] (claimed m) false true []
    <> map (shift d) (fuse_loop em runs ts [m] (claimed m) false true []).
Proof.
  exists 5%Z, [(0, 1)], 10,
         {| src_start := 3; src_end := 5; tgt_start := 1; tgt_end := 3; claimed := 2 |}, 5.
  split.
  - unfold nonneg_off; cbn [src_start tgt_start]. lia.
  - vm_compute. discriminate.
Qed.

(* ---------------------------------------------------------------------- *)
(* the target size is irrelevant once it bounds every run end              *)
(* ---------------------------------------------------------------------- *)
Lemma in_filter_size_irrelevant runs ts ts' o :
  (forall r, In r runs -> snd r <= ts) -> ts <= ts' ->
  in_filter runs ts' o = in_filter runs ts o.
Proof.
  intros Hr Hle. unfold in_filter.
  induction runs as [|r runs IH]; [reflexivity|].
  cbn [existsb]. rewrite IH by (intros r' Hr'; apply Hr; right; assumption). f_equal.
  pose proof (Hr r (or_introl eq_refl)) as Hb.
  destruct (N.ltb_spec o (snd r)) as [Ho|Ho]; cbn [andb].
  - replace (o <? ts') with true by (symmetry; apply N.ltb_lt; lia).
    replace (o <? ts) with true by (symmetry; apply N.ltb_lt; lia). reflexivity.
  - rewrite !andb_false_r. reflexivity.
Qed.

Lemma fuse_step_size_irrelevant em runs ts ts' m ftc fic isf cs :
  (forall r, In r runs -> snd r <= ts) -> ts <= ts' ->
  fuse_step em runs ts' m ftc fic isf cs = fuse_step em runs ts m ftc fic isf cs.
Proof.
  intros Hr Hle. unfold fuse_step.
  destruct (if (zoff m <? 0)%Z then if (- zoff m <=? em)%Z then Some 0 else None
            else Some (Z.to_N (zoff m))) as [o|]; [|reflexivity].
  rewrite (in_filter_size_irrelevant runs ts ts' o Hr Hle). reflexivity.
Qed.

Lemma fuse_loop_size_irrelevant em runs ts ts' ms ftc fic isf cs :
  (forall r, In r runs -> snd r <= ts) -> ts <= ts' ->
  fuse_loop em runs ts' ms ftc fic isf cs = fuse_loop em runs ts ms ftc fic isf cs.
Proof.
  intros Hr Hle. revert fic isf cs.
  induction ms as [|m rest IH]; intros fic isf cs; [reflexivity|].
  rewrite !fuse_loop_cons, (fuse_step_size_irrelevant em runs ts ts') by assumption.
  apply IH.
Qed.

Lemma fuse_ranges_size_irrelevant matched conf size runs ts ts' :
  (forall r, In r runs -> snd r <= ts) -> ts <= ts' ->
  fuse_ranges matched conf size runs ts' = fuse_ranges matched conf size runs ts.
Proof.
  intros Hr Hle. unfold fuse_ranges. f_equal.
  apply fuse_loop_size_irrelevant; assumption.
Qed.

(* ---------------------------------------------------------------------- *)
(* composition: getMatchedRanges / findPotentialMatches, given the runs    *)
(* ---------------------------------------------------------------------- *)
Definition gmr_core (matched : list range) (runs : list (N * N)) (conf : f64) (size ts : N) : list range :=
  match matched with
  | [] => []
  | _ => match runs with
         | [] => []
         | _ => fuse_ranges matched conf size runs ts
         end
  end.

Lemma get_matched_ranges_core src tgt conf :
  get_matched_ranges src tgt conf =
  gmr_core (target_matched_ranges src tgt)
           (detect_runs (target_matched_ranges src tgt) (ss_len tgt) (ss_len src) conf (ss_q src))
           conf (ss_len src) (ss_len tgt).
Proof. reflexivity. Qed.

Lemma gmr_core_shift matched runs conf size ts d lb :
  Forall nonneg_off matched ->
  (forall r, In r runs -> snd r <= ts) ->
  gmr_core (map (shift d) matched) (map (shift_run d) runs) conf size (ts + d + lb)
  = map (shift d) (gmr_core matched runs conf size ts).
Proof.
  intros HF Hr. unfold gmr_core.
  destruct matched as [|m0 ms]; [reflexivity|].
  destruct runs as [|r0 rs]; [reflexivity|].
  change (shift d m0 :: map (shift d) ms) with (map (shift d) (m0 :: ms)).
  change (shift_run d r0 :: map (shift_run d) rs) with (map (shift_run d) (r0 :: rs)).
  cbn [map].
  change (shift d m0 :: map (shift d) ms) with (map (shift d) (m0 :: ms)).
  change (shift_run d r0 :: map (shift_run d) rs) with (map (shift_run d) (r0 :: rs)).
  rewrite (fuse_ranges_size_irrelevant _ conf size _ (ts + d) (ts + d + lb)).
  - apply fuse_ranges_shift. assumption.
  - intros r Hin. apply in_map_iff in Hin. destruct Hin as (r' & <- & Hin').
    unfold shift_run; cbn [snd]. pose proof (Hr r' Hin'). lia.
  - lia.
Qed.

Theorem get_matched_ranges_shift_given_runs (src tX tE : sset) (conf : f64) (d lb : N) :
  target_matched_ranges src tE = map (shift d) (target_matched_ranges src tX) ->
  detect_runs (target_matched_ranges src tE) (ss_len tE) (ss_len src) conf (ss_q src)
  = map (shift_run d)
        (detect_runs (target_matched_ranges src tX) (ss_len tX) (ss_len src) conf (ss_q src)) ->
  (forall r, In r (detect_runs (target_matched_ranges src tX) (ss_len tX) (ss_len src) conf (ss_q src)) ->
             snd r <= ss_len tX) ->
  Forall nonneg_off (target_matched_ranges src tX) ->
  ss_len tE = ss_len tX + d + lb ->
  get_matched_ranges src tE conf = map (shift d) (get_matched_ranges src tX conf).
Proof.
  intros HM HR Hends Hnn Hlen.
  rewrite !get_matched_ranges_core, HR, HM, Hlen.
  apply gmr_core_shift; assumption.
Qed.

Theorem find_potential_matches_shift_given_runs (src tX tE : sset) (conf : f64) (d lb : N) :
  target_matched_ranges src tE = map (shift d) (target_matched_ranges src tX) ->
  detect_runs (target_matched_ranges src tE) (ss_len tE) (ss_len src) conf (ss_q src)
  = map (shift_run d)
        (detect_runs (target_matched_ranges src tX) (ss_len tX) (ss_len src) conf (ss_q src)) ->
  (forall r, In r (detect_runs (target_matched_ranges src tX) (ss_len tX) (ss_len src) conf (ss_q src)) ->
             snd r <= ss_len tX) ->
  Forall nonneg_off (target_matched_ranges src tX) ->
  ss_len tE = ss_len tX + d + lb ->
  find_potential_matches src tE conf = map (shift d) (find_potential_matches src tX conf).
Proof.
  intros HM HR Hends Hnn Hlen. unfold find_potential_matches.
  rewrite (get_matched_ranges_shift_given_runs src tX tE conf d lb HM HR Hends Hnn Hlen).
  apply take_while_claimed_shift.
Qed.

(* ---------------------------------------------------------------------- *)
(* non-vacuity: the hypotheses of the composed corollary are satisfiable   *)
(* with a non-empty result                                                 *)
(* ---------------------------------------------------------------------- *)
Section Example.
Definition fx_src : sset := {| ss_len := 6; ss_q := 2; ss_sums := [1;2;3;4;5] |}.
Definition fx_tX : sset := {| ss_len := 6; ss_q := 2; ss_sums := [1;2;3;4;5] |}.
Definition fx_tE : sset :=
  {| ss_len := 6 + 2 + 1; ss_q := 2; ss_sums := [7;8] ++ [1;2;3;4;5] ++ [9] |}.

Example fx_shift :
  find_potential_matches fx_src fx_tE fone = map (shift 2) (find_potential_matches fx_src fx_tX fone) /\
  find_potential_matches fx_src fx_tX fone =
  [ {| src_start := 0; src_end := 6; tgt_start := 0; tgt_end := 6; claimed := 6 |} ].
Proof.
  split; [|vm_compute; reflexivity].
  assert (EX : target_matched_ranges fx_src fx_tX =
               [ {| src_start := 0; src_end := 6; tgt_start := 0; tgt_end := 6; claimed := 6 |} ])
    by (vm_compute; reflexivity).
  assert (ER : detect_runs (target_matched_ranges fx_src fx_tX) (ss_len fx_tX) (ss_len fx_src) fone
                           (ss_q fx_src) = [(0, 2)])
    by (vm_compute; reflexivity).
  apply (find_potential_matches_shift_given_runs fx_src fx_tX fx_tE fone 2 1).
  - vm_compute. reflexivity.
  - vm_compute. reflexivity.
  - rewrite ER. intros r [<-|[]]. cbn [snd ss_len fx_tX]. lia.
  - rewrite EX. constructor; [|constructor]. unfold nonneg_off; cbn [src_start tgt_start]. lia.
  - reflexivity.
Qed.
End Example.

Print Assumptions fuse_ranges_shift.
Print Assumptions get_matched_ranges_shift_given_runs.
Print Assumptions find_potential_matches_shift_given_runs.
Print Assumptions fuse_negative_offset_is_position_dependent.
