(* C04 (determinism): the result of [match_tokens] does not depend on the order
   in which the corpus documents are visited (Go: map iteration order) nor on
   which sorting algorithm orders the candidates (Go: sort.Sort, unstable),
   PROVIDED the comparator is the repaired, total one ([cf_total_less = true]).
   With the original comparator ([less false]) two candidates for documents
   with identical text are incomparable and the result is not determined.

   Contents
   1. generic lexicographic combination of boolean orders ([bord], [bord_lex])
   2. [str_eqb]/[str_ltb]: decidable equality / strict total order on strings
   3. float comparisons ([feq]/[flt] = SFeqb/SFltb): a strict total order on
      every spec_float except NaN; [feq a b = true -> a = b] except for +0/-0.
      [okconf c] := c is neither NaN nor -0.
   4. [less true] is a strict total order on records with [okconf] confidence
   5. [less false] is not: witnesses at the level of [less], [sort] and
      [match_tokens]
   6. [range_lt] (SSet.v)
   7. permutation invariance of [all_candidates]
   8. [match_tokens_order_independent]
   9. [okconf (confidence klen d)] for 0 <= d, 0 < klen < 2^53 proved from the
      SpecFloat definitions, which discharges the hypothesis of 8. *)
From Coq Require Import List NArith ZArith Bool Lia Permutation Sorted SpecFloat FMapPositive.
From LC.Base Require Import Float64 Sort SortProof.
From LC.V2 Require Import SSet Match.
Import ListNotations.
Local Open Scope Z_scope.

(* ================================================================== *)
(* 1. Lexicographic combination of boolean (pre)orders                 *)

(* [eqb] is an equivalence, [ltb] a strict order compatible with it and
   total modulo it; everything only on elements satisfying [P]. *)
Record bord {A : Type} (P : A -> Prop) (eqb ltb : A -> A -> bool) : Prop := {
  bo_refl : forall a, P a -> eqb a a = true;
  bo_sym : forall a b, P a -> P b -> eqb a b = true -> eqb b a = true;
  bo_etrans : forall a b c, P a -> P b -> P c -> eqb a b = true -> eqb b c = true -> eqb a c = true;
  bo_irr : forall a b, P a -> P b -> eqb a b = true -> ltb a b = false;
  bo_trans : forall a b c, P a -> P b -> P c -> ltb a b = true -> ltb b c = true -> ltb a c = true;
  bo_el : forall a b c, P a -> P b -> P c -> eqb a b = true -> ltb b c = true -> ltb a c = true;
  bo_le : forall a b c, P a -> P b -> P c -> ltb a b = true -> eqb b c = true -> ltb a c = true;
  bo_tri : forall a b, P a -> P b -> eqb a b = false -> ltb a b = false -> ltb b a = true
}.
Arguments bo_refl {A P eqb ltb}.
Arguments bo_sym {A P eqb ltb}.
Arguments bo_etrans {A P eqb ltb}.
Arguments bo_irr {A P eqb ltb}.
Arguments bo_trans {A P eqb ltb}.
Arguments bo_el {A P eqb ltb}.
Arguments bo_le {A P eqb ltb}.
Arguments bo_tri {A P eqb ltb}.

Definition lex_eq {A} (e1 e2 : A -> A -> bool) (a b : A) : bool := e1 a b && e2 a b.
Definition lex_lt {A} (e1 l1 l2 : A -> A -> bool) (a b : A) : bool :=
  if negb (e1 a b) then l1 a b else l2 a b.

Section Lex.
  Context {A : Type} (P : A -> Prop).

  Lemma bo_lt_neq : forall eqb ltb, bord P eqb ltb ->
    forall a b, P a -> P b -> ltb a b = true -> eqb a b = false.
  Proof.
    intros eqb ltb B a b Pa Pb Hlt. destruct (eqb a b) eqn:He; [|reflexivity].
    rewrite (bo_irr B a b Pa Pb He) in Hlt. discriminate.
  Qed.

  Lemma bo_sym_false : forall eqb ltb, bord P eqb ltb ->
    forall a b, P a -> P b -> eqb a b = false -> eqb b a = false.
  Proof.
    intros eqb ltb B a b Pa Pb He. destruct (eqb b a) eqn:He'; [|reflexivity].
    rewrite (bo_sym B b a Pb Pa He') in He. discriminate.
  Qed.

  Lemma bord_lex : forall e1 l1 e2 l2,
    bord P e1 l1 -> bord P e2 l2 -> bord P (lex_eq e1 e2) (lex_lt e1 l1 l2).
  Proof.
    intros e1 l1 e2 l2 B1 B2. unfold lex_eq, lex_lt. constructor.
    - intros a Pa. rewrite (bo_refl B1 a Pa), (bo_refl B2 a Pa). reflexivity.
    - intros a b Pa Pb H. apply andb_true_iff in H. destruct H as [H1 H2].
      rewrite (bo_sym B1 a b Pa Pb H1), (bo_sym B2 a b Pa Pb H2). reflexivity.
    - intros a b c Pa Pb Pc H H'. apply andb_true_iff in H, H'.
      destruct H as [H1 H2], H' as [H1' H2'].
      rewrite (bo_etrans B1 a b c Pa Pb Pc H1 H1'), (bo_etrans B2 a b c Pa Pb Pc H2 H2'). reflexivity.
    - intros a b Pa Pb H. apply andb_true_iff in H. destruct H as [H1 H2].
      rewrite H1. simpl. apply (bo_irr B2 a b Pa Pb H2).
    - intros a b c Pa Pb Pc Hab Hbc.
      destruct (e1 a b) eqn:Eab; destruct (e1 b c) eqn:Ebc; simpl in Hab, Hbc.
      + rewrite (bo_etrans B1 a b c Pa Pb Pc Eab Ebc). simpl.
        apply (bo_trans B2 a b c Pa Pb Pc Hab Hbc).
      + pose proof (bo_el B1 a b c Pa Pb Pc Eab Hbc) as Hac.
        rewrite (bo_lt_neq _ _ B1 a c Pa Pc Hac). simpl. exact Hac.
      + pose proof (bo_le B1 a b c Pa Pb Pc Hab Ebc) as Hac.
        rewrite (bo_lt_neq _ _ B1 a c Pa Pc Hac). simpl. exact Hac.
      + pose proof (bo_trans B1 a b c Pa Pb Pc Hab Hbc) as Hac.
        rewrite (bo_lt_neq _ _ B1 a c Pa Pc Hac). simpl. exact Hac.
    - intros a b c Pa Pb Pc H Hbc. apply andb_true_iff in H. destruct H as [Eab Eab2].
      destruct (e1 b c) eqn:Ebc; simpl in Hbc.
      + rewrite (bo_etrans B1 a b c Pa Pb Pc Eab Ebc). simpl.
        apply (bo_el B2 a b c Pa Pb Pc Eab2 Hbc).
      + pose proof (bo_el B1 a b c Pa Pb Pc Eab Hbc) as Hac.
        rewrite (bo_lt_neq _ _ B1 a c Pa Pc Hac). simpl. exact Hac.
    - intros a b c Pa Pb Pc Hab H. apply andb_true_iff in H. destruct H as [Ebc Ebc2].
      destruct (e1 a b) eqn:Eab; simpl in Hab.
      + rewrite (bo_etrans B1 a b c Pa Pb Pc Eab Ebc). simpl.
        apply (bo_le B2 a b c Pa Pb Pc Hab Ebc2).
      + pose proof (bo_le B1 a b c Pa Pb Pc Hab Ebc) as Hac.
        rewrite (bo_lt_neq _ _ B1 a c Pa Pc Hac). simpl. exact Hac.
    - intros a b Pa Pb He Hl.
      destruct (e1 a b) eqn:Eab; simpl in He, Hl.
      + rewrite (bo_sym B1 a b Pa Pb Eab). simpl. apply (bo_tri B2 a b Pa Pb He Hl).
      + rewrite (bo_sym_false _ _ B1 a b Pa Pb Eab). simpl. apply (bo_tri B1 a b Pa Pb Eab Hl).
  Qed.

  (* the order read backwards (Go: b.x < a.x) *)
  Lemma bord_flip : forall eqb ltb, bord P eqb ltb -> bord P eqb (fun a b => ltb b a).
  Proof.
    intros eqb ltb B. constructor.
    - apply (bo_refl B).
    - apply (bo_sym B).
    - apply (bo_etrans B).
    - intros a b Pa Pb He. apply (bo_irr B b a Pb Pa). apply (bo_sym B a b Pa Pb He).
    - intros a b c Pa Pb Pc Hab Hbc. apply (bo_trans B c b a Pc Pb Pa Hbc Hab).
    - intros a b c Pa Pb Pc He Hl. apply (bo_le B c b a Pc Pb Pa Hl). apply (bo_sym B a b Pa Pb He).
    - intros a b c Pa Pb Pc Hl He. apply (bo_el B c b a Pc Pb Pa); [|exact Hl]. apply (bo_sym B b c Pb Pc He).
    - intros a b Pa Pb He Hl. apply (bo_tri B b a Pb Pa); [|exact Hl]. apply (bo_sym_false _ _ B a b Pa Pb He).
  Qed.

  (* a boolean order whose equivalence is equality is a strict total order *)
  Lemma bord_strict_total_on : forall eqb ltb, bord P eqb ltb ->
    (forall a b, P a -> P b -> eqb a b = true -> a = b) -> strict_total_on P ltb.
  Proof.
    intros eqb ltb B Heq. repeat split.
    - intros x Px. apply (bo_irr B x x Px Px). apply (bo_refl B x Px).
    - apply (bo_trans B).
    - intros x y Px Py Hxy Hyx. destruct (eqb x y) eqn:He.
      + apply Heq; assumption.
      + rewrite (bo_tri B x y Px Py He Hxy) in Hyx. discriminate.
  Qed.
End Lex.

(* order on a projection *)
Lemma bord_proj : forall A B (P : A -> Prop) (Q : B -> Prop) (f : A -> B) eqb ltb,
  (forall a, P a -> Q (f a)) -> bord Q eqb ltb ->
  bord P (fun a b => eqb (f a) (f b)) (fun a b => ltb (f a) (f b)).
Proof.
  intros A B P Q f eqb ltb HPQ Bq. constructor; intros.
  - apply (bo_refl Bq); auto.
  - apply (bo_sym Bq); auto.
  - eapply (bo_etrans Bq (f a) (f b) (f c)); auto.
  - apply (bo_irr Bq); auto.
  - eapply (bo_trans Bq (f a) (f b) (f c)); auto.
  - eapply (bo_el Bq (f a) (f b) (f c)); auto.
  - eapply (bo_le Bq (f a) (f b) (f c)); auto.
  - apply (bo_tri Bq); auto.
Qed.

Definition anyP {A} : A -> Prop := fun _ => True.

Lemma bord_Z : bord (@anyP Z) Z.eqb Z.ltb.
Proof.
  constructor; unfold anyP; intros;
    rewrite ?Z.eqb_eq, ?Z.ltb_lt, ?Z.eqb_neq, ?Z.ltb_ge in *; lia.
Qed.

(* ================================================================== *)
(* 2. Strings                                                          *)

Lemma str_eqb_eq : forall a b, str_eqb a b = true <-> a = b.
Proof.
  induction a as [|x a IH]; destruct b as [|y b]; simpl; split; intros H;
    try reflexivity; try discriminate.
  - apply andb_true_iff in H. destruct H as [H1 H2].
    apply N.eqb_eq in H1. apply IH in H2. subst. reflexivity.
  - injection H as -> ->. rewrite N.eqb_refl. simpl. apply IH. reflexivity.
Qed.

Lemma str_eqb_refl : forall a, str_eqb a a = true.
Proof. intros a. apply str_eqb_eq. reflexivity. Qed.

Lemma str_eqb_neq : forall a b, str_eqb a b = false <-> a <> b.
Proof.
  intros a b. split.
  - intros H E. apply str_eqb_eq in E. rewrite E in H. discriminate.
  - intros H. destruct (str_eqb a b) eqn:E; [|reflexivity]. apply str_eqb_eq in E. contradiction.
Qed.

Lemma str_ltb_irrefl : forall a, str_ltb a a = false.
Proof.
  induction a as [|x a IH]; simpl; [reflexivity|].
  rewrite N.ltb_irrefl, N.eqb_refl, IH. reflexivity.
Qed.

Lemma str_ltb_trans : forall a b c, str_ltb a b = true -> str_ltb b c = true -> str_ltb a c = true.
Proof.
  induction a as [|x a IH]; intros [|y b] [|z c]; simpl; intros H1 H2;
    try reflexivity; try discriminate.
  rewrite orb_true_iff, andb_true_iff, N.ltb_lt, N.eqb_eq in *.
  destruct H1 as [H1|[H1 H1']]; destruct H2 as [H2|[H2 H2']].
  - left; lia.
  - left; lia.
  - left; lia.
  - right; split; [lia|]. eapply IH; eassumption.
Qed.

Lemma str_ltb_trichotomy : forall a b, str_ltb a b = false -> str_ltb b a = false -> a = b.
Proof.
  induction a as [|x a IH]; intros [|y b]; simpl; intros H1 H2;
    try reflexivity; try discriminate.
  rewrite orb_false_iff, andb_false_iff, N.ltb_ge, N.eqb_neq in *.
  destruct H1 as [H1 H1']; destruct H2 as [H2 H2'].
  assert (x = y) by lia. subst y. f_equal.
  destruct H1' as [H1'|H1']; [congruence|].
  destruct H2' as [H2'|H2']; [congruence|].
  apply IH; assumption.
Qed.

Lemma str_ltb_asym : forall a b, str_ltb a b = true -> str_ltb b a = false.
Proof.
  intros a b H. destruct (str_ltb b a) eqn:H'; [|reflexivity].
  rewrite <- (str_ltb_irrefl a). symmetry. eapply str_ltb_trans; eassumption.
Qed.

(* exactly one of a < b, a = b, b < a *)
Lemma str_ltb_total : forall a b, str_ltb a b = true \/ str_eqb a b = true \/ str_ltb b a = true.
Proof.
  intros a b. destruct (str_ltb a b) eqn:H1; [left; reflexivity|].
  destruct (str_ltb b a) eqn:H2; [right; right; reflexivity|].
  right; left. apply str_eqb_eq. apply str_ltb_trichotomy; assumption.
Qed.

Theorem str_ltb_strict_total : strict_total str_ltb.
Proof.
  repeat split.
  - apply str_ltb_irrefl.
  - apply str_ltb_trans.
  - apply str_ltb_trichotomy.
Qed.

Lemma bord_str : bord (@anyP str) str_eqb str_ltb.
Proof.
  constructor; unfold anyP; intros.
  - apply str_eqb_refl.
  - apply str_eqb_eq. symmetry. apply str_eqb_eq. assumption.
  - apply str_eqb_eq. apply str_eqb_eq in H2, H3. congruence.
  - apply str_eqb_eq in H1. subst. apply str_ltb_irrefl.
  - eapply str_ltb_trans; eassumption.
  - apply str_eqb_eq in H2. subst. assumption.
  - apply str_eqb_eq in H3. subst. assumption.
  - destruct (str_ltb b a) eqn:H3; [reflexivity|].
    rewrite (str_ltb_trichotomy a b H2 H3), str_eqb_refl in H1. discriminate.
Qed.

(* ================================================================== *)
(* 3. Float comparisons                                                *)

(* SFcompare is, syntactically, the lexicographic order on the key
   (class, signed exponent, signed mantissa); no validity ([bounded]) of the
   operands is needed for it to be a total order -- only for it to agree with
   the order of the reals, which is irrelevant for determinism. *)
Definition fk1 (x : f64) : Z :=
  match x with
  | S754_nan => 3
  | S754_infinity true => -2
  | S754_infinity false => 2
  | S754_zero _ => 0
  | S754_finite true _ _ => -1
  | S754_finite false _ _ => 1
  end.
Definition fk2 (x : f64) : Z :=
  match x with
  | S754_finite true _ e => - e
  | S754_finite false _ e => e
  | _ => 0
  end.
Definition fk3 (x : f64) : Z :=
  match x with
  | S754_finite true m _ => - Zpos m
  | S754_finite false m _ => Zpos m
  | _ => 0
  end.

Definition klt (a b : f64) : Prop :=
  fk1 a < fk1 b \/ (fk1 a = fk1 b /\ (fk2 a < fk2 b \/ (fk2 a = fk2 b /\ fk3 a < fk3 b))).
Definition keq (a b : f64) : Prop := fk1 a = fk1 b /\ fk2 a = fk2 b /\ fk3 a = fk3 b.

Definition notnan (x : f64) : Prop := x <> S754_nan.

Lemma SFcompare_key : forall a b, notnan a -> notnan b ->
  exists c, SFcompare a b = Some c /\
            match c with Lt => klt a b | Eq => keq a b | Gt => klt b a end.
Proof.
  unfold notnan, klt, keq.
  intros [sa|sa| |sa ma ea] [sb|sb| |sb mb eb] Ha Hb; try congruence;
    try destruct sa; try destruct sb; cbn [SFcompare];
    try (eexists; split; [reflexivity|]; cbn [fk1 fk2 fk3]; lia).
  - (* both negative *)
    change (Pos.compare_cont Eq ma mb) with (Pos.compare ma mb).
    destruct (Z.compare_spec ea eb) as [He|He|He];
      [destruct (Pos.compare_spec ma mb) as [Hm|Hm|Hm]| |];
      (eexists; split; [reflexivity|]; cbn [fk1 fk2 fk3 CompOpp]; lia).
  - (* both positive *)
    change (Pos.compare_cont Eq ma mb) with (Pos.compare ma mb).
    destruct (Z.compare_spec ea eb) as [He|He|He];
      [destruct (Pos.compare_spec ma mb) as [Hm|Hm|Hm]| |];
      (eexists; split; [reflexivity|]; cbn [fk1 fk2 fk3]; lia).
Qed.

Lemma flt_klt : forall a b, notnan a -> notnan b -> (flt a b = true <-> klt a b).
Proof.
  intros a b Ha Hb. destruct (SFcompare_key a b Ha Hb) as (c & Hc & Hs).
  unfold flt, SFltb. rewrite Hc.
  destruct c; unfold klt, keq in *; split; intros H; try reflexivity; try discriminate; lia.
Qed.

Lemma feq_keq : forall a b, notnan a -> notnan b -> (feq a b = true <-> keq a b).
Proof.
  intros a b Ha Hb. destruct (SFcompare_key a b Ha Hb) as (c & Hc & Hs).
  unfold feq, SFeqb. rewrite Hc.
  destruct c; unfold klt, keq in *; split; intros H; try reflexivity; try discriminate; lia.
Qed.

Lemma iff_false : forall (b : bool) (Q : Prop), (b = true <-> Q) -> (b = false <-> ~ Q).
Proof.
  intros b Q [H1 H2]. destruct b; split; intros H; try discriminate; try reflexivity.
  - exfalso. apply H. apply H1. reflexivity.
  - intros q. apply H2 in q. discriminate.
Qed.

Lemma flt_klt_false : forall a b, notnan a -> notnan b -> (flt a b = false <-> ~ klt a b).
Proof. intros. apply iff_false, flt_klt; assumption. Qed.
Lemma feq_keq_false : forall a b, notnan a -> notnan b -> (feq a b = false <-> ~ keq a b).
Proof. intros. apply iff_false, feq_keq; assumption. Qed.

(* feq / flt form a total order on all non-NaN floats (+0 and -0 equivalent) *)
Lemma bord_float : bord notnan feq flt.
Proof.
  constructor; intros;
    repeat match goal with
    | H : feq ?x ?y = true |- _ => apply feq_keq in H; [|assumption|assumption]
    | H : flt ?x ?y = true |- _ => apply flt_klt in H; [|assumption|assumption]
    | H : feq ?x ?y = false |- _ => apply feq_keq_false in H; [|assumption|assumption]
    | H : flt ?x ?y = false |- _ => apply flt_klt_false in H; [|assumption|assumption]
    end;
    first [apply feq_keq | apply flt_klt | apply flt_klt_false]; try assumption;
    unfold klt, keq in *; lia.
Qed.

(* NaN really is the only obstacle: it is incomparable with everything *)
Example nan_incomparable : forall x, flt S754_nan x = false /\ flt x S754_nan = false /\ feq x S754_nan = false.
Proof. intros x; destruct x as [s|s| |s m e]; repeat split; reflexivity. Qed.

(* Confidences that can be ordered AND identified by comparisons:
   everything except NaN and -0 (feq (+0) (-0) = true). *)
Definition okconf (c : f64) : Prop :=
  match c with
  | S754_nan => False
  | S754_zero true => False
  | _ => True
  end.

Lemma okconf_notnan : forall c, okconf c -> notnan c.
Proof. intros c H E. subst c. exact H. Qed.

Lemma feq_eq : forall a b, okconf a -> okconf b -> feq a b = true -> a = b.
Proof.
  intros a b Ha Hb H.
  apply feq_keq in H; try (apply okconf_notnan; assumption).
  unfold keq in H.
  destruct a as [sa|sa| |sa ma ea]; destruct b as [sb|sb| |sb mb eb];
    try destruct sa; try destruct sb; cbn [fk1 fk2 fk3 okconf] in *;
    try contradiction; try reflexivity; try lia.
  - assert (ma = mb) by lia. assert (ea = eb) by lia. subst. reflexivity.
  - assert (ma = mb) by lia. assert (ea = eb) by lia. subst. reflexivity.
Qed.

Example feq_zeros : feq (S754_zero false) (S754_zero true) = true /\ S754_zero false <> S754_zero true.
Proof. split; [reflexivity|discriminate]. Qed.

Theorem flt_strict_total_on : strict_total_on okconf flt.
Proof.
  apply strict_total_on_weaken with (P := fun c => okconf c); [auto|].
  apply bord_strict_total_on with (eqb := feq).
  - (* bord on okconf from bord on notnan *)
    pose proof bord_float as B.
    constructor; intros;
      repeat match goal with H : okconf _ |- _ => apply okconf_notnan in H end.
    + apply (bo_refl B); assumption.
    + apply (bo_sym B); assumption.
    + eapply (bo_etrans B a b c); assumption.
    + apply (bo_irr B); assumption.
    + eapply (bo_trans B a b c); assumption.
    + eapply (bo_el B a b c); assumption.
    + eapply (bo_le B a b c); assumption.
    + apply (bo_tri B); assumption.
  - apply feq_eq.
Qed.

Lemma okconf_fone : okconf fone.
Proof. vm_compute. exact I. Qed.
Lemma okconf_fzero : okconf fzero.
Proof. exact I. Qed.
Example okconf_conf_10_3 : okconf (confidence 10 3).
Proof. vm_compute. exact I. Qed.
Example okconf_conf_7_7 : okconf (confidence 7 7).       (* 1 - 1 = +0 *)
Proof. vm_compute. exact I. Qed.
Example okconf_conf_0_5 : okconf (confidence 0 5).
Proof. vm_compute. exact I. Qed.
Example conf_7_7_is_pzero : confidence 7 7 = S754_zero false.
Proof. vm_compute. reflexivity. Qed.

(* ================================================================== *)
(* 4. [less true] is a strict total order                              *)

Definition okm (m : mtch) : Prop := okconf (m_conf m).

Definition ce_conf (a b : mtch) := feq (m_conf a) (m_conf b).
Definition cl_conf (a b : mtch) := flt (m_conf b) (m_conf a).
Definition ce_st (a b : mtch) := (m_st a =? m_st b).
Definition cl_st (a b : mtch) := (m_st a <? m_st b).
Definition ce_et (a b : mtch) := (m_et a =? m_et b).
Definition cl_et (a b : mtch) := (m_et b <? m_et a).
Definition ce_sl (a b : mtch) := (m_sl a =? m_sl b).
Definition cl_sl (a b : mtch) := (m_sl a <? m_sl b).
Definition ce_el (a b : mtch) := (m_el a =? m_el b).
Definition cl_el (a b : mtch) := (m_el a <? m_el b).
Definition ce_ty (a b : mtch) := str_eqb (m_type a) (m_type b).
Definition cl_ty (a b : mtch) := str_ltb (m_type a) (m_type b).
Definition ce_nm (a b : mtch) := str_eqb (m_name a) (m_name b).
Definition cl_nm (a b : mtch) := str_ltb (m_name a) (m_name b).
Definition ce_vr (a b : mtch) := str_eqb (m_variant a) (m_variant b).
Definition cl_vr (a b : mtch) := str_ltb (m_variant a) (m_variant b).

Definition less_chain : mtch -> mtch -> bool :=
  lex_lt ce_conf cl_conf (lex_lt ce_st cl_st (lex_lt ce_et cl_et (lex_lt ce_sl cl_sl
    (lex_lt ce_el cl_el (lex_lt ce_ty cl_ty (lex_lt ce_nm cl_nm cl_vr)))))).
Definition all_eq : mtch -> mtch -> bool :=
  lex_eq ce_conf (lex_eq ce_st (lex_eq ce_et (lex_eq ce_sl
    (lex_eq ce_el (lex_eq ce_ty (lex_eq ce_nm ce_vr)))))).

Lemma less_true_chain : forall a b, less true a b = less_chain a b.
Proof. reflexivity. Qed.

Lemma bord_okconf : bord okconf feq flt.
Proof.
  pose proof bord_float as B.
  constructor; intros;
    repeat match goal with H : okconf _ |- _ => apply okconf_notnan in H end.
  - apply (bo_refl B); assumption.
  - apply (bo_sym B); assumption.
  - eapply (bo_etrans B a b c); assumption.
  - apply (bo_irr B); assumption.
  - eapply (bo_trans B a b c); assumption.
  - eapply (bo_el B a b c); assumption.
  - eapply (bo_le B a b c); assumption.
  - apply (bo_tri B); assumption.
Qed.

Lemma bord_less_chain : bord okm all_eq less_chain.
Proof.
  unfold all_eq, less_chain.
  repeat apply bord_lex.
  - apply bord_flip. apply (@bord_proj mtch f64 okm okconf m_conf feq flt); [auto|apply bord_okconf].
  - apply (@bord_proj mtch Z okm anyP m_st Z.eqb Z.ltb); [exact (fun _ _ => I)|apply bord_Z].
  - apply bord_flip. apply (@bord_proj mtch Z okm anyP m_et Z.eqb Z.ltb); [exact (fun _ _ => I)|apply bord_Z].
  - apply (@bord_proj mtch Z okm anyP m_sl Z.eqb Z.ltb); [exact (fun _ _ => I)|apply bord_Z].
  - apply (@bord_proj mtch Z okm anyP m_el Z.eqb Z.ltb); [exact (fun _ _ => I)|apply bord_Z].
  - apply (@bord_proj mtch str okm anyP m_type str_eqb str_ltb); [exact (fun _ _ => I)|apply bord_str].
  - apply (@bord_proj mtch str okm anyP m_name str_eqb str_ltb); [exact (fun _ _ => I)|apply bord_str].
  - apply (@bord_proj mtch str okm anyP m_variant str_eqb str_ltb); [exact (fun _ _ => I)|apply bord_str].
Qed.

Lemma all_eq_eq : forall a b, okm a -> okm b -> all_eq a b = true -> a = b.
Proof.
  intros a b Pa Pb H. unfold all_eq, lex_eq in H.
  repeat (apply andb_true_iff in H; let H' := fresh "E" in destruct H as [H' H]).
  unfold ce_conf, ce_st, ce_et, ce_sl, ce_el, ce_ty, ce_nm, ce_vr in *.
  apply feq_eq in E; [|exact Pa|exact Pb].
  apply Z.eqb_eq in E0, E1, E2, E3.
  apply str_eqb_eq in E4, E5, H.
  destruct a, b; simpl in *; subst; reflexivity.
Qed.

Theorem less_true_strict_total : strict_total_on okm (less true).
Proof.
  pose proof (bord_strict_total_on _ _ _ bord_less_chain all_eq_eq) as (Hi & Ht & Hc).
  repeat split; intros; rewrite ?less_true_chain in *; eauto.
Qed.

(* spelled out *)
Corollary less_true_irrefl : forall x, okconf (m_conf x) -> less true x x = false.
Proof. destruct less_true_strict_total as (H & _ & _). exact H. Qed.
Corollary less_true_trans : forall x y z,
  okconf (m_conf x) -> okconf (m_conf y) -> okconf (m_conf z) ->
  less true x y = true -> less true y z = true -> less true x z = true.
Proof. destruct less_true_strict_total as (_ & H & _). exact H. Qed.
Corollary less_true_trichotomy : forall x y,
  okconf (m_conf x) -> okconf (m_conf y) ->
  less true x y = false -> less true y x = false -> x = y.
Proof. destruct less_true_strict_total as (_ & _ & H). exact H. Qed.

(* NaN confidences break it: a NaN record is incomparable with every record
   that has another confidence, so "incomparable" is no longer an equivalence
   (le_of is not transitive) and merge sort does not even return a sorted list *)
Example less_true_nan_breaks_order :
  let mk c st := {| m_name := []; m_type := []; m_variant := []; m_conf := c;
                    m_sl := 0; m_el := 0; m_st := st; m_et := 0 |} in
  let a := mk fone 0 in let n := mk S754_nan 1 in let b := mk fzero 2 in
  less true a n = false /\ less true n a = false /\
  less true n b = false /\ less true b n = false /\
  less true a b = true /\
  sort (less true) [b; n; a] = [b; n; a] /\ sort (less true) [a; n; b] = [a; n; b].
Proof. vm_compute. repeat split; reflexivity. Qed.

(* ================================================================== *)
(* 5. [less false] (the unrepaired Matches.Less) is not total          *)

Definition nd_a : mtch :=
  {| m_name := [65%N]; m_type := [76%N]; m_variant := [120%N]; m_conf := fone;
     m_sl := 1; m_el := 2; m_st := 0; m_et := 2 |}.
Definition nd_b : mtch :=
  {| m_name := [66%N]; m_type := [76%N]; m_variant := [120%N]; m_conf := fone;
     m_sl := 1; m_el := 2; m_st := 0; m_et := 2 |}.

Example less_false_not_total :
  less false nd_a nd_b = false /\ less false nd_b nd_a = false /\ nd_a <> nd_b.
Proof.
  split; [vm_compute; reflexivity|]. split; [vm_compute; reflexivity|].
  intros H. apply (f_equal m_name) in H. discriminate H.
Qed.

(* the repaired comparator does separate them *)
Example less_true_separates : less true nd_a nd_b = true /\ less true nd_b nd_a = false.
Proof. split; vm_compute; reflexivity. Qed.

(* consequence 1: the specification "a sorted permutation of the input" has
   two different solutions, so an unstable sort may return either *)
Example less_false_sort_not_determined :
  Permutation [nd_a; nd_b] [nd_a; nd_b] /\ StronglySorted (le_of (less false)) [nd_a; nd_b] /\
  Permutation [nd_b; nd_a] [nd_a; nd_b] /\ StronglySorted (le_of (less false)) [nd_b; nd_a] /\
  [nd_a; nd_b] <> [nd_b; nd_a].
Proof.
  assert (Hab : le_of (less false) nd_a nd_b) by (vm_compute; reflexivity).
  assert (Hba : le_of (less false) nd_b nd_a) by (vm_compute; reflexivity).
  repeat split.
  - apply Permutation_refl.
  - repeat constructor; assumption.
  - apply perm_swap.
  - repeat constructor; assumption.
  - intros H. apply (f_equal (@hd mtch nd_a)) in H. cbn [hd] in H.
    apply less_false_not_total. exact H.
Qed.

(* consequence 2: even a fixed (stable) algorithm returns different results
   for different arrival orders (= map iteration orders) *)
Example less_false_sort_order_dependent :
  Permutation [nd_a; nd_b] [nd_b; nd_a] /\
  sort (less false) [nd_a; nd_b] = [nd_a; nd_b] /\ sort (less false) [nd_b; nd_a] = [nd_b; nd_a] /\
  sort (less true) [nd_a; nd_b] = [nd_a; nd_b] /\ sort (less true) [nd_b; nd_a] = [nd_a; nd_b].
Proof. split; [apply perm_swap|]. vm_compute. repeat split; reflexivity. Qed.

(* consequence 3, end to end: a corpus with two documents of identical text
   ("L/A/x" and "L/B/x", tokens 1 2 3), target = the same text.  With the
   unrepaired comparator the list of matches follows the document order; with
   the repaired one it does not. *)
Definition w_set : sset := {| ss_len := 3; ss_q := 1; ss_sums := [11; 12; 13]%N |}.
Definition w_doc (key : str) : cdoc := {| cd_key := key; cd_ids := [1; 2; 3]%N; cd_set := w_set |}.
Definition w_A : cdoc := w_doc [76; 47; 65; 47; 120]%N.        (* "L/A/x" *)
Definition w_B : cdoc := w_doc [76; 47; 66; 47; 120]%N.        (* "L/B/x" *)
Definition w_cfg (total : bool) : config :=
  {| cf_thr := fdiv (of_Z 4) (of_Z 5);
     cf_word := fun i => [(96 + i)%N];
     cf_is_digit := fun _ => false;
     cf_total_less := total;
     cf_diff := fun k _ _ => if str_eqb k [63%N] then None else Some [(DEqual, [1; 2; 3]%N)] |}.
Definition w_run (total : bool) (docs : list cdoc) : res results :=
  match_tokens (w_cfg total) docs [1; 2; 3]%N [1; 1; 2] [] w_set.
Definition w_names (r : res results) : list str :=
  match r with Ok x => map m_name (r_matches x) | Err _ => [] end.

Example match_tokens_less_false_order_dependent :
  w_names (w_run false [w_A; w_B]) = [[65%N]; [66%N]] /\
  w_names (w_run false [w_B; w_A]) = [[66%N]; [65%N]] /\
  w_run false [w_A; w_B] <> w_run false [w_B; w_A].
Proof.
  split; [vm_compute; reflexivity|]. split; [vm_compute; reflexivity|].
  intros H. apply (f_equal w_names) in H. vm_compute in H. discriminate H.
Qed.

Example match_tokens_less_true_order_independent_witness :
  w_run true [w_A; w_B] = w_run true [w_B; w_A] /\
  w_names (w_run true [w_A; w_B]) = [[65%N]; [66%N]].
Proof. split; vm_compute; reflexivity. Qed.

(* ================================================================== *)
(* 6. [range_lt] (matchRanges.Less): strict order, total up to its key *)

Lemma range_lt_spec : forall a b,
  range_lt a b = true <->
  (claimed b < claimed a \/
   (claimed a = claimed b /\
    (tgt_start a < tgt_start b \/ (tgt_start a = tgt_start b /\ src_start a < src_start b))))%N.
Proof.
  intros a b. unfold range_lt.
  destruct (N.eqb_spec (claimed a) (claimed b)) as [Hc|Hc]; simpl.
  - destruct (N.eqb_spec (tgt_start a) (tgt_start b)) as [Ht|Ht]; simpl; rewrite N.ltb_lt; lia.
  - rewrite N.ltb_lt; lia.
Qed.

Lemma range_lt_spec_false : forall a b,
  range_lt a b = false <->
  ~ (claimed b < claimed a \/
     (claimed a = claimed b /\
      (tgt_start a < tgt_start b \/ (tgt_start a = tgt_start b /\ src_start a < src_start b))))%N.
Proof. intros a b. apply iff_false, range_lt_spec. Qed.

Theorem range_lt_irrefl : forall a, range_lt a a = false.
Proof. intros a. apply range_lt_spec_false. lia. Qed.

Theorem range_lt_trans : forall a b c,
  range_lt a b = true -> range_lt b c = true -> range_lt a c = true.
Proof. intros a b c H1 H2. rewrite range_lt_spec in *. lia. Qed.

Theorem range_lt_asym : forall a b, range_lt b a = true -> range_lt a b = false.
Proof. intros a b H. rewrite range_lt_spec in H. rewrite range_lt_spec_false. lia. Qed.

Theorem range_lt_trichotomy_key : forall a b,
  range_lt a b = false -> range_lt b a = false ->
  claimed a = claimed b /\ tgt_start a = tgt_start b /\ src_start a = src_start b.
Proof. intros a b H1 H2. rewrite range_lt_spec_false in *. lia. Qed.

Theorem range_le_trans : forall x y z,
  range_lt y x = false -> range_lt z y = false -> range_lt z x = false.
Proof. intros x y z H1 H2. rewrite range_lt_spec_false in *. lia. Qed.

(* hence the two sorts of SSet.v do sort *)
Corollary range_sort_sorted : forall l, StronglySorted (le_of range_lt) (sort range_lt l).
Proof. intros l. apply sort_sorted; [apply range_lt_asym|apply range_le_trans]. Qed.

(* [range_lt] does not look at src_end/tgt_end: it is NOT a strict total order
   on ranges, only on their keys *)
Example range_lt_not_total :
  let a := {| src_start := 0; src_end := 1; tgt_start := 0; tgt_end := 1; claimed := 1 |}%N in
  let b := {| src_start := 0; src_end := 2; tgt_start := 0; tgt_end := 1; claimed := 1 |}%N in
  range_lt a b = false /\ range_lt b a = false /\ a <> b.
Proof. repeat split; try reflexivity. intros H. discriminate H. Qed.

(* ================================================================== *)
(* 7. Candidate construction is invariant under permutation of the corpus *)

Lemma perm_filter : forall A (f : A -> bool) l l',
  Permutation l l' -> Permutation (filter f l) (filter f l').
Proof.
  intros A f l l' Hp. induction Hp as [|x l l' Hp IH|x y l|l l' l'' H1 IH1 H2 IH2]; simpl.
  - constructor.
  - destruct (f x); [apply perm_skip|]; exact IH.
  - destruct (f x); destruct (f y); try apply Permutation_refl. apply perm_swap.
  - eapply Permutation_trans; eassumption.
Qed.

Section AllCandidates.
  Variables (C : config) (tl : list Z) (ts : sset).

  Let ac := all_candidates C tl ts.

  Lemma all_candidates_perm_aux : forall docs docs', Permutation docs docs' ->
    (forall cs, ac docs = Ok cs -> exists cs', ac docs' = Ok cs' /\ Permutation cs cs') /\
    (forall e, ac docs = Err e -> exists e', ac docs' = Err e').
  Proof.
    unfold ac. intros docs docs' Hp.
    induction Hp as [|d l l' Hp [IHo IHe]|d1 d2 l|l l' l'' H1 [IH1o IH1e] H2 [IH2o IH2e]].
    - split; intros; eauto using Permutation_refl.
    - cbn [all_candidates].
      destruct (candidates_of C tl ts d _) as [a|e0].
      + split.
        * intros cs H. destruct (all_candidates C tl ts l) as [b|e1]; [|discriminate].
          injection H as <-. destruct (IHo b eq_refl) as (b' & Hb' & Hpb).
          rewrite Hb'. eexists; split; [reflexivity|]. apply Permutation_app_head. exact Hpb.
        * intros e H. destruct (all_candidates C tl ts l) as [b|e1]; [discriminate|].
          destruct (IHe e1 eq_refl) as (e' & He'). rewrite He'. eauto.
      + split; [discriminate|]. intros e _. eauto.
    - cbn [all_candidates].
      destruct (candidates_of C tl ts d1 _) as [a1|e1];
        destruct (candidates_of C tl ts d2 _) as [a2|e2];
        destruct (all_candidates C tl ts l) as [b|e3];
        (split; [intros cs H; try discriminate | intros e H; try discriminate; eauto]).
      injection H as <-. eexists; split; [reflexivity|].
      rewrite !app_assoc. apply Permutation_app_tail. apply Permutation_app_comm.
    - split.
      + intros cs H. destruct (IH1o cs H) as (cs' & H' & Hp').
        destruct (IH2o cs' H') as (cs'' & H'' & Hp''). exists cs''; split; [exact H''|].
        eapply Permutation_trans; eassumption.
      + intros e H. destruct (IH1e e H) as (e' & H'). apply (IH2e e' H').
  Qed.

  Theorem all_candidates_perm_ok : forall docs docs', Permutation docs docs' ->
    forall cs, all_candidates C tl ts docs = Ok cs ->
    exists cs', all_candidates C tl ts docs' = Ok cs' /\ Permutation cs cs'.
  Proof. intros docs docs' Hp. apply (all_candidates_perm_aux docs docs' Hp). Qed.

  Theorem all_candidates_perm_err : forall docs docs', Permutation docs docs' ->
    ((exists e, all_candidates C tl ts docs = Err e) <-> (exists e, all_candidates C tl ts docs' = Err e)).
  Proof.
    intros docs docs' Hp. split; intros (e & H).
    - apply (proj2 (all_candidates_perm_aux docs docs' Hp) e H).
    - apply (proj2 (all_candidates_perm_aux docs' docs (Permutation_sym Hp)) e H).
  Qed.

  (* an error is an error of some document, whatever the order *)
  Theorem all_candidates_err_iff : forall docs,
    (exists e, all_candidates C tl ts docs = Err e) <->
    (exists d e, In d docs /\
       candidates_of C tl ts d (find_potential_matches d.(cd_set) ts C.(cf_thr)) = Err e).
  Proof.
    induction docs as [|d l IH]; cbn [all_candidates].
    - split; [intros (e & H); discriminate|intros (d & e & [] & _)].
    - destruct (candidates_of C tl ts d _) as [a|e0] eqn:Hd.
      + destruct (all_candidates C tl ts l) as [b|e1] eqn:Hl.
        * split; [intros (e & H); discriminate|].
          intros (d' & e & [<-|Hin] & H); [rewrite Hd in H; discriminate|].
          destruct (proj2 IH) as (e' & He'); [eauto|discriminate].
        * split; [|eauto]. intros _.
          destruct (proj1 IH) as (d' & e' & Hin & H'); [eauto|].
          exists d', e'; split; [right; exact Hin|exact H'].
      + split; [|eauto]. intros _. exists d, e0; split; [left; reflexivity|exact Hd].
  Qed.

  (* all confidences of the candidates come from [score] *)
  Lemma candidates_of_okm : forall d,
    (forall s e conf so eo, score C d s e = Ok (conf, so, eo) -> okconf conf) ->
    forall ms l, candidates_of C tl ts d ms = Ok l -> Forall okm l.
  Proof.
    intros d Hconf. induction ms as [|m rest IH]; intros l H; cbn [candidates_of] in H.
    - injection H as <-. constructor.
    - destruct (score C d (tgt_start m) (tgt_end m)) as [[[conf so] eo]|e0] eqn:Hs; [|discriminate].
      destruct (candidates_of C tl ts d rest) as [tl0|e1]; [|discriminate].
      specialize (IH tl0 eq_refl).
      repeat match type of H with
             | context [match ?x with _ => _ end] => destruct x
             end; try discriminate; injection H as <-; try exact IH.
      constructor; [|exact IH]. unfold okm; simpl. eapply Hconf; eassumption.
  Qed.

  Lemma all_candidates_okm : forall docs,
    (forall d s e conf so eo, In d docs -> score C d s e = Ok (conf, so, eo) -> okconf conf) ->
    forall cs, all_candidates C tl ts docs = Ok cs -> Forall okm cs.
  Proof.
    induction docs as [|d l IH]; intros Hconf cs H; cbn [all_candidates] in H.
    - injection H as <-. constructor.
    - destruct (candidates_of C tl ts d _) as [a|e0] eqn:Hd; [|discriminate].
      destruct (all_candidates C tl ts l) as [b|e1]; [|discriminate].
      injection H as <-. apply Forall_app; split.
      + eapply candidates_of_okm; [|exact Hd]. intros; eapply Hconf; [left; reflexivity|eassumption].
      + apply IH; [|reflexivity]. intros; eapply Hconf; [right; eassumption|eassumption].
  Qed.
End AllCandidates.

(* the error SITE does depend on the order: which panic fires first *)
Example all_candidates_err_site_order_dependent :
  let d1 := w_doc [76%N] in          (* key without '/': LicenseName panics (site 1) *)
  let d2 := w_doc [63%N] in          (* no diff-oracle entry (site 90) *)
  all_candidates (w_cfg true) [1; 1; 2] w_set [d1; d2] = Err 1 /\
  all_candidates (w_cfg true) [1; 1; 2] w_set [d2; d1] = Err 90.
Proof. split; vm_compute; reflexivity. Qed.

(* ================================================================== *)
(* 8. The main theorem                                                 *)

(* equal results, or both a panic (the site may differ, see above) *)
Definition res_agree {A} (r1 r2 : res A) : Prop :=
  match r1, r2 with
  | Ok a, Ok b => a = b
  | Err _, Err _ => True
  | _, _ => False
  end.

Definition conf_ok_on (C : config) (docs : list cdoc) : Prop :=
  forall d s e conf so eo, In d docs -> score C d s e = Ok (conf, so, eo) -> okconf conf.

Theorem match_tokens_order_independent_gen : forall C docs docs' ids lines pseudo tset,
  cf_total_less C = true ->
  Permutation docs docs' ->
  conf_ok_on C docs ->
  res_agree (match_tokens C docs ids lines pseudo tset) (match_tokens C docs' ids lines pseudo tset).
Proof.
  intros C docs docs' ids lines pseudo tset Htot Hp Hconf.
  unfold match_tokens. rewrite Htot.
  set (f := fun d : cdoc => fle (cf_thr C) (token_similarity (count_ids ids (PositiveMap.empty N)) (cd_ids d))).
  set (pm := map (fun l : Z => {| m_name := COPYRIGHT; m_type := COPYRIGHT; m_variant := [];
                                  m_conf := fone; m_sl := l; m_el := l; m_st := 0; m_et := 0 |}) pseudo).
  pose proof (perm_filter _ f _ _ Hp) as Hpf.
  assert (Hconf_f : conf_ok_on C (filter f docs)).
  { intros d s e conf so eo Hin. apply Hconf. apply filter_In in Hin. apply Hin. }
  destruct (filter f docs) as [|d0 fp] eqn:E1.
  - apply Permutation_nil in Hpf. rewrite Hpf. simpl. reflexivity.
  - destruct (filter f docs') as [|d0' fp'] eqn:E2.
    { apply Permutation_sym, Permutation_nil in Hpf. discriminate. }
    destruct (all_candidates C lines tset (d0 :: fp)) as [cs|e] eqn:Ea.
    + destruct (all_candidates_perm_ok C lines tset _ _ Hpf cs Ea) as (cs' & Ea' & Hpc).
      rewrite Ea'. simpl. f_equal. f_equal.
      apply sort_perm_invariant_on with (P := okm).
      * apply less_true_strict_total.
      * apply Forall_app; split.
        -- subst pm. rewrite Forall_forall. intros m Hm. apply in_map_iff in Hm.
           destruct Hm as (l & <- & _). unfold okm; simpl. apply okconf_fone.
        -- eapply all_candidates_okm; [exact Hconf_f|exact Ea].
      * apply Permutation_app_head. exact Hpc.
    + destruct (proj1 (all_candidates_perm_err C lines tset _ _ Hpf)) as (e' & Ea'); [eauto|].
      rewrite Ea'. simpl. exact I.
Qed.

Corollary match_tokens_order_independent_ok_gen : forall C docs docs' ids lines pseudo tset r,
  cf_total_less C = true -> Permutation docs docs' -> conf_ok_on C docs ->
  match_tokens C docs ids lines pseudo tset = Ok r ->
  match_tokens C docs' ids lines pseudo tset = Ok r.
Proof.
  intros C docs docs' ids lines pseudo tset r Htot Hp Hconf H.
  pose proof (match_tokens_order_independent_gen C docs docs' ids lines pseudo tset Htot Hp Hconf) as Ha.
  rewrite H in Ha. destruct (match_tokens C docs' ids lines pseudo tset); simpl in Ha.
  - subst; reflexivity.
  - contradiction.
Qed.

(* ================================================================== *)
(* 9. The confidences computed by [score] are never NaN and never -0   *)
(*    (structural reasoning on the SpecFloat definitions; no claim     *)
(*    about the VALUE of the result is needed)                         *)

Lemma fexp_unfold : forall e, fexp prec emax e = Z.max (e - 53) (-1074).
Proof. reflexivity. Qed.

Lemma iter_pos_inv : forall (A : Type) (I : A -> Prop) (f : A -> A),
  (forall x, I x -> I (f x)) -> forall n x, I x -> I (iter_pos f n x).
Proof. intros A I f Hf. induction n; intros x Hx; simpl; auto. Qed.

(* one right shift: the mantissa stays >= 0 and loses exactly one binary digit *)
Lemma shr_1_dig : forall mrs, 0 <= shr_m mrs ->
  0 <= shr_m (shr_1 mrs) /\ Zdigits2 (shr_m (shr_1 mrs)) = Z.max 0 (Zdigits2 (shr_m mrs) - 1).
Proof.
  intros [m r s] Hm. cbn [shr_m] in Hm. destruct m as [|p|p]; [| |lia].
  - cbn. lia.
  - destruct p as [p|p|]; cbn [shr_1 shr_m Zdigits2 digits2_pos];
      rewrite ?Pos2Z.inj_succ; lia.
Qed.

Lemma iter_shr_1_dig : forall n mrs, 0 <= shr_m mrs ->
  0 <= shr_m (iter_pos shr_1 n mrs) /\
  Zdigits2 (shr_m (iter_pos shr_1 n mrs)) = Z.max 0 (Zdigits2 (shr_m mrs) - Zpos n).
Proof.
  induction n as [n IH|n IH|]; intros mrs Hm; cbn [iter_pos].
  - destruct (shr_1_dig mrs Hm) as [H1 D1].
    destruct (IH _ H1) as [H2 D2]. destruct (IH _ H2) as [H3 D3].
    split; [exact H3|]. rewrite D3, D2, D1, Pos2Z.inj_xI. lia.
  - destruct (IH _ Hm) as [H2 D2]. destruct (IH _ H2) as [H3 D3].
    split; [exact H3|]. rewrite D3, D2, Pos2Z.inj_xO. lia.
  - apply shr_1_dig. exact Hm.
Qed.

Lemma Zdigits2_pos : forall z, 0 <= z -> (0 < Zdigits2 z <-> 0 < z).
Proof. intros [|p|p] Hz; cbn; lia. Qed.

Lemma shr_record_of_loc_m : forall m l, shr_m (shr_record_of_loc m l) = m.
Proof. intros m [|[]]; reflexivity. Qed.

Lemma shr_fexp_id : forall m e l,
  fexp prec emax (Zdigits2 m + e) <= e -> shr_fexp prec emax m e l = (shr_record_of_loc m l, e).
Proof.
  intros m e l H. unfold shr_fexp, shr.
  destruct (fexp prec emax (Zdigits2 m + e) - e) as [|p|p] eqn:En; try reflexivity. lia.
Qed.

Lemma shr_fexp_spec : forall m e l, 0 <= m ->
  0 <= shr_m (fst (shr_fexp prec emax m e l)) /\
  -1074 <= snd (shr_fexp prec emax m e l) /\
  (-1074 <= e -> 0 < m -> 0 < shr_m (fst (shr_fexp prec emax m e l))).
Proof.
  intros m e l Hm. unfold shr_fexp, shr.
  pose proof (fexp_unfold (Zdigits2 m + e)) as Hf.
  destruct (fexp prec emax (Zdigits2 m + e) - e) as [|p|p] eqn:En; cbn [fst snd].
  - rewrite shr_record_of_loc_m. repeat split; try lia.
  - assert (Hm' : 0 <= shr_m (shr_record_of_loc m l)) by (rewrite shr_record_of_loc_m; exact Hm).
    destruct (iter_shr_1_dig p _ Hm') as [H1 D1]. rewrite shr_record_of_loc_m in D1.
    repeat split; try lia.
    intros He Hpos. apply Zdigits2_pos; [exact H1|]. rewrite D1.
    apply Zdigits2_pos in Hpos; [|exact Hm]. lia.
  - rewrite shr_record_of_loc_m. repeat split; try lia.
Qed.

Lemma rne_ge : forall m l, m <= round_nearest_even m l.
Proof. intros m [|[]]; cbn; try destruct (Z.even m); lia. Qed.

(* sign [s]; not NaN; finite results have an exponent >= emin *)
Definition fclass (s : bool) (x : f64) : Prop :=
  match x with
  | S754_zero s' => s' = s
  | S754_infinity s' => s' = s
  | S754_finite s' _ e => s' = s /\ -1074 <= e
  | S754_nan => False
  end.
Definition nonzero (x : f64) : Prop := match x with S754_zero _ => False | _ => True end.

Lemma bra_class : forall s m e l, 0 <= m ->
  fclass s (binary_round_aux prec emax s m e l) /\
  (0 < m -> -1074 <= e -> nonzero (binary_round_aux prec emax s m e l)).
Proof.
  intros s m e l Hm. unfold binary_round_aux.
  pose proof (shr_fexp_spec m e l Hm) as (A1 & A2 & A3).
  destruct (shr_fexp prec emax m e l) as [mrs' e'] eqn:E1. cbn [fst snd] in A1, A2, A3.
  set (m1 := round_nearest_even (shr_m mrs') (loc_of_shr_record mrs')).
  assert (Hm1 : shr_m mrs' <= m1) by apply rne_ge.
  assert (Hm1' : 0 <= m1) by lia.
  pose proof (shr_fexp_spec m1 e' loc_Exact Hm1') as (B1 & B2 & B3).
  destruct (shr_fexp prec emax m1 e' loc_Exact) as [mrs'' e''] eqn:E2. cbn [fst snd] in B1, B2, B3.
  destruct (shr_m mrs'') as [|p|p] eqn:Em.
  - split; [reflexivity|]. intros Hpos He. specialize (A3 He Hpos).
    assert (0 < m1) by lia. specialize (B3 A2 H). lia.
  - destruct (Zle_bool e'' (emax - prec)); cbn; auto.
  - lia.
Qed.

Lemma br_class : forall s m e,
  fclass s (binary_round prec emax s m e) /\
  (-1074 <= e -> nonzero (binary_round prec emax s m e)).
Proof.
  intros s m e. unfold binary_round, shl_align.
  pose proof (fexp_unfold (Zpos (digits2_pos m) + e)) as Hf.
  destruct (fexp prec emax (Zpos (digits2_pos m) + e) - e) as [|d|d] eqn:Ed.
  - destruct (bra_class s (Zpos m) e loc_Exact) as [H1 H2]; [lia|].
    split; [exact H1|]. intros He. apply H2; lia.
  - destruct (bra_class s (Zpos m) e loc_Exact) as [H1 H2]; [lia|].
    split; [exact H1|]. intros He. apply H2; lia.
  - destruct (bra_class s (Zpos (shift_pos d m)) (fexp prec emax (Zpos (digits2_pos m) + e)) loc_Exact)
      as [H1 H2]; [lia|].
    split; [exact H1|]. intros He. apply H2; lia.
Qed.

Lemma of_Z_class : forall z, 0 <= z -> fclass false (of_Z z).
Proof.
  intros [|p|p] Hz; [reflexivity| |lia]. unfold of_Z, binary_normalize. apply br_class.
Qed.

(* integers below 2^53 are represented exactly, in particular by a finite float *)
Lemma digits2_shift : forall d m, digits2_pos (shift_pos d m) = (digits2_pos m + d)%positive.
Proof.
  intros d m. unfold shift_pos. induction d as [|d IH] using Pos.peano_ind.
  - cbn. rewrite Pos.add_1_r. reflexivity.
  - rewrite Pos.iter_succ. cbn [digits2_pos]. rewrite IH, Pos.add_succ_r. reflexivity.
Qed.

Lemma digits2_lower : forall p, 2 ^ (Zpos (digits2_pos p) - 1) <= Zpos p.
Proof.
  induction p as [p IH|p IH|]; cbn [digits2_pos].
  - replace (Zpos (Pos.succ (digits2_pos p)) - 1) with (Z.succ (Zpos (digits2_pos p) - 1)) by lia.
    rewrite Z.pow_succ_r by lia. rewrite (Pos2Z.inj_xI p).
    set (t := 2 ^ (Zpos (digits2_pos p) - 1)) in *. lia.
  - replace (Zpos (Pos.succ (digits2_pos p)) - 1) with (Z.succ (Zpos (digits2_pos p) - 1)) by lia.
    rewrite Z.pow_succ_r by lia. rewrite (Pos2Z.inj_xO p).
    set (t := 2 ^ (Zpos (digits2_pos p) - 1)) in *. lia.
  - cbn. lia.
Qed.

Lemma bra_exact : forall s mz ez,
  fexp prec emax (Zpos (digits2_pos mz) + ez) <= ez -> ez <= 971 ->
  binary_round_aux prec emax s (Zpos mz) ez loc_Exact = S754_finite s mz ez.
Proof.
  intros s mz ez Hf He. unfold binary_round_aux.
  rewrite shr_fexp_id by exact Hf.
  cbn [shr_record_of_loc shr_m loc_of_shr_record round_nearest_even].
  rewrite shr_fexp_id by exact Hf.
  cbn [shr_record_of_loc shr_m].
  replace (Zle_bool ez (emax - prec)) with true; [reflexivity|].
  symmetry. apply Z.leb_le. change (emax - prec) with 971. exact He.
Qed.

Lemma of_Z_finite : forall z, 0 < z < 2 ^ 53 -> exists m e, of_Z z = S754_finite false m e.
Proof.
  intros [|p|p] [Hz1 Hz2]; try lia.
  assert (Hd : Zpos (digits2_pos p) <= 53).
  { destruct (Z_le_gt_dec (Zpos (digits2_pos p)) 53) as [H|H]; [exact H|exfalso].
    pose proof (digits2_lower p) as Hl.
    assert (2 ^ 53 <= 2 ^ (Zpos (digits2_pos p) - 1)) by (apply Z.pow_le_mono_r; lia). lia. }
  unfold of_Z, binary_normalize, binary_round, shl_align.
  pose proof (fexp_unfold (Zpos (digits2_pos p) + 0)) as Hf.
  destruct (fexp prec emax (Zpos (digits2_pos p) + 0) - 0) as [|d|d] eqn:Ed.
  - eexists _, _. apply bra_exact; lia.
  - lia.
  - eexists _, _. apply bra_exact.
    + rewrite digits2_shift, fexp_unfold. lia.
    + lia.
Qed.

Lemma fdiv_class : forall x y,
  fclass false x -> (exists m e, y = S754_finite false m e) ->
  fclass false (fdiv x y).
Proof.
  intros x y Hx (my & ey & ->). unfold fdiv.
  destruct x as [sx|sx| |sx mx ex]; cbn [fclass] in Hx.
  - subst sx. reflexivity.
  - subst sx. reflexivity.
  - contradiction.
  - destruct Hx as [-> Hex]. cbn [SFdiv].
    destruct (SFdiv_core_binary prec emax (Zpos mx) ex (Zpos my) ey) as [[mz ez] lz] eqn:Ec.
    cbn [xorb]. apply bra_class.
    unfold SFdiv_core_binary in Ec.
    set (m' := match ex - ey - Z.min (fexp prec emax (Zdigits2 (Zpos mx) + ex - (Zdigits2 (Zpos my) + ey))) (ex - ey) with
               | 0 => Zpos mx
               | Zpos _ => Z.shiftl (Zpos mx) (ex - ey - Z.min (fexp prec emax (Zdigits2 (Zpos mx) + ex - (Zdigits2 (Zpos my) + ey))) (ex - ey))
               | Zneg _ => 0
               end) in Ec.
    assert (Hm' : 0 <= m').
    { subst m'. destruct (ex - ey - Z.min _ _); try lia. apply Z.shiftl_nonneg. lia. }
    pose proof (Z_div_mod m' (Zpos my) eq_refl) as Hdm.
    destruct (Z.div_eucl m' (Zpos my)) as [q r]. injection Ec as <- _ _.
    destruct Hdm as [Hq Hr]. nia.
Qed.

Lemma fsub_fone_okconf : forall q, fclass false q -> okconf (fsub fone q).
Proof.
  intros q Hq. unfold fsub.
  change fone with (S754_finite false 4503599627370496 (-52)).
  destruct q as [sq|sq| |sq mq eq]; cbn [fclass] in Hq.
  - exact I.
  - subst sq. exact I.
  - contradiction.
  - destruct Hq as [-> Heq]. cbn [SFsub].
    set (ez := Z.min (-52) eq).
    assert (Hez : -1074 <= ez) by (subst ez; lia).
    set (dlt := cond_Zopp false (Zpos (fst (shl_align 4503599627370496 (-52) ez))) -
                cond_Zopp false (Zpos (fst (shl_align mq eq ez)))).
    unfold binary_normalize.
    destruct dlt as [|p|p].
    + exact I.
    + destruct (br_class false p ez) as [H _].
      destruct (binary_round prec emax false p ez) as [s|s| |s m e]; cbn [fclass] in H; cbn [okconf].
      * subst s; exact I.
      * exact I.
      * contradiction.
      * exact I.
    + destruct (br_class true p ez) as [H H'].
      specialize (H' Hez).
      destruct (binary_round prec emax true p ez) as [s|s| |s m e]; cbn [fclass nonzero] in H, H'; cbn [okconf].
      * contradiction.
      * exact I.
      * contradiction.
      * exact I.
Qed.

Theorem confidence_okconf : forall klen d,
  0 <= klen < 2 ^ 53 -> 0 <= d -> okconf (confidence klen d).
Proof.
  intros klen d Hk Hd. unfold confidence.
  destruct (Z.eqb_spec klen 0) as [->|Hne]; [apply okconf_fone|].
  apply fsub_fone_okconf. apply fdiv_class.
  - apply of_Z_class. exact Hd.
  - apply of_Z_finite. lia.
Qed.

(* every confidence returned by [score] is ok for documents of fewer than 2^53 tokens *)
Theorem score_okconf : forall C d s e conf so eo,
  Z.of_nat (length (cd_ids d)) < 2 ^ 53 ->
  score C d s e = Ok (conf, so, eo) -> okconf conf.
Proof.
  intros C d s e conf so eo Hlen H. unfold score in H.
  destruct (cf_diff C (cd_key d) s e) as [raw|]; [|discriminate].
  destruct (key_part (cd_key d) 1) as [lname|]; [|discriminate].
  destruct (diff_range _ _) as [st en].
  destruct (Z.ltb_spec (score_diffs (cf_is_digit C) lname
              (firstn (en - st) (skipn st (map (hydrate (cf_word C)) raw)))) 0) as [Hneg|Hpos].
  - injection H as <- _ _. apply okconf_fzero.
  - injection H as <- _ _. apply confidence_okconf; lia.
Qed.

Definition small_docs (docs : list cdoc) : Prop :=
  forall d, In d docs -> Z.of_nat (length (cd_ids d)) < 2 ^ 53.

Lemma small_docs_conf_ok : forall C docs, small_docs docs -> conf_ok_on C docs.
Proof. intros C docs Hs d s e conf so eo Hin H. eapply score_okconf; [apply Hs; exact Hin|exact H]. Qed.

(* ------------------------------------------------------------------ *)
(* C04, final form: for the repaired comparator the result of match does not
   depend on the order of the corpus (nor, by [sort_characterised_on], on
   the sorting algorithm). The only hypothesis besides [cf_total_less] is that
   no corpus document has 2^53 or more tokens. *)
Theorem match_tokens_order_independent : forall C docs docs' ids lines pseudo tset,
  cf_total_less C = true ->
  Permutation docs docs' ->
  small_docs docs ->
  res_agree (match_tokens C docs ids lines pseudo tset) (match_tokens C docs' ids lines pseudo tset).
Proof.
  intros C docs docs' ids lines pseudo tset Htot Hp Hs.
  apply match_tokens_order_independent_gen; [exact Htot|exact Hp|apply small_docs_conf_ok; exact Hs].
Qed.

Corollary match_tokens_order_independent_ok : forall C docs docs' ids lines pseudo tset r,
  cf_total_less C = true -> Permutation docs docs' -> small_docs docs ->
  match_tokens C docs ids lines pseudo tset = Ok r ->
  match_tokens C docs' ids lines pseudo tset = Ok r.
Proof.
  intros C docs docs' ids lines pseudo tset r Htot Hp Hs.
  apply match_tokens_order_independent_ok_gen; [exact Htot|exact Hp|apply small_docs_conf_ok; exact Hs].
Qed.

(* the error case: a panic happens for one order iff it happens for every order *)
Corollary match_tokens_err_order_independent : forall C docs docs' ids lines pseudo tset,
  cf_total_less C = true -> Permutation docs docs' -> small_docs docs ->
  ((exists e, match_tokens C docs ids lines pseudo tset = Err e) <->
   (exists e, match_tokens C docs' ids lines pseudo tset = Err e)).
Proof.
  intros C docs docs' ids lines pseudo tset Htot Hp Hs.
  pose proof (match_tokens_order_independent C docs docs' ids lines pseudo tset Htot Hp Hs) as Ha.
  destruct (match_tokens C docs ids lines pseudo tset) as [r|e];
    destruct (match_tokens C docs' ids lines pseudo tset) as [r'|e']; simpl in Ha; try contradiction.
  - split; intros (x & H); discriminate.
  - split; intros _; eauto.
Qed.

(* ... but WHICH panic is reported still depends on the order, also end to end;
   this is why the theorem is stated with [res_agree] and not with [=] *)
Example match_tokens_err_site_order_dependent :
  w_run true [w_doc [76%N]; w_doc [63%N]] = Err 1 /\
  w_run true [w_doc [63%N]; w_doc [76%N]] = Err 90.
Proof. split; vm_compute; reflexivity. Qed.

(* The sorting step alone: whatever correct sorting algorithm is used on
   whatever arrival order, the sorted candidate list is [sort (less true) cs]. *)
Corollary candidates_sort_unique : forall cs cs' r,
  Forall okm cs -> Permutation cs cs' ->
  Permutation r cs' -> StronglySorted (le_of (less true)) r ->
  r = sort (less true) cs.
Proof.
  intros cs cs' r Hok Hp Hr Hs.
  apply (sort_characterised_on (P := okm) (l' := cs')); try assumption.
  apply less_true_strict_total.
Qed.

Print Assumptions str_ltb_strict_total.
Print Assumptions flt_strict_total_on.
Print Assumptions less_true_strict_total.
Print Assumptions less_false_not_total.
Print Assumptions less_false_sort_not_determined.
Print Assumptions match_tokens_less_false_order_dependent.
Print Assumptions range_lt_trichotomy_key.
Print Assumptions all_candidates_perm_ok.
Print Assumptions all_candidates_perm_err.
Print Assumptions confidence_okconf.
Print Assumptions match_tokens_order_independent_gen.
Print Assumptions match_tokens_order_independent.
Print Assumptions match_tokens_order_independent_ok.
Print Assumptions candidates_sort_unique.
