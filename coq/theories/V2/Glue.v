(* Glue: end-to-end compositions of the component theorems.

   C02_confidence_bound       score_sound_cases (ScoringProof) + confidence arithmetic (Float64Proof)
   C03_sorted_by_confidence   match_tokens_candidates (MatchWF) + sort_sorted_on (SortProof)
                              + the order facts of MatchND, for BOTH values of cf_total_less
   C03_all_in_one             match_tokens_wf + lines_ok (MatchWF) + tokenizer line theorems (TokInv)
   C10_total_for_valid_oracle match_tokens_total with Hscore_bounds discharged from the
                              oracle contract (valid script / wf words / D3) through score_sound_cases

   No axioms of its own.  Print Assumptions: C02_confidence_bound (and the two
   float lemmas conf_antitone_wide / conf_one_wide it uses) depend on the four
   axioms of Coq's Reals library (reached through Float64Proof / Flocq);
   everything else is closed under the global context. *)
From Coq Require Import List Arith NArith ZArith Bool Lia Permutation Sorted SpecFloat FMapPositive.
From Coq Require Import Reals Psatz Lra.
From Flocq Require Import Core BinarySingleNaN.
Import ListNotations.
From LC.Base Require Import Utf8 Float64 Sort Float64Proof SortProof.
From LC.V2 Require Import SSet Match ScoringProof MatchND MatchWF Tok TokInv.
Local Open Scope Z_scope.

(* ====================================================================== *)
(* 0a. confidence for distances beyond 2^53                                *)
(* ====================================================================== *)
(* Float64Proof states antitonicity and the 1.0 characterisation for
   distances d < 2^53 (where [of_Z d] is exact).  The distance [score] computes
   is the cost of the oracle's script, which can reach |R| + |K| (see
   [lev_ids_exceeds_max] below), i.e. up to 2^54 under the size hypotheses of
   C02.  Both facts remain true when [of_Z d] rounds (rounding is monotone);
   proved here for every d < 2^1000, following the proofs of Float64Proof. *)

Local Existing Instance Hprec.
Local Existing Instance Hmax.
Local Existing Instance fexp64_valid.
Local Existing Instance fexp64_mono.

Local Notation big := (bpow radix2 1000).

Lemma generic_big : generic_format radix2 fexp64 big.
Proof. apply generic_format_bpow. vm_compute. discriminate. Qed.

Lemma rnd_abs_le_big : forall x, (Rabs x <= big)%R -> (Rabs (rnd x) <= big)%R.
Proof.
intros x Hx. apply abs_round_le_generic; auto with typeclass_instances.
apply generic_big.
Qed.

Lemma big_lt_emax : forall x, (Rabs x <= big)%R -> (Rabs x < bpow radix2 emax)%R.
Proof.
intros x Hx. apply Rle_lt_trans with (1 := Hx). apply bpow_lt. reflexivity.
Qed.

Lemma IZR_abs_le_big : forall z, (Z.abs z < 2 ^ 1000)%Z -> (Rabs (IZR z) <= big)%R.
Proof.
intros z Hz. rewrite <- abs_IZR.
change big with (IZR (2 ^ 1000)).
apply IZR_le. lia.
Qed.

Lemma BofZ_wide : forall z, (Z.abs z < 2 ^ 1000)%Z ->
  B2R (BofZ z) = rnd (IZR z) /\ is_finite (BofZ z) = true.
Proof.
intros z Hz.
generalize (binary_normalize_correct prec emax Hprec Hmax mode_NE z 0 false).
fold (BofZ z).
replace (F2R (Float radix2 z 0)) with (IZR z) by (unfold F2R; simpl; ring).
cbv zeta. rewrite round_mode_NE.
rewrite Rlt_bool_true.
2:{ apply big_lt_emax. apply rnd_abs_le_big. now apply IZR_abs_le_big. }
intros (H1 & H2 & H3). split; auto.
Qed.

Definition RquoW (k d : Z) : R := rnd (rnd (IZR d) / IZR k).
Definition RconfW (k d : Z) : R := rnd (1 - RquoW k d).

Lemma rndZ_bounds : forall d, (0 <= d < 2 ^ 1000)%Z -> (0 <= rnd (IZR d) <= big)%R.
Proof.
intros d Hd. split.
- apply rnd_ge_0. apply IZR_le. lia.
- apply Rle_trans with (1 := RRle_abs _). apply rnd_abs_le_big.
  apply IZR_abs_le_big. rewrite Z.abs_eq; lia.
Qed.

Lemma RquoW_bounds : forall k d, (0 < k)%Z -> (0 <= d < 2 ^ 1000)%Z ->
  (0 <= RquoW k d <= big)%R.
Proof.
intros k d Hk Hd. unfold RquoW.
destruct (rndZ_bounds d Hd) as [H0 H1].
assert (Hk' : (1 <= IZR k)%R) by (apply IZR_le; lia).
assert (Hi : (0 < / IZR k <= 1)%R).
{ split. apply Rinv_0_lt_compat; lra.
  rewrite <- Rinv_1. apply Rinv_le_contravar; lra. }
assert (Hq : (0 <= rnd (IZR d) / IZR k <= big)%R).
{ unfold Rdiv. split.
  - apply Rmult_le_pos; lra.
  - apply Rle_trans with (rnd (IZR d) * 1)%R; [|lra].
    apply Rmult_le_compat_l; lra. }
split. apply rnd_ge_0; lra.
apply Rle_trans with (1 := RRle_abs _).
apply rnd_abs_le_big. rewrite Rabs_pos_eq; lra.
Qed.

Lemma Bquo_wide : forall k d, (0 < k < 2 ^ 53)%Z -> (0 <= d < 2 ^ 1000)%Z ->
  B2R (Bquo k d) = RquoW k d /\ is_finite (Bquo k d) = true.
Proof.
intros k d Hk Hd.
destruct (BofZ_correct k) as (K1 & K2 & K3). { apply abs_small; lia. }
destruct (BofZ_wide d) as (D1 & D2). { rewrite Z.abs_eq; lia. }
generalize (Bdiv_correct prec emax Hprec Hmax mode_NE (BofZ d) (BofZ k)).
fold (Bquo k d). rewrite K1, D1, round_mode_NE. fold (RquoW k d).
rewrite Rlt_bool_true.
2:{ apply big_lt_emax. destruct (RquoW_bounds k d (proj1 Hk) Hd).
    rewrite Rabs_pos_eq; assumption. }
intros H. destruct H as (H1 & H2 & _).
{ apply IZR_neq; lia. }
split; auto. now rewrite H2.
Qed.

Lemma Bconf_wide : forall k d, (0 < k < 2 ^ 53)%Z -> (0 <= d < 2 ^ 1000)%Z ->
  B2R (Bconf k d) = RconfW k d /\ is_finite (Bconf k d) = true.
Proof.
intros k d Hk Hd.
destruct (Bquo_wide k d Hk Hd) as (Q1 & Q2).
destruct (BofZ_correct 1) as (O1 & O2 & O3). { simpl; lia. }
generalize (Bminus_correct prec emax Hprec Hmax mode_NE (BofZ 1) (Bquo k d) O2 Q2).
fold (Bconf k d). rewrite O1, Q1, O3, round_mode_NE. fold (RconfW k d).
rewrite Rlt_bool_true.
2:{ apply big_lt_emax. apply rnd_abs_le_big.
    destruct (RquoW_bounds k d (proj1 Hk) Hd) as [H0 H1].
    assert (1 <= big)%R by (apply (bpow_le radix2 0 1000); lia).
    apply Rabs_le; lra. }
intros (H1 & H2 & H3). split; auto.
Qed.

Lemma finf_conf_wide : forall k d, (0 < k < 2 ^ 53)%Z -> (0 <= d < 2 ^ 1000)%Z ->
  finf (conf k d) /\ fval (conf k d) = RconfW k d.
Proof.
intros k d Hk Hd. rewrite conf_B by lia.
destruct (Bconf_wide k d Hk Hd) as (H1 & H2).
split. now apply finf_B2SF. now rewrite fval_B2SF.
Qed.

Lemma RconfW_antitone : forall k d1 d2, (0 < k)%Z -> (d1 <= d2)%Z ->
  (RconfW k d2 <= RconfW k d1)%R.
Proof.
intros k d1 d2 Hk Hd. unfold RconfW. apply rnd_le.
assert (RquoW k d1 <= RquoW k d2)%R; [|lra].
unfold RquoW. apply rnd_le. unfold Rdiv. apply Rmult_le_compat_r.
- apply Rlt_le, Rinv_0_lt_compat, IZR_lt. lia.
- apply rnd_le. now apply IZR_le.
Qed.

Lemma RconfW_small : forall k d, (Z.abs d < 2 ^ 53)%Z -> RconfW k d = Rconf k d.
Proof. intros k d Hd. unfold RconfW, RquoW, Rconf, Rquo. now rewrite rnd_Z. Qed.

Theorem conf_antitone_wide : forall k d1 d2, (0 < k < 2 ^ 53)%Z ->
  (0 <= d1 <= d2)%Z -> (d2 < 2 ^ 1000)%Z ->
  fle (conf k d2) (conf k d1) = true.
Proof.
intros k d1 d2 Hk Hd H2.
destruct (finf_conf_wide k d1 Hk) as [F1 V1]; [lia|].
destruct (finf_conf_wide k d2 Hk) as [F2 V2]; [lia|].
apply fle_true_R; auto. rewrite V1, V2. apply RconfW_antitone; lia.
Qed.

Theorem conf_one_wide : forall k d, (0 < k < 2 ^ 53)%Z -> (0 <= d < 2 ^ 1000)%Z ->
  feq (conf k d) fone = true -> d = 0%Z.
Proof.
intros k d Hk Hd H.
destruct (finf_conf_wide k d Hk Hd) as [F V].
apply feq_true_R in H; [|exact F|apply okf_finf, okf_one].
rewrite V, fval_one in H.
destruct (Z.eq_dec d 0) as [E|E]; auto. exfalso.
assert (RconfW k d <= RconfW k 1)%R by (apply RconfW_antitone; lia).
rewrite (RconfW_small k 1) in H0 by (simpl; lia).
assert (Rconf k 1 < 1)%R by (apply Rconf_lt_1; lia). lra.
Qed.
Print Assumptions conf_antitone_wide.
Print Assumptions conf_one_wide.

(* ====================================================================== *)
(* 0. Small missing lemmas                                                 *)
(* ====================================================================== *)

(* ---- edit-script cost: an upper bound ---- *)
Lemma cost_le_total : forall ds i d,
  (cost ds i d <= i + d + length (src ds) + length (dst ds))%nat.
Proof.
  induction ds as [|[op ids] r IH]; intros i d.
  - cbn [cost src dst flat_map length]. lia.
  - rewrite src_cons, dst_cons, !app_length.
    destruct op; cbn [cost src_ids dst_ids fst snd length].
    + pose proof (IH 0%nat 0%nat). lia.
    + pose proof (IH (i + length ids)%nat d). lia.
    + pose proof (IH i (d + length ids)%nat). lia.
Qed.

Lemma lev_ids_le_total : forall ds, (lev_ids ds <= length (src ds) + length (dst ds))%nat.
Proof. intros ds. rewrite lev_ids_cost. pose proof (cost_le_total ds 0 0). lia. Qed.

(* The script cost is NOT bounded by max(|src|,|dst|) (unlike [lev], see
   [lev_le_max]): two change blocks separated by an Equal add up. *)
Example lev_ids_exceeds_max :
  let ds := [(DInsert, [1; 1]%N); (DEqual, [2]%N); (DDelete, [3; 3]%N)] in
  lev_ids ds = 4%nat /\ length (src ds) = 3%nat /\ length (dst ds) = 3%nat /\
  D3 ds /\ valid_script ds [2; 3; 3]%N [1; 1; 2]%N.
Proof.
  cbv zeta. repeat split.
  intros d [<-|[<-|[<-|[]]]]; discriminate.
Qed.

(* the distance [score] feeds to [confidence] is at most |R| + |K| *)
Lemma trimmed_lev_word_bound : forall C d raw R,
  valid_script raw R (cd_ids d) -> wf_script (cf_word C) raw -> D3 raw ->
  lev_word (trimmed C d raw) <= Z.of_nat (length R) + Z.of_nat (length (cd_ids d)).
Proof.
  intros C d raw R Hv Hwf Hd3. unfold trimmed. cbv zeta.
  destruct (diff_range (join_words (cf_word C) (cd_ids d)) (map (hydrate (cf_word C)) raw))
    as [st en] eqn:Hdr.
  pose proof (trim_valid (cf_word C) raw R (cd_ids d) st en Hv Hwf Hd3 Hdr) as Ht.
  cbv zeta in Ht. destruct Ht as (_ & _ & _ & [HsM HdM]).
  rewrite skipn_map, firstn_map.
  rewrite lev_word_hydrate by (apply wf_script_firstn, wf_script_skipn, Hwf).
  pose proof (lev_ids_le_total (firstn (en - st) (skipn st raw))) as Hb.
  rewrite HsM, HdM in Hb.
  rewrite firstn_length in Hb. lia.
Qed.

(* ---- non-NaN float comparisons (no validity needed) ---- *)
Lemma nn_flt_false_fle : forall a b, notnan a -> notnan b -> flt a b = false -> fle b a = true.
Proof.
  intros a b Ha Hb H.
  destruct (SFcompare_key b a Hb Ha) as (c & Hc & Hk).
  unfold fle, SFleb. rewrite Hc. destruct c; try reflexivity.
  apply (flt_klt a b Ha Hb) in Hk. congruence.
Qed.

Lemma feq_true_fle : forall a b, feq a b = true -> fle a b = true.
Proof.
  intros a b. unfold feq, fle, SFeqb, SFleb.
  destruct (SFcompare a b) as [[| |]|]; intros H; try reflexivity; discriminate.
Qed.

Lemma feq_fzero_fone : feq fzero fone = false.
Proof. vm_compute. reflexivity. Qed.

(* ---- a boolean order (MatchND.bord) gives what merge sort needs ---- *)
Lemma bord_asym_on : forall A (P : A -> Prop) eqb ltb, bord P eqb ltb -> asym_on P ltb.
Proof.
  intros A P eqb ltb B x y Px Py Hyx.
  destruct (ltb x y) eqn:Hxy; [|reflexivity].
  pose proof (bo_trans B x y x Px Py Px Hxy Hyx) as Hxx.
  rewrite (bo_irr B x x Px Px (bo_refl B x Px)) in Hxx. discriminate.
Qed.

Lemma bord_le_trans_on : forall A (P : A -> Prop) eqb ltb, bord P eqb ltb -> le_trans_on P ltb.
Proof.
  intros A P eqb ltb B x y z Px Py Pz Hyx Hzy.
  destruct (ltb z x) eqn:Hzx; [|reflexivity].
  destruct (eqb y x) eqn:Eyx.
  - pose proof (bo_le B z x y Pz Px Py Hzx (bo_sym B y x Py Px Eyx)) as H. congruence.
  - pose proof (bo_tri B y x Py Px Eyx Hyx) as Hxy.
    pose proof (bo_trans B z x y Pz Px Py Hzx Hxy) as H. congruence.
Qed.

(* the historical three-key comparator as a lexicographic chain *)
Definition less_chain3 : mtch -> mtch -> bool :=
  lex_lt ce_conf cl_conf (lex_lt ce_st cl_st cl_et).
Definition eq_chain3 : mtch -> mtch -> bool :=
  lex_eq ce_conf (lex_eq ce_st ce_et).

Lemma less_false_chain : forall a b, less false a b = less_chain3 a b.
Proof. reflexivity. Qed.

Lemma bord_less_chain3 : bord okm eq_chain3 less_chain3.
Proof.
  unfold eq_chain3, less_chain3.
  repeat apply bord_lex.
  - apply bord_flip. apply (@bord_proj mtch f64 okm okconf m_conf feq flt); [auto|apply bord_okconf].
  - apply (@bord_proj mtch Z okm anyP m_st Z.eqb Z.ltb); [exact (fun _ _ => I)|apply bord_Z].
  - apply bord_flip. apply (@bord_proj mtch Z okm anyP m_et Z.eqb Z.ltb); [exact (fun _ _ => I)|apply bord_Z].
Qed.

(* both comparators are asymmetric with a transitive [le_of] on records whose
   confidence is not NaN / -0 *)
Lemma less_asym_on : forall b, asym_on okm (less b).
Proof.
  intros [|].
  - apply strict_total_on_asym. exact less_true_strict_total.
  - intros x y Px Py. rewrite !less_false_chain.
    exact (bord_asym_on _ _ _ _ bord_less_chain3 x y Px Py).
Qed.

Lemma less_le_trans_on : forall b, le_trans_on okm (less b).
Proof.
  intros [|].
  - apply strict_total_on_le_trans. exact less_true_strict_total.
  - intros x y z Px Py Pz. rewrite !less_false_chain.
    exact (bord_le_trans_on _ _ _ _ bord_less_chain3 x y z Px Py Pz).
Qed.

(* [less b y x = false] orders the confidences, whatever the tie-break *)
Lemma less_false_conf_le : forall b x y, okm x -> okm y ->
  less b y x = false -> fle (m_conf y) (m_conf x) = true.
Proof.
  intros b x y Px Py H. unfold less in H.
  destruct (feq (m_conf y) (m_conf x)) eqn:E.
  - apply feq_true_fle. exact E.
  - cbn [negb] in H. apply nn_flt_false_fle; try assumption; apply okconf_notnan; assumption.
Qed.

(* ---- sublists of sorted lists, positions in sorted lists ---- *)
Lemma sublist_StronglySorted : forall A (R : A -> A -> Prop) (l1 l2 : list A),
  sublist l1 l2 -> StronglySorted R l2 -> StronglySorted R l1.
Proof.
  intros A R l1 l2 Hs. induction Hs as [|x l1 l2 Hs IH|x l1 l2 Hs IH]; intros HS.
  - constructor.
  - apply StronglySorted_inv in HS. apply IH, HS.
  - apply StronglySorted_inv in HS. destruct HS as [HS HF]. constructor; [apply IH, HS|].
    rewrite Forall_forall in *. intros y Hy. apply HF. eapply sublist_In; eassumption.
Qed.

Lemma StronglySorted_nth : forall A (R : A -> A -> Prop) (l : list A),
  StronglySorted R l ->
  forall i j a b, (i < j)%nat -> nth_error l i = Some a -> nth_error l j = Some b -> R a b.
Proof.
  intros A R l HS. induction HS as [|x l HS IH HF]; intros i j a b Hij Ha Hb.
  - destruct i; discriminate.
  - destruct j as [|j]; [lia|]. cbn [nth_error] in Hb.
    destruct i as [|i].
    + cbn [nth_error] in Ha. injection Ha as <-.
      rewrite Forall_forall in HF. apply HF. eapply nth_error_In; eassumption.
    + cbn [nth_error] in Ha. apply (IH i j); [lia|assumption|assumption].
Qed.

(* ====================================================================== *)
(* 1. C02: the reported confidence never overstates the similarity          *)
(* ====================================================================== *)

(* Remarks with respect to the sketch.
   (a) The distance D that [score] passes to [confidence] is the cost of the
       oracle's (trimmed) edit script.  It is >= lev R' K, but it is NOT
       bounded by max(|R'|,|K|): [lev_ids_exceeds_max].  The bound that holds
       is D <= |R| + |K| ([trimmed_lev_word_bound]) < 2^54, beyond the range
       of [conf_antitone] / [conf_one_iff]; [conf_antitone_wide] and
       [conf_one_wide] above cover it, so the size hypotheses are the ones
       asked for (|K| < 2^53, |R| < 2^53).
   (b) In the rejected case (a version / induced phrase / lesser-GPL change was
       found) [score] returns (+0, 0, 0), so R' = R, and lev R K may exceed |K|,
       which makes [confidence |K| (lev R K)] negative: the first claim is then
       false ([C02_rejected_counterexample]).  What holds:
         - no change code found  -> conf <= confidence |K| (lev R' K);
         - a change code found   -> conf = +0, so = eo = 0, R' = R;
         - in both cases, if lev R' K <= |K| then conf <= confidence |K| (lev R' K);
         - in both cases, conf == 1.0 -> R' = K. *)
Theorem C02_confidence_bound : forall C d s e raw R lname cnf so eo,
  cf_diff C (cd_key d) s e = Some raw ->
  valid_script raw R (cd_ids d) ->
  wf_script (cf_word C) raw ->
  D3 raw ->
  key_part (cd_key d) 1 = Some lname ->
  score C d s e = Ok (cnf, so, eo) ->
  (0 < length (cd_ids d))%nat ->
  Z.of_nat (length (cd_ids d)) < 2 ^ 53 ->
  Z.of_nat (length R) < 2 ^ 53 ->
  let K := cd_ids d in
  let R' := firstn (length R - Z.to_nat so - Z.to_nat eo) (skipn (Z.to_nat so) R) in
  (score_scan (cf_is_digit C) lname (trimmed C d raw) [] [] = None ->
   fle cnf (confidence (Z.of_nat (length K)) (Z.of_nat (lev R' K))) = true) /\
  ((exists c, score_scan (cf_is_digit C) lname (trimmed C d raw) [] [] = Some c) ->
   cnf = fzero /\ so = 0 /\ eo = 0 /\ R' = R) /\
  ((lev R' K <= length K)%nat ->
   fle cnf (confidence (Z.of_nat (length K)) (Z.of_nat (lev R' K))) = true) /\
  (feq cnf fone = true -> R' = K).
Proof.
  intros C d s e raw R lname cnf so eo Hdiff Hv Hwf Hd3 Hkey Hscore Hpos HsK HsR K R'.
  subst K.
  assert (Hk : 0 < Z.of_nat (length (cd_ids d)) < 2 ^ 53) by lia.
  pose proof (trimmed_lev_word_bound C d raw R Hv Hwf Hd3) as HDb.
  destruct (score_sound_cases C d s e raw R lname cnf so eo Hdiff Hv Hwf Hd3 Hkey Hscore)
    as [((c & Hc & _) & -> & -> & ->) | (Hnone & D & HD & -> & Hso & Heo & Hlen & Hlev & Hz)].
  - (* rejected *)
    assert (HR : R' = R).
    { unfold R'. change (Z.to_nat 0) with 0%nat. cbn [skipn].
      rewrite !Nat.sub_0_r. apply firstn_all. }
    split; [|split; [|split]].
    + intros Hn. congruence.
    + intros _. repeat split. exact HR.
    + intros Hle. apply conf_nonneg_when_le; [exact Hk|]. lia.
    + rewrite feq_fzero_fone. discriminate.
  - (* accepted: cnf = confidence |K| D with lev R' K <= D <= |R| + |K| < 2^54 *)
    cbv zeta in Hlev, Hz. fold R' in Hlev, Hz.
    assert (HDs : Z.of_nat D < 2 ^ 1000).
    { rewrite HD. apply Z.le_lt_trans with (1 := HDb).
      apply Z.lt_trans with (2 ^ 53 + 2 ^ 53); [lia|]. vm_compute. reflexivity. }
    assert (Hfle : fle (confidence (Z.of_nat (length (cd_ids d))) (Z.of_nat D))
                       (confidence (Z.of_nat (length (cd_ids d))) (Z.of_nat (lev R' (cd_ids d)))) = true).
    { apply conf_antitone_wide; [exact Hk|lia|exact HDs]. }
    split; [|split; [|split]].
    + intros _. exact Hfle.
    + intros (c & Hc). congruence.
    + intros _. exact Hfle.
    + intros Hone. apply Hz.
      apply (conf_one_wide (Z.of_nat (length (cd_ids d))) (Z.of_nat D) Hk) in Hone; lia.
Qed.
Print Assumptions C02_confidence_bound.

(* The unconditional first claim fails in the rejected case: document
   "version 2" (ids [1;2]), input "version x x x x x" (ids [1;3;3;3;3;3]);
   the diff inserts "2" after "version", a version change, so score returns
   (+0, 0, 0); the true distance is 5 > |K| = 2 and 1 - 5/2 < 0. *)
Module C02_Counterexample.
  Definition wordf (i : N) : str :=
    match i with
    | 1%N => s_version
    | 2%N => [50%N]
    | _ => [120%N]
    end.
  Definition raw : list diff := [(DEqual, [1%N]); (DInsert, [2%N]); (DDelete, [3; 3; 3; 3; 3]%N)].
  Definition cfg : config :=
    {| cf_thr := fzero; cf_word := wordf;
       cf_is_digit := fun r => N.eqb r 50; cf_total_less := true;
       cf_diff := fun _ _ _ => Some raw |}.
  Definition doc : cdoc :=
    {| cd_key := [76; 47; 65; 47; 120]%N; cd_ids := [1; 2]%N;
       cd_set := {| ss_len := 2; ss_q := 1; ss_sums := [] |} |}.
  Definition Rin : list N := [1; 3; 3; 3; 3; 3]%N.
End C02_Counterexample.

Example C02_rejected_counterexample :
  let C := C02_Counterexample.cfg in
  let d := C02_Counterexample.doc in
  let R := C02_Counterexample.Rin in
  cf_diff C (cd_key d) 0%N 6%N = Some C02_Counterexample.raw /\
  valid_script C02_Counterexample.raw R (cd_ids d) /\
  wf_script (cf_word C) C02_Counterexample.raw /\
  D3 C02_Counterexample.raw /\
  key_part (cd_key d) 1 = Some [65%N] /\
  score C d 0%N 6%N = Ok (fzero, 0, 0) /\
  lev R (cd_ids d) = 5%nat /\
  fle fzero (confidence (Z.of_nat (length (cd_ids d))) (Z.of_nat (lev R (cd_ids d)))) = false.
Proof.
  cbv zeta. split; [reflexivity|]. split; [split; reflexivity|].
  split.
  { intros d [<-|[<-|[<-|[]]]] i Hi; cbn [snd] in Hi.
    - destruct Hi as [<-|[]]. split; [discriminate|]. vm_compute. intuition discriminate.
    - destruct Hi as [<-|[]]. split; [discriminate|]. vm_compute. intuition discriminate.
    - assert (i = 3%N) as -> by (cbn in Hi; intuition congruence).
      split; [discriminate|]. vm_compute. intuition discriminate. }
  split.
  { intros d [<-|[<-|[<-|[]]]]; discriminate. }
  split; [reflexivity|].
  split; [vm_compute; reflexivity|].
  split; vm_compute; reflexivity.
Qed.
Print Assumptions C02_rejected_counterexample.

(* ====================================================================== *)
(* 2. C03: the reported matches are ordered by non-increasing confidence    *)
(* ====================================================================== *)

(* every candidate handed to the sort has a non-NaN, non -0 confidence *)
Lemma candidates_okm : forall C docs ids lines pseudo tset cs,
  small_docs docs ->
  all_candidates C lines tset (first_pass C docs ids) = Ok cs ->
  Forall okm (pseudo_matches pseudo ++ cs).
Proof.
  intros C docs ids lines pseudo tset cs Hsmall Hcs.
  apply Forall_app. split.
  - unfold pseudo_matches. rewrite Forall_forall. intros m Hm.
    apply in_map_iff in Hm. destruct Hm as (l & <- & _).
    unfold okm, pseudo_of. cbn [m_conf]. exact okconf_fone.
  - rewrite Forall_forall. intros m Hm.
    destruct (all_candidates_wf _ _ _ _ _ Hcs m Hm) as (d & Hd & _ & (r & so & eo & _ & Hsc & _)).
    unfold okm. eapply score_okconf; [|exact Hsc].
    apply Hsmall. eapply first_pass_incl. exact Hd.
Qed.

(* Holds for both comparators ([cf_total_less C] true or false): the primary
   key of [less] is the confidence in either case.  [small_docs] (every
   document shorter than 2^53 tokens) makes every candidate confidence
   non-NaN ([score_okconf]); pseudo matches have confidence 1.0. *)
Theorem C03_sorted_by_confidence : forall C docs ids lines pseudo tset r,
  match_tokens C docs ids lines pseudo tset = Ok r ->
  small_docs docs ->
  forall i j mi mj, (i < j)%nat ->
    nth_error (r_matches r) i = Some mi ->
    nth_error (r_matches r) j = Some mj ->
    fle (m_conf mj) (m_conf mi) = true.
Proof.
  intros C docs ids lines pseudo tset r Hrun Hsmall i j mi mj Hij Hi Hj.
  destruct (match_tokens_inv _ _ _ _ _ _ _ Hrun) as [[_ ->]|[Hne _]].
  - cbn [r_matches] in Hi. destruct i; discriminate.
  - destruct (match_tokens_candidates _ _ _ _ _ _ _ Hrun Hne) as (cs & Hcs & _ & Hsub & Hin & _).
    pose proof (candidates_okm C docs ids lines pseudo tset cs Hsmall Hcs) as Hok.
    pose proof (@sort_sorted_on mtch okm (less (cf_total_less C))
                  (less_asym_on (cf_total_less C)) (less_le_trans_on (cf_total_less C))
                  (pseudo_matches pseudo ++ cs) Hok) as Hsorted.
    pose proof (sublist_StronglySorted _ _ _ _ Hsub Hsorted) as HS.
    pose proof (StronglySorted_nth _ _ _ HS i j _ _ Hij Hi Hj) as Hle. unfold le_of in Hle.
    rewrite Forall_forall in Hok.
    apply (less_false_conf_le (cf_total_less C)); [| |exact Hle].
    + apply Hok, Hin. eapply nth_error_In; eassumption.
    + apply Hok, Hin. eapply nth_error_In; eassumption.
Qed.
Print Assumptions C03_sorted_by_confidence.

(* ====================================================================== *)
(* 3. C03 all in one: from the runes to the reported matches                *)
(* ====================================================================== *)

Lemma tok_lines_mono : forall T rs,
  lines_mono (map (fun t : word * N => Z.of_N (snd t)) (d_toks (tokenize_runes T true rs))).
Proof.
  intros T rs i j a b Hij Ha Hb.
  rewrite nth_error_map in Ha, Hb.
  destruct (nth_error (d_toks (tokenize_runes T true rs)) i) as [ta|] eqn:Ea; [|discriminate].
  destruct (nth_error (d_toks (tokenize_runes T true rs)) j) as [tb|] eqn:Eb; [|discriminate].
  cbn [option_map] in Ha, Hb. injection Ha as <-. injection Hb as <-.
  pose proof (doc_tok_sorted T true rs i j ta tb Hij Ea Eb). lia.
Qed.

Lemma tok_lines_bounds : forall T rs l,
  In l (map (fun t : word * N => Z.of_N (snd t)) (d_toks (tokenize_runes T true rs))) ->
  1 <= l <= 1 + Z.of_N (nl rs).
Proof.
  intros T rs l Hl. apply in_map_iff in Hl. destruct Hl as (t & <- & Ht).
  pose proof (doc_tok_lines T true rs) as H. rewrite Forall_forall in H.
  specialize (H t Ht). lia.
Qed.

Lemma pseudo_lines_bounds : forall T rs l,
  In l (map Z.of_N (d_matches (tokenize_runes T true rs))) ->
  1 <= l <= 1 + Z.of_N (nl rs).
Proof.
  intros T rs l Hl. apply in_map_iff in Hl. destruct Hl as (t & <- & Ht).
  pose proof (doc_match_lines T true rs) as H. rewrite Forall_forall in H.
  specialize (H t Ht). lia.
Qed.

(* [ids] is arbitrary (no length hypothesis is needed for well-formedness);
   the tokenizer tables [T] are arbitrary as well. *)
Theorem C03_all_in_one : forall (T : tables) (rs : list rune) (C : config) (docs : list cdoc)
    (ids : list N) (tset : sset) (r : results),
  let d := tokenize_runes T true rs in
  let tgt_lines := map (fun t : word * N => Z.of_N (snd t)) (d_toks d) in
  let pseudo := map Z.of_N (d_matches d) in
  match_tokens C docs ids tgt_lines pseudo tset = Ok r ->
  forall m, In m (r_matches r) ->
  (* a Copyright pseudo match *)
  (m_name m = COPYRIGHT /\ m_type m = COPYRIGHT /\ m_conf m = fone /\
   m_sl m = m_el m /\ In (m_sl m) pseudo /\
   1 <= m_sl m <= 1 + Z.of_N (nl rs) /\
   m_st m = 0 /\ m_et m = 0)
  \/
  (* a match of a corpus document *)
  (exists d0, In d0 docs /\
     key_part (cd_key d0) 0 = Some (m_type m) /\
     key_part (cd_key d0) 1 = Some (m_name m) /\
     key_part (cd_key d0) 2 = Some (m_variant m) /\
     fle (cf_thr C) (m_conf m) = true /\
     1 <= m_sl m /\ m_sl m <= m_el m /\ m_el m <= r_total r /\ r_total r <= 1 + Z.of_N (nl rs) /\
     0 <= m_st m /\ m_st m <= m_et m /\ m_et m < Z.of_nat (length tgt_lines) /\
     nth_error tgt_lines (Z.to_nat (m_st m)) = Some (m_sl m) /\
     nth_error tgt_lines (Z.to_nat (m_et m)) = Some (m_el m)).
Proof.
  intros T rs C docs ids tset r d tgt_lines pseudo Hrun m Hm.
  destruct (match_tokens_wf _ _ _ _ _ _ _ Hrun m Hm)
    as [(Hn & Ht & Hc & Hse & Hin & Hst & Het) | (d0 & Hd0 & Hdm & _)].
  - left. repeat split; try assumption; apply (pseudo_lines_bounds T rs _ Hin).
  - right. exists d0.
    assert (Hmono : lines_mono tgt_lines) by apply tok_lines_mono.
    assert (Hpos : forall l, In l tgt_lines -> 1 <= l)
      by (intros l Hl; apply (tok_lines_bounds T rs l Hl)).
    destruct (lines_ok C docs ids tgt_lines pseudo tset r Hmono Hpos Hrun m d0 Hm Hdm)
      as ((Hsl & Hel) & _ & Hlast).
    apply nth_error_In in Hlast. apply (tok_lines_bounds T rs) in Hlast.
    destruct Hdm as (K0 & K1 & K2 & Hthr & (Hst & Het) & Hnsl & Hnel & _).
    repeat split; try assumption; lia.
Qed.
Print Assumptions C03_all_in_one.

(* ====================================================================== *)
(* 4. C10: totality with the score bounds discharged from the oracle contract *)
(* ====================================================================== *)

(* the span of the target the diff oracle was asked about *)
Definition span (ids : list N) (s e : N) : list N :=
  firstn (N.to_nat e - N.to_nat s) (skipn (N.to_nat s) ids).

Lemma span_length_le : forall ids s e, (length (span ids s e) <= N.to_nat e - N.to_nat s)%nat.
Proof. intros. unfold span. apply firstn_le_length. Qed.

(* One call of [score].  [N.to_nat e <= length ids] is not needed for the
   bound: the span is never longer than e - s. *)
Theorem C10_score_bounds : forall C d ids s e raw cnf so eo,
  cf_diff C (cd_key d) s e = Some raw ->
  valid_script raw (span ids s e) (cd_ids d) ->
  wf_script (cf_word C) raw ->
  D3 raw ->
  (s <= e)%N ->
  score C d s e = Ok (cnf, so, eo) ->
  0 <= so /\ 0 <= eo /\ so + eo <= Z.of_N e - Z.of_N s.
Proof.
  intros C d ids s e raw cnf so eo Hdiff Hv Hwf Hd3 Hse Hscore.
  destruct (key_part (cd_key d) 1) as [lname|] eqn:Hkey.
  2:{ unfold score in Hscore. rewrite Hdiff, Hkey in Hscore. discriminate. }
  pose proof (span_length_le ids s e) as Hlen.
  destruct (score_sound_cases C d s e raw (span ids s e) lname cnf so eo Hdiff Hv Hwf Hd3 Hkey Hscore)
    as [(_ & _ & -> & ->) | (_ & D & _ & _ & Hso & Heo & Hsum & _)]; lia.
Qed.
Print Assumptions C10_score_bounds.

(* [Hscore_bounds] of [match_hyps], literally, from a contract on every entry
   of the oracle for the documents of the corpus *)
Theorem C10_Hscore_bounds : forall C docs ids,
  (forall d s e raw, In d docs -> cf_diff C (cd_key d) s e = Some raw ->
     valid_script raw (span ids s e) (cd_ids d) /\ wf_script (cf_word C) raw /\ D3 raw /\ (s <= e)%N) ->
  forall d s e cnf so eo, In d docs -> score C d s e = Ok (cnf, so, eo) ->
    0 <= so /\ 0 <= eo /\ so + eo <= Z.of_N e - Z.of_N s.
Proof.
  intros C docs ids Hor d s e cnf so eo Hd Hscore.
  destruct (cf_diff C (cd_key d) s e) as [raw|] eqn:Hdiff.
  2:{ unfold score in Hscore. rewrite Hdiff in Hscore. discriminate. }
  destruct (Hor d s e raw Hd Hdiff) as (Hv & Hwf & Hd3 & Hse).
  eapply C10_score_bounds; eassumption.
Qed.
Print Assumptions C10_Hscore_bounds.

(* [candidates_of_total] with every hypothesis restricted to the ranges scored *)
Lemma candidates_of_total_local : forall C tgt_lines tset d ms sn,
  (forall r, In r ms -> cf_diff C (cd_key d) (tgt_start r) (tgt_end r) <> None) ->
  (key_part (cd_key d) 0 <> None /\ key_part (cd_key d) 1 <> None /\ key_part (cd_key d) 2 <> None) ->
  (forall r cnf so eo, In r ms -> score C d (tgt_start r) (tgt_end r) = Ok (cnf, so, eo) ->
     0 <= so /\ 0 <= eo /\ so + eo <= Z.of_N (tgt_end r) - Z.of_N (tgt_start r)) ->
  Forall (range_ok (N.of_nat (length tgt_lines)) sn) ms ->
  exists cs, candidates_of C tgt_lines tset d ms = Ok cs.
Proof.
  intros C tgt_lines tset d ms sn Hor (Hk0 & Hk1 & Hk2) Hsb Hms.
  induction ms as [|r rest IH].
  - exists []. reflexivity.
  - inversion Hms as [|? ? Hr Hrest]; subst.
    destruct IH as [tl Htl].
    { intros r' Hr'. apply Hor. right. exact Hr'. }
    { intros r' cnf so eo Hr'. apply Hsb. right. exact Hr'. }
    { exact Hrest. }
    cbn [candidates_of].
    destruct (score_ok C d (tgt_start r) (tgt_end r)) as (cnf & so & eo & Hsc);
      [apply Hor; left; reflexivity|exact Hk1|].
    rewrite Hsc. cbv zeta. rewrite Htl.
    destruct (fle (cf_thr C) cnf && (0 <? Z.of_N (tgt_end r) - Z.of_N (tgt_start r) - so - eo))%bool eqn:Hc;
      [|eauto].
    apply andb_true_iff in Hc. destruct Hc as [_ Hpos]. apply Z.ltb_lt in Hpos.
    pose proof (Hsb r cnf so eo (or_introl eq_refl) Hsc) as (Hso & Heo & Hsum).
    destruct Hr as (Hr1 & Hr2 & _).
    destruct (nthZ_total tgt_lines (Z.of_N (tgt_start r) + so)) as [sl Hsl]; [lia|].
    destruct (nthZ_total tgt_lines (Z.of_N (tgt_end r) - eo - 1)) as [el Hel]; [lia|].
    rewrite Hsl, Hel.
    destruct (key_part (cd_key d) 1) as [nm|]; [|congruence].
    destruct (key_part (cd_key d) 2) as [vr|]; [|congruence].
    destruct (key_part (cd_key d) 0) as [ty|]; [|congruence].
    eauto.
Qed.

(* [match_tokens_total] with the oracle contract in place of [Hscore_bounds]
   (and of [Horacle], which the contract contains).  The contract is only
   about the ranges [find_potential_matches] produces, i.e. the ranges the Go
   code actually diffs; for those [fpm_in_bounds] gives
   tgt_start < tgt_end <= length ids, so neither s <= e nor e <= length ids
   has to be assumed.  The remaining hypotheses are those of [match_hyps]. *)
Theorem C10_total_for_valid_oracle : forall C docs tgt_ids tgt_lines pseudo tset,
  (* oracle contract *)
  (forall d r, In d docs -> In r (find_potential_matches (cd_set d) tset (cf_thr C)) ->
     exists raw, cf_diff C (cd_key d) (tgt_start r) (tgt_end r) = Some raw /\
                 valid_script raw (span tgt_ids (tgt_start r) (tgt_end r)) (cd_ids d) /\
                 wf_script (cf_word C) raw /\ D3 raw) ->
  (* the remaining fields of match_hyps *)
  (forall d, In d docs ->
     key_part (cd_key d) 0 <> None /\ key_part (cd_key d) 1 <> None /\ key_part (cd_key d) 2 <> None) ->
  (forall d, In d docs -> ss_wf (cd_set d)) ->
  ss_wf tset ->
  ss_len tset = N.of_nat (length tgt_lines) ->
  length tgt_ids = length tgt_lines ->
  exists r, match_tokens C docs tgt_ids tgt_lines pseudo tset = Ok r.
Proof.
  intros C docs tgt_ids tgt_lines pseudo tset Hor Hkeys Hwfd Hwft Hlen Hids.
  assert (Hall : forall ds, (forall d, In d ds -> In d docs) ->
                            exists cs, all_candidates C tgt_lines tset ds = Ok cs).
  { induction ds as [|d rest IH]; intros Hincl.
    - exists []. reflexivity.
    - destruct IH as [b Hb]; [intros d' Hd'; apply Hincl; right; exact Hd'|].
      assert (Hd : In d docs) by (apply Hincl; left; reflexivity).
      pose proof (fpm_in_bounds (cd_set d) tset (cf_thr C) (Hwfd d Hd) Hwft) as Hfpm.
      destruct (candidates_of_total_local C tgt_lines tset d
                  (find_potential_matches (cd_set d) tset (cf_thr C)) (ss_len (cd_set d))) as [a Ha].
      + intros r Hr. destruct (Hor d r Hd Hr) as (raw & Hraw & _). congruence.
      + apply Hkeys, Hd.
      + intros r cnf so eo Hr Hsc.
        destruct (Hor d r Hd Hr) as (raw & Hraw & Hv & Hwf & Hd3).
        rewrite Forall_forall in Hfpm. destruct (Hfpm r Hr) as (Hlt & _).
        eapply C10_score_bounds; try eassumption. lia.
      + rewrite <- Hlen. exact Hfpm.
      + cbn [all_candidates]. rewrite Ha, Hb. eauto. }
  rewrite match_tokens_eq.
  destruct (Hall (first_pass C docs tgt_ids)) as [cs Hcs]; [apply first_pass_incl|].
  rewrite Hcs. destruct (first_pass C docs tgt_ids); eauto.
Qed.
Print Assumptions C10_total_for_valid_oracle.

(* the same through [match_hyps] / [match_tokens_total], with the contract on
   every oracle entry (the form that discharges [Hscore_bounds] literally) *)
Theorem C10_match_hyps_of_contract : forall C docs tgt_ids tgt_lines tset,
  (forall d s e raw, In d docs -> cf_diff C (cd_key d) s e = Some raw ->
     valid_script raw (span tgt_ids s e) (cd_ids d) /\ wf_script (cf_word C) raw /\ D3 raw /\ (s <= e)%N) ->
  (forall d r, In d docs -> In r (find_potential_matches (cd_set d) tset (cf_thr C)) ->
     cf_diff C (cd_key d) (tgt_start r) (tgt_end r) <> None) ->
  (forall d, In d docs ->
     key_part (cd_key d) 0 <> None /\ key_part (cd_key d) 1 <> None /\ key_part (cd_key d) 2 <> None) ->
  (forall d, In d docs -> ss_wf (cd_set d)) ->
  ss_wf tset ->
  ss_len tset = N.of_nat (length tgt_lines) ->
  length tgt_ids = length tgt_lines ->
  match_hyps C docs tgt_ids tgt_lines tset /\
  forall pseudo, exists r, match_tokens C docs tgt_ids tgt_lines pseudo tset = Ok r.
Proof.
  intros C docs tgt_ids tgt_lines tset Hc Hor Hkeys Hwfd Hwft Hlen Hids.
  assert (Hy : match_hyps C docs tgt_ids tgt_lines tset).
  { constructor; try assumption. apply (C10_Hscore_bounds C docs tgt_ids Hc). }
  split; [exact Hy|]. intros pseudo. apply match_tokens_total. exact Hy.
Qed.
Print Assumptions C10_match_hyps_of_contract.
