(* Executable model of the read loop of tokenizeStream (v2/tokenizer.go):
   io.ReadFull into a 1024-byte buffer behind the bytes left over from the
   previous round, target 1020, carry-over copy to the front.  The buffer is
   modelled with its stale tail (bytes of earlier rounds that were not
   overwritten).  [fixed = false] is the code as found: utf8.DecodeRune is
   handed rbuf[idx:], which in the last round extends past the valid data;
   [fixed = true] hands it only the valid bytes rbuf[idx:end].
   The reader is abstracted by what io.ReadFull makes of it: the concatenated
   byte stream and, optionally, the number of bytes after which it fails with
   a non-EOF error (fragmentation is invisible through ReadFull).
   Counters are binary ([N]) so that the extracted code runs in linear time. *)
From Coq Require Import List NArith Arith Bool.
Import ListNotations.
From LC.Base Require Import Utf8.
From LC.V2 Require Import Tok.
Local Open Scope N_scope.

Definition BUFSIZE : N := 1024.
Definition TGT : N := 1020.

(* inner loop: l = rbuf[pos:] (cut at the end of valid data when fixed), decode while pos < tgt *)
Fixpoint inner (fuel : nat) (T : tables) (normalize : bool) (l : list byte) (pos tgt : N)
         (st : tstate) : tstate * N :=
  match fuel with
  | O => (st, pos)
  | S f =>
    if pos <? tgt then
      let '(r, n) := decode l in
      match n with
      | O => (st, pos)                      (* empty slice: cannot happen while pos < tgt <= len *)
      | _ => inner f T normalize (skipn n l) (pos + N.of_nat n) tgt (step T normalize st r)
      end
    else (st, pos)
  end.

Inductive rres := RErr | ROk (st : tstate).

(* outer loop; [rest] = bytes not yet delivered, [avail] = their number;
   [fail] = Some k: the reader fails after k more bytes *)
Fixpoint rounds (fuel : nat) (T : tables) (normalize fixed : bool) (rbuf : list byte) (idx : N)
         (rest : list byte) (avail : N) (fail : option N) (st : tstate) : rres :=
  match fuel with
  | O => RErr                               (* unreachable: fuel = S (length input) suffices *)
  | S f =>
    let want := BUFSIZE - idx in
    let n := N.min want avail in
    let failed := match fail with Some k => (k <? want) && (k <=? avail) | None => false end in
    if failed then RErr
    else
      let rbuf1 := firstn (N.to_nat idx) rbuf ++ firstn (N.to_nat n) rest ++ skipn (N.to_nat (idx + n)) rbuf in
      let is_eof := n <? want in
      let tgt := if is_eof then idx + n else TGT in
      let view := if fixed then firstn (N.to_nat (idx + n)) rbuf1 else rbuf1 in
      let '(st1, pos) := inner 1025 T normalize view 0 tgt st in
      if is_eof then ROk st1
      else
        let left := skipn (N.to_nat pos) rbuf1 in
        let rbuf2 := left ++ skipn (length left) rbuf1 in
        rounds f T normalize fixed rbuf2 (BUFSIZE - pos) (skipn (N.to_nat n) rest) (avail - n)
               (match fail with Some k => Some (k - n) | None => None end) st1
  end.

Definition tokenize_stream (T : tables) (normalize fixed : bool) (bs : list byte) (fail : option N) : option doc :=
  match rounds (S (length bs)) T normalize fixed (repeat 0 (N.to_nat BUFSIZE)) 0 bs (N.of_nat (length bs)) fail init_state with
  | RErr => None
  | ROk st => Some (doc_of (finish T normalize st))
  end.
