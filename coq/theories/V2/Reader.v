(* Executable model of the read loop of tokenizeStream (v2/tokenizer.go):
   io.ReadFull into a 1024-byte buffer behind the bytes left over from the
   previous round, target 1020, carry-over copy to the front.  The buffer is
   modelled with its stale tail (bytes of earlier rounds that were not
   overwritten).  [fixed = false] is the code as found: in the last round
   utf8.DecodeRune is handed rbuf[idx:], which extends past the valid data;
   [fixed = true] hands it rbuf[idx:tgt].
   The reader is abstracted by what io.ReadFull makes of it: the concatenated
   byte stream and, optionally, the number of bytes after which it fails with
   a non-EOF error (fragmentation is invisible through ReadFull). *)
From Coq Require Import List NArith Arith Bool.
Import ListNotations.
From LC.Base Require Import Utf8.
From LC.V2 Require Import Tok.

Definition BUFSIZE : nat := 1024.
Definition TGT : nat := 1020.

(* inner loop: l = rbuf[pos:] (possibly cut at tgt), decode while pos < tgt *)
Fixpoint inner (fuel : nat) (T : tables) (normalize : bool) (l : list byte) (pos tgt : nat)
         (st : tstate) : tstate * nat :=
  match fuel with
  | O => (st, pos)
  | S f =>
    if Nat.ltb pos tgt then
      let '(r, n) := decode l in
      match n with
      | O => (st, pos)                      (* empty slice: cannot happen while pos < tgt <= len *)
      | _ => inner f T normalize (skipn n l) (pos + n) tgt (step T normalize st r)
      end
    else (st, pos)
  end.

Inductive rres := RErr | ROk (st : tstate).

(* outer loop; [rest] = bytes not yet delivered; [fail] = Some k: the reader
   fails after k more bytes (k counted from the current position) *)
Fixpoint rounds (fuel : nat) (T : tables) (normalize fixed : bool) (rbuf : list byte) (idx : nat)
         (rest : list byte) (fail : option nat) (st : tstate) : rres :=
  match fuel with
  | O => RErr                               (* unreachable: fuel = S (length input) suffices *)
  | S f =>
    let want := BUFSIZE - idx in
    let avail := length rest in
    let n := Nat.min want avail in
    let failed := match fail with Some k => Nat.ltb k want && Nat.leb k avail | None => false end in
    if failed then RErr
    else
      let rbuf1 := firstn idx rbuf ++ firstn n rest ++ skipn (idx + n) rbuf in
      let is_eof := Nat.ltb n want in
      let tgt := if is_eof then idx + n else TGT in
      let view := if fixed then firstn tgt rbuf1 else rbuf1 in
      let '(st1, pos) := inner (S BUFSIZE) T normalize view 0 tgt st in
      if is_eof then ROk st1
      else
        let left := skipn pos rbuf1 in
        let rbuf2 := left ++ skipn (length left) rbuf1 in
        rounds f T normalize fixed rbuf2 (length left) (skipn n rest)
               (match fail with Some k => Some (k - n) | None => None end) st1
  end.

Definition tokenize_stream (T : tables) (normalize fixed : bool) (bs : list byte) (fail : option nat) : option doc :=
  match rounds (S (length bs)) T normalize fixed (repeat 0%N BUFSIZE) 0 bs fail init_state with
  | RErr => None
  | ROk st => Some (doc_of (finish T normalize st))
  end.
