(* A BOOLEAN, EXTRACTABLE check [norm_tables_wf] that implies
   [NormProof.tables_ok] for the tables built by [TokTables.mk_tables] from
   the range lists dumped from the running Go code, so that every verification
   run can evaluate it on the real Unicode tables and apply [C11_restricted].

   - [forall_pos] / [forall_below]: a bounded universal quantifier over the
     runes [0, n) by structural recursion on the binary positive (recursion
     depth log2 n; no list, no Peano number of that size is ever built).
   - [forall_pos_n] / [forall_below_n]: the same quantifier carrying a state
     that is narrowed while descending; [norm_tables_wf] uses it with the
     suffixes of the sorted range lists that can still matter ([drop_below]),
     so that the lookups at each rune are O(1) instead of linear in the
     tables.  Sortedness is NOT assumed: only well-formed ranges ending below
     the current base are dropped, which is sound for any list
     ([in_ranges_drop], [lower_of_drop]).  [norm_tables_wf_eq]: the result
     equals the plain [forall_below (rune_ok T) B] formulation.
     On the tables dumped from Go (659 letter, 64 digit, 10 space,
     668 lower ranges) with B = 0x110000: true, 5 s by vm_compute, 0.5 s
     extracted (ocamlopt); the plain formulation takes more than 20 minutes.
   - [ranges_below B ...]: every range / key of the letter, digit, space,
     lower (source range and image range) and punctuation tables is below
     [B]; above [B] all the lookups of [mk_tables] are trivial
     ([in_ranges_above], [lower_of_above], [assoc_rune_above]).
   - [rune_ok T c]: the per-rune fields of [tables_ok] at the rune [c], as a
     boolean.  Evaluated for every [c < B]; for [c >= B] the fields hold
     because [to_lower T c = c], [is_letter T c = is_digit T c = false].
   - [fixed_ok T]: the fields about fixed runes (32 45 46 58 41 104 116 112).
   - [ichg_ok iw]: no interchangeable-words entry has the empty key or an
     empty value.
   - [tk_unescape] holds by construction of [mk_tables].

   Stdlib only, no axioms. *)
From Coq Require Import List NArith Bool Lia.
Import ListNotations.
From LC.Base Require Import Utf8.
From LC.V2 Require Import Tok TokSim TokInv Normalize TokTables NormProof.
Local Open Scope N_scope.

(* ================================================================== *)
(* 1. A logarithmic-depth bounded quantifier                           *)
(* ================================================================== *)

(* [forall_pos f base p]: f holds on [base, base + p) *)
Fixpoint forall_pos (f : N -> bool) (base : N) (p : positive) : bool :=
  match p with
  | xH => f base
  | xO p' => forall_pos f base p' && forall_pos f (base + Npos p') p'
  | xI p' => f base && forall_pos f (base + 1) p' && forall_pos f (base + 1 + Npos p') p'
  end.

(* f holds on [0, n) *)
Definition forall_below (f : N -> bool) (n : N) : bool :=
  match n with
  | N0 => true
  | Npos p => forall_pos f 0 p
  end.

Lemma forall_pos_sound f p :
  forall base, forall_pos f base p = true ->
  forall c, base <= c -> c < base + Npos p -> f c = true.
Proof.
  induction p as [p IH|p IH|]; intros base H c H1 H2; cbn [forall_pos] in H.
  - apply andb_true_iff in H. destruct H as [H Hb]. apply andb_true_iff in H. destruct H as [H0 Ha].
    destruct (N.eq_dec c base) as [->|NE]; [exact H0|].
    destruct (N.lt_ge_cases c (base + 1 + N.pos p)) as [L|G].
    + apply (IH _ Ha); lia.
    + apply (IH _ Hb); lia.
  - apply andb_true_iff in H. destruct H as [Ha Hb].
    destruct (N.lt_ge_cases c (base + N.pos p)) as [L|G].
    + apply (IH _ Ha); lia.
    + apply (IH _ Hb); lia.
  - assert (c = base) as -> by lia. exact H.
Qed.

Lemma forall_below_sound f n :
  forall_below f n = true -> forall c, c < n -> f c = true.
Proof.
  destruct n as [|p]; cbn [forall_below]; intros H c Hc; [lia|].
  apply (forall_pos_sound f p 0 H); lia.
Qed.

(* completeness, so that a [false] answer of the check is informative *)
Lemma forall_pos_complete f p :
  forall base, (forall c, base <= c -> c < base + Npos p -> f c = true) ->
  forall_pos f base p = true.
Proof.
  induction p as [p IH|p IH|]; intros base H; cbn [forall_pos].
  - rewrite !andb_true_iff. repeat split.
    + apply H; lia.
    + apply IH. intros c H1 H2. apply H; [lia|]. lia.
    + apply IH. intros c H1 H2. apply H; [lia|]. lia.
  - rewrite andb_true_iff. split.
    + apply IH. intros c H1 H2. apply H; [lia|]. lia.
    + apply IH. intros c H1 H2. apply H; [lia|]. lia.
  - apply H; lia.
Qed.

Lemma forall_below_complete f n :
  (forall c, c < n -> f c = true) -> forall_below f n = true.
Proof.
  destruct n as [|p]; cbn [forall_below]; intros H; [reflexivity|].
  apply forall_pos_complete. intros c _ Hc. apply H. lia.
Qed.

(* ---------- the same, carrying a state that is narrowed on the way ----------
   [nar base s] may discard from [s] whatever is irrelevant for the runes
   [>= base] (here: the leading ranges of the sorted range lists that end
   below [base]), so that the lookups at the leaves are O(1) instead of
   linear in the tables.  Each level of the recursion discards every range at
   most once: the whole sweep costs O(n + log n * |tables|). *)
Fixpoint forall_pos_n {S : Type} (nar : N -> S -> S) (f : S -> N -> bool)
         (s : S) (base : N) (p : positive) : bool :=
  let s := nar base s in
  match p with
  | xH => f s base
  | xO p' => forall_pos_n nar f s base p' && forall_pos_n nar f s (base + Npos p') p'
  | xI p' => f s base && forall_pos_n nar f s (base + 1) p' &&
             forall_pos_n nar f s (base + 1 + Npos p') p'
  end.

Definition forall_below_n {S : Type} (nar : N -> S -> S) (f : S -> N -> bool) (s : S) (n : N) : bool :=
  match n with
  | N0 => true
  | Npos p => forall_pos_n nar f s 0 p
  end.

Section Narrow.
Context {S : Type} (nar : N -> S -> S) (f : S -> N -> bool).
Hypothesis nar_ok : forall a s c, a <= c -> f (nar a s) c = f s c.

Lemma forall_pos_n_sound p :
  forall s base, forall_pos_n nar f s base p = true ->
  forall c, base <= c -> c < base + Npos p -> f s c = true.
Proof.
  induction p as [p IH|p IH|]; intros s base H c H1 H2; cbn [forall_pos_n] in H; cbv zeta in H;
    rewrite <- (nar_ok base s c H1).
  - apply andb_true_iff in H. destruct H as [H Hb]. apply andb_true_iff in H. destruct H as [H0 Ha].
    destruct (N.eq_dec c base) as [->|NE]; [exact H0|].
    destruct (N.lt_ge_cases c (base + 1 + N.pos p)) as [L|G].
    + apply (IH _ _ Ha); lia.
    + apply (IH _ _ Hb); lia.
  - apply andb_true_iff in H. destruct H as [Ha Hb].
    destruct (N.lt_ge_cases c (base + N.pos p)) as [L|G].
    + apply (IH _ _ Ha); lia.
    + apply (IH _ _ Hb); lia.
  - assert (c = base) as -> by lia. exact H.
Qed.

Lemma forall_below_n_sound s n :
  forall_below_n nar f s n = true -> forall c, c < n -> f s c = true.
Proof.
  destruct n as [|p]; cbn [forall_below_n]; intros H c Hc; [lia|].
  apply (forall_pos_n_sound p s 0 H); lia.
Qed.

Lemma forall_pos_n_complete p :
  forall s base, (forall c, base <= c -> c < base + Npos p -> f s c = true) ->
  forall_pos_n nar f s base p = true.
Proof.
  induction p as [p IH|p IH|]; intros s base H; cbn [forall_pos_n]; cbv zeta.
  - rewrite !andb_true_iff. repeat split.
    + rewrite nar_ok by lia. apply H; lia.
    + apply IH. intros c H1 H2. rewrite nar_ok by lia. apply H; lia.
    + apply IH. intros c H1 H2. rewrite nar_ok by lia. apply H; lia.
  - rewrite andb_true_iff. split.
    + apply IH. intros c H1 H2. rewrite nar_ok by lia. apply H; lia.
    + apply IH. intros c H1 H2. rewrite nar_ok by lia. apply H; lia.
  - rewrite nar_ok by lia. apply H; lia.
Qed.

Lemma forall_below_n_complete s n :
  (forall c, c < n -> f s c = true) -> forall_below_n nar f s n = true.
Proof.
  destruct n as [|p]; cbn [forall_below_n]; intros H; [reflexivity|].
  apply forall_pos_n_complete. intros c _ Hc. apply H. lia.
Qed.

(* hence the two quantifiers agree *)
Lemma forall_below_n_eq s n : forall_below_n nar f s n = forall_below (f s) n.
Proof.
  destruct (forall_below (f s) n) eqn:E.
  - apply forall_below_n_complete. apply forall_below_sound. exact E.
  - destruct (forall_below_n nar f s n) eqn:E'; [|reflexivity].
    rewrite <- E. symmetry. apply forall_below_complete. apply forall_below_n_sound. exact E'.
Qed.
End Narrow.

(* discard the leading (well-formed) ranges that end below [a] *)
Fixpoint drop_below (a : N) (l : list (N * N)) : list (N * N) :=
  match l with
  | (lo, hi) :: rest => if (lo <=? hi) && (hi <? a) then drop_below a rest else l
  | [] => []
  end.
Fixpoint drop_below3 (a : N) (l : list (N * N * N)) : list (N * N * N) :=
  match l with
  | (lo, hi, img) :: rest => if (lo <=? hi) && (hi <? a) then drop_below3 a rest else l
  | [] => []
  end.

Lemma in_ranges_drop a l c : a <= c -> in_ranges (drop_below a l) c = in_ranges l c.
Proof.
  intros Hc. induction l as [|[lo hi] l IH]; [reflexivity|]. cbn [drop_below].
  destruct ((lo <=? hi) && (hi <? a)) eqn:E; [|reflexivity].
  apply andb_true_iff in E. destruct E as [E1 E2]. apply N.leb_le in E1. apply N.ltb_lt in E2.
  rewrite IH. cbn [in_ranges].
  destruct (N.ltb_spec c lo); [lia|]. destruct (N.leb_spec c hi); [lia|]. reflexivity.
Qed.

Lemma lower_of_drop a l c : a <= c -> lower_of (drop_below3 a l) c = lower_of l c.
Proof.
  intros Hc. induction l as [|[[lo hi] img] l IH]; [reflexivity|]. cbn [drop_below3].
  destruct ((lo <=? hi) && (hi <? a)) eqn:E; [|reflexivity].
  apply andb_true_iff in E. destruct E as [E1 E2]. apply N.leb_le in E1. apply N.ltb_lt in E2.
  rewrite IH. cbn [lower_of].
  destruct (N.ltb_spec c lo); [lia|]. destruct (N.leb_spec c hi); [lia|]. reflexivity.
Qed.

(* ================================================================== *)
(* 2. The bound: above [B] the lookups of [mk_tables] are trivial      *)
(* ================================================================== *)

Definition range_below (B : N) (p : N * N) : bool := snd p <? B.
(* source range [lo, hi] and image range [img, img + (hi - lo)] *)
Definition lrange_below (B : N) (p : N * N * N) : bool :=
  let '(lo, hi, img) := p in (hi <? B) && (img + (hi - lo) <? B).
Definition key_below {A} (B : N) (p : N * A) : bool := fst p <? B.

Definition ranges_below (B : N) (letters digits spaces : list (N * N)) (lower : list (N * N * N))
           (pm : list (N * list N)) : bool :=
  forallb (range_below B) letters && forallb (range_below B) digits &&
  forallb (range_below B) spaces && forallb (lrange_below B) lower &&
  forallb (key_below B) pm.

Lemma in_ranges_above B l c :
  forallb (range_below B) l = true -> B <= c -> in_ranges l c = false.
Proof.
  induction l as [|[lo hi] l IH]; cbn [forallb in_ranges]; intros H Hc; [reflexivity|].
  apply andb_true_iff in H. destruct H as [H1 H2]. unfold range_below in H1. cbn [snd] in H1.
  apply N.ltb_lt in H1.
  destruct (N.ltb_spec c lo); [reflexivity|].
  destruct (N.leb_spec c hi); [lia|]. apply IH; assumption.
Qed.

Lemma lower_of_above B l c :
  forallb (lrange_below B) l = true -> B <= c -> lower_of l c = c.
Proof.
  induction l as [|[[lo hi] img] l IH]; cbn [forallb lower_of]; intros H Hc; [reflexivity|].
  apply andb_true_iff in H. destruct H as [H1 H2]. unfold lrange_below in H1.
  apply andb_true_iff in H1. destruct H1 as [H1 _]. apply N.ltb_lt in H1.
  destruct (N.ltb_spec c lo); [reflexivity|].
  destruct (N.leb_spec c hi); [lia|]. apply IH; assumption.
Qed.

(* the images are below [B] as well (not needed by the proof: [rune_ok]
   evaluates [to_lower T (to_lower T c)] directly) *)
Lemma lower_of_below B l c :
  forallb (lrange_below B) l = true -> c < B -> lower_of l c < B.
Proof.
  induction l as [|[[lo hi] img] l IH]; cbn [forallb lower_of]; intros H Hc; [exact Hc|].
  apply andb_true_iff in H. destruct H as [H1 H2]. unfold lrange_below in H1.
  apply andb_true_iff in H1. destruct H1 as [_ H1]. apply N.ltb_lt in H1.
  destruct (N.ltb_spec c lo); [exact Hc|].
  destruct (N.leb_spec c hi); [lia|]. apply IH; assumption.
Qed.

Lemma assoc_rune_above {A} B (l : list (N * A)) c :
  forallb (key_below B) l = true -> B <= c -> assoc_rune l c = None.
Proof.
  induction l as [|[k v] l IH]; cbn [forallb assoc_rune]; intros H Hc; [reflexivity|].
  apply andb_true_iff in H. destruct H as [H1 H2]. unfold key_below in H1. cbn [fst] in H1.
  apply N.ltb_lt in H1.
  destruct (N.eqb_spec c k); [lia|]. apply IH; assumption.
Qed.

Section Above.
Variables (B : N) (letters digits spaces : list (N * N)) (lower : list (N * N * N))
          (pm : list (N * list N)) (markers : list (list N)) (iw ue : list (list N * list N)).
Let T := mk_tables letters digits spaces lower pm markers iw ue.
Hypothesis RB : ranges_below B letters digits spaces lower pm = true.

Lemma ranges_below_inv :
  forallb (range_below B) letters = true /\ forallb (range_below B) digits = true /\
  forallb (range_below B) spaces = true /\ forallb (lrange_below B) lower = true /\
  forallb (key_below B) pm = true.
Proof. unfold ranges_below in RB. rewrite !andb_true_iff in RB. tauto. Qed.

Lemma is_letter_above c : B <= c -> is_letter T c = false.
Proof. apply in_ranges_above, ranges_below_inv. Qed.
Lemma is_digit_above c : B <= c -> is_digit T c = false.
Proof. apply in_ranges_above, ranges_below_inv. Qed.
Lemma is_space_above c : B <= c -> is_space T c = false.
Proof. apply in_ranges_above, ranges_below_inv. Qed.
Lemma to_lower_above c : B <= c -> to_lower T c = c.
Proof. apply lower_of_above, ranges_below_inv. Qed.
Lemma to_lower_below c : c < B -> to_lower T c < B.
Proof. apply lower_of_below, ranges_below_inv. Qed.
Lemma punct_map_above c : B <= c -> punct_map T c = None.
Proof. apply assoc_rune_above, ranges_below_inv. Qed.
End Above.

(* ================================================================== *)
(* 3. The per-rune and the finite checks                               *)
(* ================================================================== *)

Definition mark_runes : list rune := [10; 38; 41; 45; 46; 58].

(* the fields about [to_lower T c], given [lc = to_lower T c]:
   tk_lower_idem, tk_lower_letter, tk_lower_digit, tk_digit_fix,
   tk_lower_mark, tk_lower_ci, tk_lower_adigit *)
Definition lower_checks (T : tables) (c lc : rune) : bool :=
  N.eqb (to_lower T lc) lc &&
  Bool.eqb (is_letter T lc) (is_letter T c) &&
  Bool.eqb (is_digit T lc) (is_digit T c) &&
  (negb (is_digit T c) || N.eqb lc c) &&
  forallb (fun k => Bool.eqb (N.eqb lc k) (N.eqb c k)) mark_runes &&
  forallb (fun p => Bool.eqb (ci_eq p lc) (ci_eq p c)) init_runes &&
  Bool.eqb (ascii_digit lc) (ascii_digit c).

(* all the per-rune fields at [c].  When [to_lower T c = c] the seven
   [lower_checks] hold trivially and are not evaluated; tk_letter_ok and
   tk_digit_ok are the last conjunct *)
Definition rune_ok (T : tables) (c : rune) : bool :=
  (let lc := to_lower T c in if N.eqb lc c then true else lower_checks T c lc) &&
  (negb (is_letter T c || is_digit T c) || wchar_ok T c).

(* tk_lower_http, tk_dot_ok, tk_hyphen_ok, tk_space, tk_space_nostart,
   tk_marks_letter, tk_marks_digit *)
Definition fixed_ok (T : tables) : bool :=
  N.eqb (to_lower T 104) 104 && N.eqb (to_lower T 116) 116 && N.eqb (to_lower T 112) 112 &&
  wchar_ok T 46 && wchar_ok T 45 &&
  is_space T 32 && negb (starts_word T 32) &&
  negb (is_letter T 46) && negb (is_letter T 58) && negb (is_letter T 41) &&
  negb (is_digit T 58) && negb (is_digit T 41).

(* tk_ichg_nil, tk_ichg_nonempty: no empty key, no empty value *)
Definition nonnil (w : list N) : bool := match w with [] => false | _ :: _ => true end.
Definition ichg_ok (iw : list (list N * list N)) : bool :=
  forallb (fun kv => nonnil (fst kv) && nonnil (snd kv)) iw.

(* [rune_ok] with the lookups at [c] itself made in the narrowed range lists
   (letters, digits, spaces, lower); the lookups at [to_lower T c], which
   happen only for the few runes that [to_lower] changes, use the whole tables *)
Definition nstate : Type := list (N * N) * list (N * N) * list (N * N) * list (N * N * N).
Definition narrow (a : N) (s : nstate) : nstate :=
  let '(L, D, Sp, W) := s in (drop_below a L, drop_below a D, drop_below a Sp, drop_below3 a W).
Definition rune_ok_n (T : tables) (s : nstate) (c : rune) : bool :=
  let '(L, D, Sp, W) := s in
  (let lc := lower_of W c in if N.eqb lc c then true else lower_checks T c lc) &&
  (negb (in_ranges L c || in_ranges D c) ||
   (negb (N.eqb c 10) && negb (in_ranges Sp c) && pm_id T c && negb (N.eqb c 38))).

Definition norm_tables_wf (B : N) (letters digits spaces : list (N * N)) (lower : list (N * N * N))
           (pm : list (N * list N)) (markers : list (list N))
           (iw ue : list (list N * list N)) : bool :=
  let T := mk_tables letters digits spaces lower pm markers iw ue in
  ranges_below B letters digits spaces lower pm &&
  fixed_ok T &&
  ichg_ok iw &&
  forall_below_n narrow (rune_ok_n T) (letters, digits, spaces, lower) B.

(* the same check with the plain quantifier and the plain lookups: equal
   ([norm_tables_wf_eq]) but linear in the tables at every rune *)
Definition norm_tables_wf_slow (B : N) (letters digits spaces : list (N * N)) (lower : list (N * N * N))
           (pm : list (N * list N)) (markers : list (list N))
           (iw ue : list (list N * list N)) : bool :=
  let T := mk_tables letters digits spaces lower pm markers iw ue in
  ranges_below B letters digits spaces lower pm &&
  fixed_ok T &&
  ichg_ok iw &&
  forall_below (rune_ok T) B.

Lemma narrow_ok T a s c : a <= c -> rune_ok_n T (narrow a s) c = rune_ok_n T s c.
Proof.
  intros Hc. destruct s as [[[L D] Sp] W]. unfold narrow, rune_ok_n.
  rewrite !in_ranges_drop, lower_of_drop by exact Hc. reflexivity.
Qed.

Lemma rune_ok_n_full letters digits spaces lower pm markers iw ue c :
  rune_ok_n (mk_tables letters digits spaces lower pm markers iw ue) (letters, digits, spaces, lower) c =
  rune_ok (mk_tables letters digits spaces lower pm markers iw ue) c.
Proof. reflexivity. Qed.

Lemma norm_tables_wf_eq B letters digits spaces lower pm markers iw ue :
  norm_tables_wf B letters digits spaces lower pm markers iw ue =
  norm_tables_wf_slow B letters digits spaces lower pm markers iw ue.
Proof.
  unfold norm_tables_wf, norm_tables_wf_slow. cbv zeta. f_equal.
  rewrite (forall_below_n_eq narrow _ (narrow_ok _)). reflexivity.
Qed.

(* the least bound that [ranges_below] accepts: the driver may pass it
   instead of 0x110000 (the theorem holds for any [B]) *)
Definition tables_bound (letters digits spaces : list (N * N)) (lower : list (N * N * N))
           (pm : list (N * list N)) : N :=
  let mx := fun (f : N * N -> N) l => fold_left (fun a p => N.max a (f p)) l 0 in
  N.succ (N.max (mx snd letters) (N.max (mx snd digits) (N.max (mx snd spaces)
    (N.max (fold_left (fun a p => let '(lo, hi, img) := p in N.max a (N.max hi (img + (hi - lo)))) lower 0)
           (fold_left (fun a p => N.max a (fst p)) pm 0))))).

(* ---------- the per-rune facts ---------- *)

Definition rune_facts (T : tables) (c : rune) : Prop :=
  to_lower T (to_lower T c) = to_lower T c /\
  is_letter T (to_lower T c) = is_letter T c /\
  is_digit T (to_lower T c) = is_digit T c /\
  (is_digit T c = true -> to_lower T c = c) /\
  (forall k, In k mark_runes -> (to_lower T c = k <-> c = k)) /\
  (forall p, In p init_runes -> ci_eq p (to_lower T c) = ci_eq p c) /\
  ascii_digit (to_lower T c) = ascii_digit c /\
  (is_letter T c = true -> wchar_ok T c = true) /\
  (is_digit T c = true -> wchar_ok T c = true).

Lemma word_facts T c :
  negb (is_letter T c || is_digit T c) || wchar_ok T c = true ->
  (is_letter T c = true -> wchar_ok T c = true) /\ (is_digit T c = true -> wchar_ok T c = true).
Proof.
  intros H. split; intros E; rewrite E in H; cbn in H; [exact H|].
  rewrite orb_true_r in H. exact H.
Qed.

Lemma rune_ok_facts T c : rune_ok T c = true -> rune_facts T c.
Proof.
  unfold rune_ok, rune_facts. intros H. apply andb_true_iff in H. destruct H as [Hl Hw].
  apply word_facts in Hw. destruct Hw as [Hw1 Hw2]. cbv zeta in Hl.
  destruct (N.eqb_spec (to_lower T c) c) as [E|NE].
  - rewrite !E. repeat split; auto.
  - unfold lower_checks in Hl. rewrite !andb_true_iff in Hl.
    destruct Hl as [[[[[[H1 H2] H3] H4] H5] H6] H7].
    apply N.eqb_eq in H1. apply Bool.eqb_prop in H2, H3, H7.
    repeat split; auto.
    + intros Hd. rewrite Hd in H4. cbn in H4. apply N.eqb_eq in H4. exact H4.
    + intros Ek. rewrite forallb_forall in H5. specialize (H5 k H). apply Bool.eqb_prop in H5.
      apply N.eqb_eq. rewrite <- H5. apply N.eqb_eq. exact Ek.
    + intros Ek. rewrite forallb_forall in H5. specialize (H5 k H). apply Bool.eqb_prop in H5.
      apply N.eqb_eq. rewrite H5. apply N.eqb_eq. exact Ek.
    + intros p Hp. rewrite forallb_forall in H6. apply Bool.eqb_prop, H6, Hp.
Qed.

Lemma trivial_facts T c :
  to_lower T c = c -> is_letter T c = false -> is_digit T c = false -> rune_facts T c.
Proof.
  intros E Hl Hd. unfold rune_facts. rewrite !E, Hl, Hd.
  repeat split; auto; discriminate.
Qed.

Lemma ichg_ok_nil iw : ichg_ok iw = true -> assoc_word iw [] = None.
Proof.
  induction iw as [|[k v] iw IH]; cbn [ichg_ok forallb assoc_word]; intros H; [reflexivity|].
  apply andb_true_iff in H. destruct H as [H1 H2]. cbn [fst snd] in H1.
  apply andb_true_iff in H1. destruct H1 as [Hk _].
  destruct k; [discriminate|]. cbn [list_eqb]. apply IH, H2.
Qed.

Lemma ichg_ok_nonempty iw k : ichg_ok iw = true -> assoc_word iw k <> Some [].
Proof.
  induction iw as [|[k' v] iw IH]; cbn [ichg_ok forallb assoc_word]; intros H; [discriminate|].
  apply andb_true_iff in H. destruct H as [H1 H2]. cbn [fst snd] in H1.
  apply andb_true_iff in H1. destruct H1 as [_ Hv].
  destruct (list_eqb k k'); [|apply IH, H2].
  destruct v; [discriminate|]. discriminate.
Qed.

(* ================================================================== *)
(* 4. The check implies [tables_ok]                                    *)
(* ================================================================== *)

Theorem norm_tables_wf_ok B letters digits spaces lower pm markers iw ue :
  norm_tables_wf B letters digits spaces lower pm markers iw ue = true ->
  tables_ok (mk_tables letters digits spaces lower pm markers iw ue).
Proof.
  unfold norm_tables_wf. cbv zeta.
  set (T := mk_tables letters digits spaces lower pm markers iw ue).
  intros H. rewrite !andb_true_iff in H. destruct H as [[[RB FX] IC] ALL].
  assert (RF : forall c, rune_facts T c).
  { intros c. destruct (N.lt_ge_cases c B) as [L|G].
    - apply rune_ok_facts. unfold T. rewrite <- rune_ok_n_full.
      exact (forall_below_n_sound narrow _ (narrow_ok _) _ _ ALL c L).
    - apply trivial_facts.
      + exact (to_lower_above B letters digits spaces lower pm markers iw ue RB c G).
      + exact (is_letter_above B letters digits spaces lower pm markers iw ue RB c G).
      + exact (is_digit_above B letters digits spaces lower pm markers iw ue RB c G). }
  unfold fixed_ok in FX. rewrite !andb_true_iff, !negb_true_iff, !N.eqb_eq in FX.
  destruct FX as [[[[[[[[[[[F1 F2] F3] F4] F5] F6] F7] F8] F9] F10] F11] F12].
  constructor.
  - intros c. apply (RF c).
  - intros c. apply (RF c).
  - intros c. apply (RF c).
  - intros c. apply (RF c).
  - intros c k. apply (RF c).
  - intros c p. apply (RF c).
  - intros c. apply (RF c).
  - repeat split; assumption.
  - intros c. apply (RF c).
  - intros c. apply (RF c).
  - exact F4.
  - exact F5.
  - exact F6.
  - exact F7.
  - repeat split; assumption.
  - repeat split; assumption.
  - intros w Hw. unfold T, mk_tables. cbn [unescape]. unfold AMP. rewrite Hw. reflexivity.
  - unfold T, mk_tables. cbn [interchangeable]. apply ichg_ok_nil, IC.
  - intros k. unfold T, mk_tables. cbn [interchangeable]. apply ichg_ok_nonempty, IC.
Qed.

(* ================================================================== *)
(* 5. C11 for every table that passes the check                        *)
(* ================================================================== *)

Theorem C11_for_checked_tables B letters digits spaces lower pm markers iw ue :
  norm_tables_wf B letters digits spaces lower pm markers iw ue = true ->
  let T := mk_tables letters digits spaces lower pm markers iw ue in
  forall rs,
  flushes_ok T init_state rs = true ->
  canon_resid T 1 [] (d_toks (tokenize_runes T false rs)) = true ->
  d_toks (tokenize_runes T true (normalize_out (d_toks (tokenize_runes T false rs)))) =
  d_toks (tokenize_runes T true rs) /\
  d_matches (tokenize_runes T true (normalize_out (d_toks (tokenize_runes T false rs)))) = [].
Proof.
  intros H T rs. apply C11_restricted. apply (norm_tables_wf_ok _ _ _ _ _ _ _ _ _ H).
Qed.

(* ================================================================== *)
(* 6. The check is satisfiable and runs                                *)
(* ================================================================== *)

Module Small.
Definition B : N := 8500.
Definition letters : list (N * N) := [(65, 90); (97, 122); (170, 170); (181, 181); (186, 186);
                                      (192, 214); (216, 246); (248, 705); (8490, 8490)].
Definition digits : list (N * N) := [(48, 57); (1632, 1641)].
Definition spaces : list (N * N) := [(9, 13); (32, 32); (133, 133); (160, 160); (5760, 5760); (8192, 8202)].
Definition lower : list (N * N * N) := [(65, 90, 97); (192, 214, 224); (216, 222, 248); (256, 256, 257);
                                        (304, 304, 105); (8490, 8490, 107)].
(* EN DASH -> "-", LEFT DOUBLE QUOTATION MARK -> QUOTATION MARK, '-' -> "-" *)
Definition pm : list (N * list N) := [(45, [45]); (8211, [45]); (8220, [34])].
(* "a", "ii" *)
Definition markers : list (list N) := [[97]; [105; 105]].
(* "licence" -> "license", "per cent" is not a word; "centre" -> "center" *)
Definition iw : list (list N * list N) :=
  [([108; 105; 99; 101; 110; 99; 101], [108; 105; 99; 101; 110; 115; 101]);
   ([99; 101; 110; 116; 114; 101], [99; 101; 110; 116; 101; 114])].
Definition ue : list (list N * list N) := [].

Example small_wf : norm_tables_wf B letters digits spaces lower pm markers iw ue = true.
Proof. vm_compute. reflexivity. Qed.

Example small_bound : tables_bound letters digits spaces lower pm = 8491.
Proof. vm_compute. reflexivity. Qed.

Example small_wf_at_bound :
  norm_tables_wf (tables_bound letters digits spaces lower pm) letters digits spaces lower pm markers iw ue = true.
Proof. vm_compute. reflexivity. Qed.

Example small_tables_ok : tables_ok (mk_tables letters digits spaces lower pm markers iw ue).
Proof. apply (norm_tables_wf_ok B). exact small_wf. Qed.

(* the check is not vacuous: each of these breaks one field *)
(* '.' mapped to something else: tk_dot_ok *)
Example small_bad_dot :
  norm_tables_wf B letters digits spaces lower ((46, [33]) :: pm) markers iw ue = false.
Proof. vm_compute. reflexivity. Qed.
(* ToLower not idempotent (256 -> 257 -> 258): tk_lower_idem *)
Example small_bad_idem :
  norm_tables_wf B letters digits spaces [(65, 90, 97); (256, 256, 257); (257, 257, 258)] pm markers iw ue = false.
Proof. vm_compute. reflexivity. Qed.
(* a letter that is also a space: tk_letter_ok *)
Example small_bad_space :
  norm_tables_wf B letters digits ((9, 13) :: (32, 32) :: (97, 97) :: nil) lower pm markers iw ue = false.
Proof. vm_compute. reflexivity. Qed.
(* a range above the bound *)
Example small_bad_bound :
  norm_tables_wf B (letters ++ [(9000, 9001)]) digits spaces lower pm markers iw ue = false.
Proof. vm_compute. reflexivity. Qed.
(* an interchangeable word mapped to the empty word: tk_ichg_nonempty *)
Example small_bad_ichg :
  norm_tables_wf B letters digits spaces lower pm markers (([120], []) :: iw) ue = false.
Proof. vm_compute. reflexivity. Qed.
(* U+0130 -> 'i' is fine ('i' is not an initial rune of the ignorable
   expressions) but U+0130 -> 'c' is not: tk_lower_ci *)
Example small_bad_ci :
  norm_tables_wf B letters digits spaces [(65, 90, 97); (304, 304, 99)] pm markers iw ue = false.
Proof. vm_compute. reflexivity. Qed.
End Small.

(* the quantifier scales: all the 0x110000 runes *)
Time Eval vm_compute in forall_below (fun _ => true) 1114112.
Time Eval vm_compute in forall_below (fun c => c <? 1114112) 1114112.
Time Eval vm_compute in forall_below (fun c => c <? 1114111) 1114112.

Print Assumptions forall_below_sound.
Print Assumptions norm_tables_wf_ok.
Print Assumptions C11_for_checked_tables.
