(* When does a candidate SURVIVE the overlap/containment filter of
   v2/classifier.go (model: Match.filter_candidates, position-free form
   FilterProof.stepR)?

     K1  stepR_keeps_old, stepR_adds        one turn of the loop
     K2  fold_keeps                         a retained candidate stays as long as nobody evicts it
     K3  survives                           c is reported when no candidate retained before its
                                            turn blocks it and no later candidate evicts it
     K4  line geometry of blocks / evicts
           disjoint_lines_harmless          disjoint line ranges never interact
           last_line_not_blocked            the StartLine == EndLine exception
           one_line_pair_conflict           two candidates on one line: the one with the strictly
                                            smaller token-weighted confidence is dropped
           evicts_needs_containment
     K5  survives_last_line (+ _l1 variant with the hypothesis on all of l1)
     K6  vm_compute examples

   The only float fact used is the asymmetry of [flt] (flt_asym), proved here by
   case analysis on SpecFloat.SFcompare for ARBITRARY spec_float values (no
   validity / finiteness hypothesis, no real numbers).
   No Axiom / Parameter / Admitted / admit. *)
From Coq Require Import List NArith ZArith Bool Lia SpecFloat.
Import ListNotations.
From LC.Base Require Import Float64 Sort.
From LC.V2 Require Import SSet Match MatchWF Planted FilterProof.

(* ================================================================== *)
(* K1. one turn                                                         *)
(* ================================================================== *)

Lemma stepR_keeps_old c S o :
  In o S -> evicts c o = false -> In o (stepR c S).
Proof.
  intros Hin Hev. unfold stepR.
  destruct (forallb (fun o0 => negb (blocks c o0)) S); [|exact Hin].
  apply in_or_app. left. apply filter_In. split; [exact Hin|].
  rewrite Hev. reflexivity.
Qed.

Lemma stepR_adds c S :
  forallb (fun o => negb (blocks c o)) S = true -> In c (stepR c S).
Proof.
  intros Hk. unfold stepR. rewrite Hk.
  apply in_or_app. right. left. reflexivity.
Qed.

(* ================================================================== *)
(* K2. the rest of the loop                                             *)
(* ================================================================== *)

Lemma fold_keeps l2 : forall S o,
  In o S ->
  (forall c', In c' l2 -> evicts c' o = false) ->
  In o (fold_left (fun S c => stepR c S) l2 S).
Proof.
  induction l2 as [|c' rest IH]; intros S o Hin Hev; [exact Hin|].
  cbn [fold_left]. apply IH.
  - apply stepR_keeps_old; [exact Hin|]. apply Hev. left. reflexivity.
  - intros c'' Hc''. apply Hev. right. exact Hc''.
Qed.

(* ================================================================== *)
(* K3. survival                                                         *)
(* ================================================================== *)

Theorem survives : forall l1 c l2,
  (forall o, In o (filter_candidates l1) -> blocks c o = false) ->
  (forall c', In c' l2 -> evicts c' c = false) ->
  In c (filter_candidates (l1 ++ c :: l2)).
Proof.
  intros l1 c l2 Hblk Hev.
  rewrite filter_candidates_fold, fold_left_app. cbn [fold_left].
  rewrite <- filter_candidates_fold.
  apply fold_keeps; [|exact Hev].
  apply stepR_adds. apply forallb_forall. intros o Ho.
  rewrite (Hblk o Ho). reflexivity.
Qed.

(* the hypothesis on l1 may be stated on ALL earlier candidates, retained or not *)
Corollary survives_l1 : forall l1 c l2,
  (forall o, In o l1 -> blocks c o = false) ->
  (forall c', In c' l2 -> evicts c' c = false) ->
  In c (filter_candidates (l1 ++ c :: l2)).
Proof.
  intros l1 c l2 Hblk Hev. apply survives; [|exact Hev].
  intros o Ho. apply Hblk. exact (sublist_In _ _ (filter_candidates_sublist l1) o Ho).
Qed.

(* ================================================================== *)
(* K4. line geometry                                                    *)
(* ================================================================== *)
Section Geometry.
Local Open Scope Z_scope.

Lemma mcontains_true_iff a b :
  mcontains a b = true <-> m_sl a <= m_sl b /\ m_el b <= m_el a.
Proof.
  unfold mcontains. rewrite andb_true_iff, !Z.leb_le. reflexivity.
Qed.

Lemma mcontains_false_iff a b :
  mcontains a b = false <-> m_sl b < m_sl a \/ m_el a < m_el b.
Proof.
  unfold mcontains. rewrite andb_false_iff, !Z.leb_gt. reflexivity.
Qed.

Lemma overlaps_false_iff a b :
  overlaps a b = false <->
  (m_sl a < m_sl b \/ m_el b < m_sl a) /\ (m_el a < m_sl b \/ m_el b < m_el a).
Proof.
  unfold overlaps, between.
  rewrite orb_false_iff, !andb_false_iff, !Z.leb_gt. reflexivity.
Qed.

Lemma evicts_needs_containment c' c : evicts c' c = true -> mcontains c' c = true.
Proof. unfold evicts. intros H. apply andb_true_iff in H. apply H. Qed.

Lemma not_contained_not_evicted c' c : mcontains c' c = false -> evicts c' c = false.
Proof. unfold evicts. intros ->. reflexivity. Qed.

Lemma not_lighter_not_evicted c' c : flt (wconf c) (wconf c') = false -> evicts c' c = false.
Proof. unfold evicts. intros ->. apply andb_false_r. Qed.

(* candidates with disjoint line ranges are harmless to each other *)
Lemma disjoint_blocks_false c o :
  (m_el o < m_sl c \/ m_el c < m_sl o) ->
  m_sl c <= m_el c -> m_sl o <= m_el o ->
  blocks c o = false /\ evicts c o = false.
Proof.
  intros Hd Hc Ho.
  assert (Hm : mcontains c o = false) by (apply mcontains_false_iff; lia).
  assert (Hov : overlaps c o = false) by (apply overlaps_false_iff; lia).
  unfold blocks, evicts. rewrite Hm, Hov. split; reflexivity.
Qed.

Lemma disjoint_lines_harmless c o :
  (m_el o < m_sl c \/ m_el c < m_sl o) ->
  m_sl c <= m_el c -> m_sl o <= m_el o ->
  blocks c o = false /\ evicts c o = false /\ blocks o c = false /\ evicts o c = false.
Proof.
  intros Hd Hc Ho.
  destruct (disjoint_blocks_false c o Hd Hc Ho) as [H1 H2].
  assert (Hd' : m_el c < m_sl o \/ m_el o < m_sl c) by lia.
  destruct (disjoint_blocks_false o c Hd' Ho Hc) as [H3 H4].
  repeat split; assumption.
Qed.

(* The StartLine == EndLine exception.  [mcontains c o] says that c's line range
   CONTAINS o's (first argument = container): m_sl c <= m_sl o /\ m_el o <= m_el c.
   With m_sl c = m_el o and o multi-line (m_sl o < m_el o) we get m_sl o < m_sl c, so
   c does NOT contain o and the second branch of [blocks] applies, whose guard
   negb (m_sl c =? m_el o) is false.  The hypothesis m_sl c <= m_el c of the requested
   statement is kept for uniformity but is not used. *)
Lemma last_line_not_contains c o :
  m_sl c = m_el o -> m_sl o < m_el o -> mcontains c o = false.
Proof. intros He Hm. apply mcontains_false_iff. lia. Qed.

Lemma last_line_not_blocked c o :
  m_sl c = m_el o -> m_sl o < m_el o -> m_sl c <= m_el c -> blocks c o = false.
Proof.
  intros He Hm _. unfold blocks. rewrite (last_line_not_contains c o He Hm).
  replace (m_sl c =? m_el o) with true by (symmetry; apply Z.eqb_eq; exact He).
  apply andb_false_r.
Qed.

Lemma last_line_not_evicts c o :
  m_sl c = m_el o -> m_sl o < m_el o -> evicts c o = false.
Proof. intros He Hm. apply not_contained_not_evicted, last_line_not_contains; assumption. Qed.

(* the exception in full generality: c does not contain o and starts on o's last line *)
Lemma start_on_end_not_blocked c o :
  mcontains c o = false -> m_sl c = m_el o -> blocks c o = false.
Proof.
  intros Hm He. unfold blocks. rewrite Hm.
  replace (m_sl c =? m_el o) with true by (symmetry; apply Z.eqb_eq; exact He).
  apply andb_false_r.
Qed.

End Geometry.

(* ---- the only float fact: flt is asymmetric, for arbitrary spec_float values ---- *)
Lemma flt_asym a b : flt a b = true -> flt b a = false.
Proof.
  unfold flt, SFltb, SFcompare.
  destruct a as [sa|sa| |sa ma ea], b as [sb|sb| |sb mb eb];
    try (intros H; discriminate H); try reflexivity;
    try (destruct sa; intros H; (discriminate H || reflexivity));
    try (destruct sb; intros H; (discriminate H || reflexivity));
    try (destruct sa, sb; intros H; (discriminate H || reflexivity)).
  destruct sa, sb; try (intros H; (discriminate H || reflexivity)).
  - rewrite (Z.compare_antisym ea eb).
    destruct (ea ?= eb)%Z; cbn [CompOpp]; try (intros H; (discriminate H || reflexivity)).
    pose proof (Pos.compare_cont_antisym ma mb Eq) as Hp. cbn [CompOpp] in Hp. rewrite <- Hp.
    destruct (Pos.compare_cont Eq ma mb); cbn [CompOpp]; intros H; (discriminate H || reflexivity).
  - rewrite (Z.compare_antisym ea eb).
    destruct (ea ?= eb)%Z; cbn [CompOpp]; try (intros H; (discriminate H || reflexivity)).
    pose proof (Pos.compare_cont_antisym ma mb Eq) as Hp. cbn [CompOpp] in Hp. rewrite <- Hp.
    destruct (Pos.compare_cont Eq ma mb); cbn [CompOpp]; intros H; (discriminate H || reflexivity).
Qed.

Lemma flt_irrefl a : flt a a = false.
Proof. destruct (flt a a) eqn:E; [|reflexivity]. rewrite (flt_asym a a E) in E. discriminate. Qed.

(* when c contains o, the verdict is the strict comparison of the weighted confidences *)
Lemma contains_blocks_eq c o :
  mcontains c o = true -> blocks c o = flt (wconf c) (wconf o).
Proof.
  intros Hm. unfold blocks. rewrite Hm.
  destruct (flt (wconf c) (wconf o)) eqn:E; [|apply andb_false_r].
  rewrite (flt_asym _ _ E). reflexivity.
Qed.

Lemma evicts_self c : evicts c c = false.
Proof. unfold evicts. rewrite flt_irrefl. apply andb_false_r. Qed.

Section OneLine.
Local Open Scope Z_scope.

(* known finding "two copies on one line": both candidates lie wholly on the same single
   line; each contains the other; c is rejected by a retained o exactly when c's
   token-weighted confidence is STRICTLY smaller, and a kept c evicts o exactly when o's is
   strictly smaller; so of two such candidates with different weighted confidences only the
   heavier one is reported, whichever comes first. *)
Theorem one_line_pair_conflict c o :
  m_sl c = m_el c -> m_sl o = m_el o -> m_sl c = m_sl o ->
  mcontains c o = true /\ mcontains o c = true /\
  (blocks c o = true <-> flt (wconf c) (wconf o) = true) /\
  (evicts c o = true <-> flt (wconf o) (wconf c) = true) /\
  (flt (wconf c) (wconf o) = true -> blocks c o = true /\ evicts o c = true) /\
  (flt (wconf o) (wconf c) = true -> blocks c o = false /\ evicts c o = true).
Proof.
  intros Hc Ho Hs.
  assert (H1 : mcontains c o = true) by (apply mcontains_true_iff; lia).
  assert (H2 : mcontains o c = true) by (apply mcontains_true_iff; lia).
  split; [exact H1|]. split; [exact H2|].
  rewrite (contains_blocks_eq c o H1). unfold evicts. rewrite H1, H2. cbn [andb].
  split; [reflexivity|]. split; [reflexivity|]. split.
  - intros E. split; assumption.
  - intros E. split; [apply flt_asym|]; assumption.
Qed.

(* the pair, run through the filter: in either order only the heavier one is reported *)
Corollary one_line_pair_filter c o :
  m_sl c = m_el c -> m_sl o = m_el o -> m_sl c = m_sl o ->
  flt (wconf c) (wconf o) = true ->
  filter_candidates [o; c] = [o] /\ filter_candidates [c; o] = [o].
Proof.
  intros Hc Ho Hs E.
  destruct (one_line_pair_conflict c o Hc Ho Hs) as (_ & _ & _ & _ & H & _).
  destruct (H E) as [Hb He].
  assert (Hs' : m_sl o = m_sl c) by lia.
  destruct (one_line_pair_conflict o c Ho Hc Hs') as (_ & _ & _ & _ & _ & H').
  destruct (H' E) as [Hb' _].
  rewrite !filter_candidates_fold. cbn [fold_left]. unfold stepR.
  cbn [forallb filter app]. rewrite Hb, Hb', He. cbn [negb andb app filter].
  split; reflexivity.
Qed.

End OneLine.

(* ================================================================== *)
(* K5. an exact copy next to / on the last line of another match        *)
(* ================================================================== *)
Section LastLine.
Local Open Scope Z_scope.

(* o is harmless for c: lines disjoint, or o is multi-line and c starts on o's last line *)
Definition beside_or_last_line (c o : mtch) : Prop :=
  (m_sl o <= m_el o /\ (m_el o < m_sl c \/ m_el c < m_sl o)) \/
  (m_sl o < m_el o /\ m_sl c = m_el o).

Lemma beside_or_last_line_not_blocked c o :
  m_sl c <= m_el c -> beside_or_last_line c o -> blocks c o = false.
Proof.
  intros Hc [[Ho Hd]|[Hm He]].
  - apply (disjoint_lines_harmless c o Hd Hc Ho).
  - apply last_line_not_blocked; assumption.
Qed.

(* c' cannot evict c: its lines do not contain c's, or it is not strictly heavier *)
Definition cannot_evict (c' c : mtch) : Prop :=
  mcontains c' c = false \/ flt (wconf c) (wconf c') = false.

Lemma cannot_evict_sound c' c : cannot_evict c' c -> evicts c' c = false.
Proof.
  intros [H|H]; [apply not_contained_not_evicted|apply not_lighter_not_evicted]; exact H.
Qed.

Theorem survives_last_line : forall l1 c l2,
  m_sl c <= m_el c ->
  (forall o, In o (filter_candidates l1) -> beside_or_last_line c o) ->
  (forall c', In c' l2 -> cannot_evict c' c) ->
  In c (filter_candidates (l1 ++ c :: l2)).
Proof.
  intros l1 c l2 Hc H1 H2. apply survives.
  - intros o Ho. apply beside_or_last_line_not_blocked; [exact Hc|apply H1; exact Ho].
  - intros c' Hc'. apply cannot_evict_sound, H2, Hc'.
Qed.

(* the same with the hypothesis on every earlier candidate, and the later candidates
   simply not containing c's lines *)
Corollary survives_last_line_l1 : forall l1 c l2,
  m_sl c <= m_el c ->
  (forall o, In o l1 -> beside_or_last_line c o) ->
  (forall c', In c' l2 -> mcontains c' c = false) ->
  In c (filter_candidates (l1 ++ c :: l2)).
Proof.
  intros l1 c l2 Hc H1 H2. apply survives_last_line; [exact Hc| |].
  - intros o Ho. apply H1. exact (sublist_In _ _ (filter_candidates_sublist l1) o Ho).
  - intros c' Hc'. left. apply H2, Hc'.
Qed.

End LastLine.

(* ================================================================== *)
(* K6. examples                                                         *)
(* ================================================================== *)
Section KeepExamples.
Local Open Scope Z_scope.

(* mk conf start_line end_line start_token end_token  (FilterProof.mk) *)
Definition kA := mk fone 1 5 0 50.     (* lines 1-5, confidence 1.0 *)
Definition kB := mk fone 5 5 50 60.    (* one line: line 5, the last line of kA *)
Definition kD := mk fone 7 9 70 100.   (* lines 7-9, unrelated *)

Example ex_last_line_kept :
  filter_candidates [kA; kB; kD] = [kA; kB; kD] /\
  blocks kB kA = false /\ overlaps kB kA = true /\ mcontains kB kA = false.
Proof. vm_compute. repeat split; reflexivity. Qed.

(* ... and it is an instance of survives_last_line *)
Example ex_last_line_by_theorem : In kB (filter_candidates ([kA] ++ kB :: [kD])).
Proof.
  apply survives_last_line_l1.
  - vm_compute. discriminate.
  - intros o [<-|[]]. right. split; vm_compute; reflexivity.
  - intros c' [<-|[]]. vm_compute. reflexivity.
Qed.

(* the multi-line hypothesis of last_line_not_blocked is needed: if o lies on ONE line and c
   starts there, then c contains o and is rejected when its weighted confidence is smaller
   (kP: 10 tokens, kQ: 30 tokens, both on line 3, both confidence 1.0) *)
Definition kP := mk fone 3 3 0 10.
Definition kQ := mk fone 3 3 10 40.

Example ex_one_line_pair :
  filter_candidates [kP; kQ] = [kQ] /\ filter_candidates [kQ; kP] = [kQ] /\
  m_sl kP = m_el kQ /\ blocks kP kQ = true /\ evicts kQ kP = true /\
  flt (wconf kP) (wconf kQ) = true.
Proof. vm_compute. repeat split; reflexivity. Qed.

(* a longer one-line candidate whose line range extends past the shared line: the short
   one-line candidate kP starts on kR's FIRST line, not its last: rejected (overlap) *)
Definition kR := mk fone 3 4 10 40.
Example ex_first_line_blocked :
  filter_candidates [kR; kP] = [kR] /\ blocks kP kR = true /\ mcontains kP kR = false.
Proof. vm_compute. repeat split; reflexivity. Qed.

End KeepExamples.

Print Assumptions survives.
Print Assumptions survives_last_line.
Print Assumptions survives_last_line_l1.
Print Assumptions one_line_pair_conflict.
Print Assumptions one_line_pair_filter.
Print Assumptions flt_asym.
