(* Concrete [tables] built from data dumped from the running Go code on every
   check: Unicode range tables (unicode.IsLetter/IsDigit/IsSpace, ToLower as
   (lo, hi, target-of-lo) ranges with constant offset), punctuationMappings,
   listMarker, interchangeableWords, and the finite html.UnescapeString table
   for the raw tokens of the run.  All lookups are Gallina. *)
From Coq Require Import List NArith Bool.
Import ListNotations.
From LC.Base Require Import Utf8.
From LC.V2 Require Import Tok.
Local Open Scope N_scope.

(* sorted, disjoint inclusive ranges *)
Fixpoint in_ranges (l : list (N * N)) (r : N) : bool :=
  match l with
  | [] => false
  | (lo, hi) :: rest => if r <? lo then false else if r <=? hi then true else in_ranges rest r
  end.

(* (lo, hi, image of lo): r in [lo,hi] maps to image + (r - lo); stride-2 cases are dumped as singletons *)
Fixpoint lower_of (l : list (N * N * N)) (r : N) : N :=
  match l with
  | [] => r
  | (lo, hi, img) :: rest => if r <? lo then r else if r <=? hi then img + (r - lo) else lower_of rest r
  end.

Fixpoint list_eqb (a b : list N) : bool :=
  match a, b with
  | [], [] => true
  | x :: a', y :: b' => N.eqb x y && list_eqb a' b'
  | _, _ => false
  end.

Fixpoint assoc_word {B} (l : list (list N * B)) (k : list N) : option B :=
  match l with
  | [] => None
  | (k', v) :: rest => if list_eqb k k' then Some v else assoc_word rest k
  end.

Fixpoint assoc_rune {B} (l : list (N * B)) (k : N) : option B :=
  match l with
  | [] => None
  | (k', v) :: rest => if N.eqb k k' then Some v else assoc_rune rest k
  end.

Definition AMP : rune := 38.

Definition mk_tables (letters digits spaces : list (N * N)) (lower : list (N * N * N))
           (pm : list (N * list N)) (markers : list (list N))
           (iw : list (list N * list N)) (ue : list (list N * list N)) : tables :=
  {| is_letter := in_ranges letters;
     is_digit := in_ranges digits;
     is_space := in_ranges spaces;
     to_lower := lower_of lower;
     punct_map := assoc_rune pm;
     is_list_marker := fun w => existsb (list_eqb w) markers;
     interchangeable := assoc_word iw;
     (* html.UnescapeString is the identity on strings without '&' *)
     unescape := fun w => if existsb (N.eqb AMP) w
                          then match assoc_word ue w with Some v => v | None => w end
                          else w |}.

(* raw tokens containing '&' in the order flushBuf sees them (phase 1 of the
   unescape oracle): run the state machine with the identity table and record *)
Definition has_amp (w : list rune) : bool := existsb (N.eqb AMP) w.
