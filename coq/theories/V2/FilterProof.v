(* Semantic facts about the overlap/containment filter of v2/classifier.go
   (the "retain loop" of match; model: Match.filter_candidates), for EVERY
   candidate list, no bound on its length.

   The index-based model (retain_inner collects the indices it proposes to
   clear, clear_at applies them) is first shown equal to a position-free step
   function:

     F0  retain_inner_keep, retain_inner_props_iff, clear_at_evf, retain_loop_cons
           one turn of the loop is [step c done] =
             (if keepb c done then map (evf c) done else done) ++ [(c, keepb c done)]
     F0' filter_candidates_fold
           filter_candidates l = fold_left (fun S c => stepR c S) l []
           where stepR works on the list of retained candidates only

   and then
     F1  filter_rejected_irrelevant (list level), filter_rejected_irrelevant_flags
         (retain bit-vector level), ex_rejected_with_proposal (non-vacuity)
     F2  filter_idempotent
     F3  filter_prefix_stable (sub-list level), filter_prefix_stable_flags (bit-vector level)
     F4  filter_result_pairwise / filter_result_contains / filter_result_overlaps
         (no later result beats or is beaten by an earlier result it contains; a later result
         only touches an earlier one it does not contain at the single line m_sl c = m_el o),
         filter_fixpoint_iff (the results of the filter are exactly its fixed points)

   The float comparison [flt] is treated as an opaque boolean throughout (no
   float lemma is used).  No Axiom / Parameter / Admitted / admit. *)
From Coq Require Import List NArith ZArith Bool Lia.
Import ListNotations.
From LC.Base Require Import Float64 Sort.
From LC.V2 Require Import SSet Match MatchWF Planted.

(* ================================================================== *)
(* F0. one turn of the loop, position-free                              *)
(* ================================================================== *)

(* c is rejected because of the (retained) earlier candidate o *)
Definition blocks (c o : mtch) : bool :=
  if mcontains c o then negb (flt (wconf o) (wconf c)) && flt (wconf c) (wconf o)
  else overlaps c o && negb (m_sl c =? m_el o)%Z.

(* c, if it survives, evicts the (retained) earlier candidate o *)
Definition evicts (c o : mtch) : bool := mcontains c o && flt (wconf o) (wconf c).

Definition keepb (c : mtch) (done : list (mtch * bool)) : bool :=
  forallb (fun p => negb (snd p && blocks c (fst p))) done.

Definition evf (c : mtch) (p : mtch * bool) : mtch * bool :=
  (fst p, snd p && negb (evicts c (fst p))).

Definition step (c : mtch) (done : list (mtch * bool)) : list (mtch * bool) :=
  (if keepb c done then map (evf c) done else done) ++ [(c, keepb c done)].

Lemma retain_inner_keep c prev : forall j props,
  fst (retain_inner c prev j props) = keepb c prev.
Proof.
  induction prev as [|[o ret] rest IH]; intros j props; [reflexivity|].
  rewrite retain_inner_cons. unfold keepb. cbn [forallb fst snd]. fold (keepb c rest).
  unfold blocks.
  destruct ret; rewrite ?andb_true_r, ?andb_false_r; cbn [andb negb]; [|apply IH].
  destruct (mcontains c o).
  - destruct (flt (wconf o) (wconf c)); cbn [negb andb]; [apply IH|].
    destruct (flt (wconf c) (wconf o)); cbn [negb andb]; [reflexivity|apply IH].
  - destruct (overlaps c o); cbn [andb negb]; [|apply IH].
    destruct (negb (m_sl c =? m_el o)%Z); cbn [negb andb]; [reflexivity|apply IH].
Qed.

(* if c survives, its proposals are exactly the retained earlier candidates it evicts *)
Lemma retain_inner_props_iff c prev : forall j props,
  keepb c prev = true ->
  forall i, In i (snd (retain_inner c prev j props)) <->
            In i props \/ exists k o, i = (j + k)%nat /\ nth_error prev k = Some (o, true) /\ evicts c o = true.
Proof.
  induction prev as [|[o ret] rest IH]; intros j props Hk i.
  - cbn [retain_inner snd]. split; [left; assumption|].
    intros [H|(k & o & _ & Hn & _)]; [assumption|destruct k; discriminate].
  - unfold keepb in Hk. cbn [forallb fst snd] in Hk. fold (keepb c rest) in Hk.
    apply andb_true_iff in Hk. destruct Hk as [Hb Hk].
    assert (Hskip : evicts c o && ret = false ->
              forall props0, (forall i0, In i0 props0 <-> In i0 props) ->
              (In i (snd (retain_inner c rest (S j) props0)) <->
               In i props \/ exists k o', i = (j + k)%nat /\
                  nth_error ((o, ret) :: rest) k = Some (o', true) /\ evicts c o' = true)).
    { intros He props0 Hp. rewrite (IH (S j) props0 Hk i). rewrite Hp. split.
      - intros [H|(k & o' & -> & Hn & Hev)]; [left; assumption|].
        right. exists (S k), o'. split; [lia|]. split; assumption.
      - intros [H|(k & o' & -> & Hn & Hev)]; [left; assumption|].
        destruct k as [|k].
        + cbn in Hn. injection Hn as <- ->. rewrite Hev in He. discriminate.
        + right. exists k, o'. split; [lia|]. split; assumption. }
    assert (Htake : evicts c o && ret = true ->
              (In i (snd (retain_inner c rest (S j) (j :: props))) <->
               In i props \/ exists k o', i = (j + k)%nat /\
                  nth_error ((o, ret) :: rest) k = Some (o', true) /\ evicts c o' = true)).
    { intros He. apply andb_true_iff in He. destruct He as [He ->].
      rewrite (IH (S j) (j :: props) Hk i). split.
      - intros [[<-|H]|(k & o' & -> & Hn & Hev)].
        + right. exists 0%nat, o. split; [lia|]. split; [reflexivity|assumption].
        + left. assumption.
        + right. exists (S k), o'. split; [lia|]. split; assumption.
      - intros [H|(k & o' & -> & Hn & Hev)]; [left; right; assumption|].
        destruct k as [|k].
        + left. left. lia.
        + right. exists k, o'. split; [lia|]. split; assumption. }
    rewrite retain_inner_cons. unfold blocks in Hb. unfold evicts in Hskip, Htake.
    destruct ret; rewrite ?andb_true_r, ?andb_false_r in *; cbn [andb negb] in *.
    2:{ apply Hskip; [reflexivity|intros; reflexivity]. }
    destruct (mcontains c o); cbn [andb] in *.
    + destruct (flt (wconf o) (wconf c)); cbn [negb andb] in *.
      * apply Htake. reflexivity.
      * destruct (flt (wconf c) (wconf o)); [discriminate|].
        apply Hskip; [reflexivity|intros; reflexivity].
    + destruct (overlaps c o); cbn [andb] in *.
      * destruct (negb (m_sl c =? m_el o)%Z); [discriminate|].
        apply Hskip; [reflexivity|intros; reflexivity].
      * apply Hskip; [reflexivity|intros; reflexivity].
Qed.

Lemma clear_at_evf c l : forall i0 js,
  (forall k o r, nth_error l k = Some (o, r) ->
     existsb (Nat.eqb (i0 + k)) js = r && evicts c o) ->
  clear_at l i0 js = map (evf c) l.
Proof.
  induction l as [|[m r] rest IH]; intros i0 js H; [reflexivity|].
  cbn [clear_at map]. f_equal.
  - unfold evf. cbn [fst snd]. f_equal.
    specialize (H 0%nat m r eq_refl). rewrite Nat.add_0_r in H. rewrite H.
    destruct r, (evicts c m); reflexivity.
  - apply IH. intros k o r' Hn. replace (S i0 + k)%nat with (i0 + S k)%nat by lia.
    apply H. exact Hn.
Qed.

Lemma retain_loop_cons c rest done :
  retain_loop (c :: rest) done = retain_loop rest (step c done).
Proof.
  cbn [retain_loop]. unfold step.
  pose proof (retain_inner_keep c done 0 []) as Hk.
  pose proof (retain_inner_props_iff c done 0 []) as Hp.
  destruct (retain_inner c done 0 []) as [keep props]. cbn [fst snd] in Hk, Hp.
  subst keep. destruct (keepb c done) eqn:Ek; [|reflexivity].
  specialize (Hp eq_refl). do 2 f_equal.
  apply clear_at_evf. intros k o r Hn. cbn [Nat.add].
  destruct (existsb (Nat.eqb k) props) eqn:Ex.
  - apply existsb_exists in Ex. destruct Ex as (i & Hi & Ei). apply Nat.eqb_eq in Ei. subst i.
    apply Hp in Hi. destruct Hi as [[]|(k' & o' & E & Hn' & Hev)].
    cbn [Nat.add] in E. subst k'. rewrite Hn in Hn'. injection Hn' as -> ->.
    rewrite Hev. reflexivity.
  - destruct r; [|reflexivity]. destruct (evicts c o) eqn:Ev; [|reflexivity].
    assert (Hin : In k props).
    { apply Hp. right. exists k, o. split; [reflexivity|]. split; assumption. }
    assert (Ht : existsb (Nat.eqb k) props = true).
    { apply existsb_exists. exists k. split; [assumption|apply Nat.eqb_refl]. }
    congruence.
Qed.

Lemma retain_loop_fold todo : forall done,
  retain_loop todo done = fold_left (fun d c => step c d) todo done.
Proof.
  induction todo as [|c rest IH]; intros done; [reflexivity|].
  rewrite retain_loop_cons. apply IH.
Qed.

(* ---- the same on the list of retained candidates ---- *)
Definition retained (done : list (mtch * bool)) : list mtch := map fst (filter snd done).

Definition stepR (c : mtch) (S : list mtch) : list mtch :=
  if forallb (fun o => negb (blocks c o)) S
  then filter (fun o => negb (evicts c o)) S ++ [c]
  else S.

Lemma keepb_retained c done :
  keepb c done = forallb (fun o => negb (blocks c o)) (retained done).
Proof.
  unfold keepb, retained. induction done as [|[o r] rest IH]; [reflexivity|].
  cbn [forallb filter fst snd]. destruct r; cbn [andb negb map forallb fst]; rewrite IH; reflexivity.
Qed.

Lemma retained_evf c done :
  retained (map (evf c) done) = filter (fun o => negb (evicts c o)) (retained done).
Proof.
  unfold retained. induction done as [|[o r] rest IH]; [reflexivity|].
  cbn [map filter]. unfold evf at 1. cbn [fst snd].
  destruct r; cbn [andb]; [|exact IH].
  cbn [map filter fst]. destruct (evicts c o); cbn [negb map fst]; rewrite IH; reflexivity.
Qed.

Lemma retained_app d1 d2 : retained (d1 ++ d2) = retained d1 ++ retained d2.
Proof. unfold retained. rewrite filter_app, map_app. reflexivity. Qed.

Lemma retained_step c done : retained (step c done) = stepR c (retained done).
Proof.
  unfold step, stepR. rewrite retained_app, <- keepb_retained.
  destruct (keepb c done).
  - rewrite retained_evf. reflexivity.
  - cbn. apply app_nil_r.
Qed.

Lemma retained_retain_loop todo : forall done,
  retained (retain_loop todo done) = fold_left (fun S c => stepR c S) todo (retained done).
Proof.
  induction todo as [|c rest IH]; intros done; [reflexivity|].
  rewrite retain_loop_cons, IH, retained_step. reflexivity.
Qed.

Theorem filter_candidates_fold l :
  filter_candidates l = fold_left (fun S c => stepR c S) l [].
Proof. exact (retained_retain_loop l []). Qed.

(* the verdict at c's own turn, in the two vocabularies *)
Lemma rejected_iff l1 c :
  fst (retain_inner c (retain_loop l1 []) 0 []) = false <->
  forallb (fun o => negb (blocks c o)) (filter_candidates l1) = false.
Proof. rewrite retain_inner_keep, keepb_retained. reflexivity. Qed.

(* ================================================================== *)
(* F1. a rejected candidate has no influence on the others              *)
(* ================================================================== *)

Lemma stepR_rejected c S :
  forallb (fun o => negb (blocks c o)) S = false -> stepR c S = S.
Proof. intros H. unfold stepR. rewrite H. reflexivity. Qed.

(* "rejected at its own turn": the inner loop of the filter, run for c against the retain
   state reached after l1, returns keep = false (whatever it had proposed so far). *)
Theorem filter_rejected_irrelevant l1 c l2 :
  fst (retain_inner c (retain_loop l1 []) 0 []) = false ->
  filter_candidates (l1 ++ c :: l2) = filter_candidates (l1 ++ l2).
Proof.
  intros Hrej. apply rejected_iff in Hrej.
  rewrite !filter_candidates_fold, !fold_left_app. cbn [fold_left].
  rewrite <- filter_candidates_fold. rewrite (stepR_rejected _ _ Hrej). reflexivity.
Qed.

(* The same on the retain bit-vector: the run with c is the run without c with the
   entry (c, false) inserted at c's position; all other flags are equal. *)
Lemma keepb_insert_false c x d1 d2 : keepb c (d1 ++ (x, false) :: d2) = keepb c (d1 ++ d2).
Proof. unfold keepb. rewrite !forallb_app. reflexivity. Qed.

Lemma step_insert_false c x d1 d2 :
  exists e1 e2, step c (d1 ++ d2) = e1 ++ e2 /\ length e1 = length d1 /\
                step c (d1 ++ (x, false) :: d2) = e1 ++ (x, false) :: e2.
Proof.
  unfold step. rewrite keepb_insert_false. destruct (keepb c (d1 ++ d2)).
  - exists (map (evf c) d1), (map (evf c) d2 ++ [(c, true)]).
    rewrite !map_app, map_length, <- !app_assoc. cbn [map app]. repeat split; reflexivity.
  - exists d1, (d2 ++ [(c, false)]). rewrite <- !app_assoc. repeat split; reflexivity.
Qed.

Lemma retain_loop_insert_false x todo : forall d1 d2,
  exists e1 e2, retain_loop todo (d1 ++ d2) = e1 ++ e2 /\ length e1 = length d1 /\
                retain_loop todo (d1 ++ (x, false) :: d2) = e1 ++ (x, false) :: e2.
Proof.
  induction todo as [|c rest IH]; intros d1 d2.
  - exists d1, d2. repeat split; reflexivity.
  - rewrite !retain_loop_cons.
    destruct (step_insert_false c x d1 d2) as (e1 & e2 & -> & Hl & ->).
    destruct (IH e1 e2) as (f1 & f2 & E1 & Hl' & E2).
    exists f1, f2. repeat split; [assumption|congruence|assumption].
Qed.

Theorem filter_rejected_irrelevant_flags l1 c l2 :
  fst (retain_inner c (retain_loop l1 []) 0 []) = false ->
  exists e1 e2, retain_loop (l1 ++ l2) [] = e1 ++ e2 /\ length e1 = length l1 /\
                retain_loop (l1 ++ c :: l2) [] = e1 ++ (c, false) :: e2.
Proof.
  intros Hrej. rewrite retain_inner_keep in Hrej.
  rewrite !retain_loop_app, retain_loop_cons. unfold step. rewrite Hrej.
  set (d := retain_loop l1 []).
  assert (Hd : length d = length l1).
  { unfold d. rewrite <- (map_length fst), Planted.retain_loop_fst. reflexivity. }
  destruct (retain_loop_insert_false c l2 d []) as (e1 & e2 & E1 & Hl & E2).
  rewrite app_nil_r in E1. exists e1, e2. repeat split; [assumption|congruence|assumption].
Qed.

(* ================================================================== *)
(* F4 (used by F2). the result is pairwise settled                      *)
(* ================================================================== *)

(* o sorted before c, both reported: c neither is blocked by o nor evicts o *)
Definition settled (o c : mtch) : Prop := blocks c o = false /\ evicts c o = false.

Lemma FOP_snoc {A} (R : A -> A -> Prop) l c :
  ForallOrdPairs R l -> Forall (fun o => R o c) l -> ForallOrdPairs R (l ++ [c]).
Proof.
  induction 1 as [|a l Ha Hl IH]; intros Hc; cbn [app].
  - constructor; constructor.
  - inversion Hc as [|? ? Hac Hc']; subst. constructor; [|apply IH; assumption].
    apply Forall_app. split; [assumption|]. constructor; [assumption|constructor].
Qed.

Lemma FOP_filter {A} (R : A -> A -> Prop) (f : A -> bool) l :
  ForallOrdPairs R l -> ForallOrdPairs R (filter f l).
Proof.
  induction 1 as [|a l Ha Hl IH]; cbn [filter]; [constructor|].
  destruct (f a); [|assumption]. constructor; [|assumption].
  apply Forall_forall. intros x Hx. apply filter_In in Hx.
  rewrite Forall_forall in Ha. apply Ha. apply Hx.
Qed.

Lemma stepR_settled c S : ForallOrdPairs settled S -> ForallOrdPairs settled (stepR c S).
Proof.
  intros HS. unfold stepR.
  destruct (forallb (fun o => negb (blocks c o)) S) eqn:Ek; [|assumption].
  apply FOP_snoc; [apply FOP_filter; assumption|].
  apply Forall_forall. intros o Ho. apply filter_In in Ho. destruct Ho as [Ho Hev].
  rewrite forallb_forall in Ek. specialize (Ek o Ho).
  split; [destruct (blocks c o)|destruct (evicts c o)]; (reflexivity || discriminate).
Qed.

Theorem filter_result_pairwise l : ForallOrdPairs settled (filter_candidates l).
Proof.
  rewrite filter_candidates_fold.
  assert (H : forall l S, ForallOrdPairs settled S ->
                          ForallOrdPairs settled (fold_left (fun S c => stepR c S) l S)).
  { clear l. induction l as [|c rest IH]; intros S HS; [assumption|].
    cbn [fold_left]. apply IH, stepR_settled, HS. }
  apply H. constructor.
Qed.

Lemma FOP_split {A} (R : A -> A -> Prop) l : ForallOrdPairs R l ->
  forall l1 o l2 c l3, l = l1 ++ o :: l2 ++ c :: l3 -> R o c.
Proof.
  induction 1 as [|a l Ha Hl IH]; intros l1 o l2 c l3 E.
  - destruct l1; discriminate.
  - destruct l1 as [|b l1]; cbn [app] in E; injection E as -> ->.
    + rewrite Forall_forall in Ha. apply Ha. apply in_or_app. right. left. reflexivity.
    + eapply IH. reflexivity.
Qed.

(* readable corollaries: o reported before c.  If c's line range contains o's, neither
   weighted confidence is strictly smaller than the other; otherwise c touches o's range
   (start or end line of c inside [m_sl o, m_el o]) only when m_sl c = m_el o. *)
Corollary filter_result_contains l l1 o l2 c l3 :
  filter_candidates l = l1 ++ o :: l2 ++ c :: l3 ->
  mcontains c o = true ->
  flt (wconf o) (wconf c) = false /\ flt (wconf c) (wconf o) = false.
Proof.
  intros E Hc. destruct (FOP_split _ _ (filter_result_pairwise l) _ _ _ _ _ E) as [Hb He].
  unfold blocks, evicts in *. rewrite Hc in *. cbn [andb] in He. rewrite He in Hb.
  cbn [negb andb] in Hb. split; assumption.
Qed.

Corollary filter_result_overlaps l l1 o l2 c l3 :
  filter_candidates l = l1 ++ o :: l2 ++ c :: l3 ->
  mcontains c o = false -> overlaps c o = true -> m_sl c = m_el o.
Proof.
  intros E Hc Ho. destruct (FOP_split _ _ (filter_result_pairwise l) _ _ _ _ _ E) as [Hb _].
  unfold blocks in Hb. rewrite Hc, Ho in Hb. cbn [andb] in Hb.
  apply negb_false_iff, Z.eqb_eq in Hb. exact Hb.
Qed.

(* ================================================================== *)
(* F2. idempotence                                                      *)
(* ================================================================== *)

Lemma settled_fold S2 : forall S1,
  ForallOrdPairs settled (S1 ++ S2) ->
  fold_left (fun S c => stepR c S) S2 S1 = S1 ++ S2.
Proof.
  induction S2 as [|c rest IH]; intros S1 H; [rewrite app_nil_r; reflexivity|].
  cbn [fold_left].
  assert (Hc : forall o, In o S1 -> settled o c).
  { intros o Ho. destruct (in_split _ _ Ho) as (a & b & ->).
    eapply (FOP_split _ _ H a o b c rest). rewrite <- app_assoc. reflexivity. }
  assert (E : stepR c S1 = S1 ++ [c]).
  { unfold stepR.
    replace (forallb (fun o => negb (blocks c o)) S1) with true.
    2:{ symmetry. apply forallb_forall. intros o Ho. destruct (Hc o Ho) as [-> _]. reflexivity. }
    f_equal. clear H. induction S1 as [|a S1 IH1]; [reflexivity|].
    cbn [filter]. destruct (Hc a (or_introl eq_refl)) as [_ ->]. cbn [negb]. f_equal.
    apply IH1. intros o Ho. apply Hc. right. assumption. }
  rewrite E, IH; rewrite <- app_assoc; [reflexivity|exact H].
Qed.

(* a pairwise-settled list is a fixed point of the filter ... *)
Theorem filter_settled_fixpoint S :
  ForallOrdPairs settled S -> filter_candidates S = S.
Proof. intros H. rewrite filter_candidates_fold. apply (settled_fold S []). exact H. Qed.

Theorem filter_idempotent l :
  filter_candidates (filter_candidates l) = filter_candidates l.
Proof. apply filter_settled_fixpoint, filter_result_pairwise. Qed.

(* ... and conversely: the fixed points of the filter are exactly the settled lists *)
Theorem filter_fixpoint_iff S :
  filter_candidates S = S <-> ForallOrdPairs settled S.
Proof.
  split; [|apply filter_settled_fixpoint].
  intros E. rewrite <- E. apply filter_result_pairwise.
Qed.

(* ================================================================== *)
(* F3. candidates are only ever evicted by later candidates             *)
(* ================================================================== *)

(* same candidates, flags only ever go from true to false *)
Definition flags_le (d' d : list (mtch * bool)) : Prop :=
  Forall2 (fun p q => fst p = fst q /\ (snd p = true -> snd q = true)) d' d.

Lemma flags_le_refl d : flags_le d d.
Proof. induction d; constructor; [split; auto|assumption]. Qed.

Lemma flags_le_trans d1 d2 d3 : flags_le d1 d2 -> flags_le d2 d3 -> flags_le d1 d3.
Proof.
  intros H. revert d3. induction H as [|p q l1 l2 [Hf Hs] _ IH]; intros d3 H23;
    inversion H23 as [|? r ? l3 [Hf' Hs'] H']; subst; constructor.
  - split; [congruence|auto].
  - apply IH. assumption.
Qed.

Lemma flags_le_evf c d : flags_le (map (evf c) d) d.
Proof.
  induction d as [|[o r] d IH]; constructor; [|assumption].
  unfold evf. cbn [fst snd]. split; [reflexivity|]. intros H. apply andb_true_iff in H. apply H.
Qed.

Lemma step_prefix c done :
  exists d', step c done = d' ++ [(c, keepb c done)] /\ flags_le d' done.
Proof.
  unfold step. destruct (keepb c done).
  - exists (map (evf c) done). split; [reflexivity|apply flags_le_evf].
  - exists done. split; [reflexivity|apply flags_le_refl].
Qed.

Lemma flags_le_app a a' b b' : flags_le a' a -> flags_le b' b -> flags_le (a' ++ b') (a ++ b).
Proof. apply Forall2_app. Qed.

Lemma flags_le_split d' a b : flags_le d' (a ++ b) ->
  exists a' b', d' = a' ++ b' /\ flags_le a' a /\ flags_le b' b.
Proof.
  intros H. apply Forall2_app_inv_r in H. destruct H as (a' & b' & Ha & Hb & ->).
  exists a', b'. repeat split; assumption.
Qed.

Lemma retain_loop_prefix todo : forall done,
  exists d' t, retain_loop todo done = d' ++ t /\ flags_le d' done.
Proof.
  induction todo as [|c rest IH]; intros done.
  - exists done, []. split; [symmetry; apply app_nil_r|apply flags_le_refl].
  - rewrite retain_loop_cons. destruct (step_prefix c done) as (d1 & -> & H1).
    destruct (IH (d1 ++ [(c, keepb c done)])) as (d2 & t & -> & H2).
    apply flags_le_split in H2. destruct H2 as (a' & b' & -> & Ha & Hb).
    exists a', (b' ++ t). split; [rewrite app_assoc; reflexivity|].
    eapply flags_le_trans; eassumption.
Qed.

Lemma flags_le_length d' d : flags_le d' d -> length d' = length d.
Proof. induction 1; cbn [length]; congruence. Qed.

Lemma flags_le_retained d' d : flags_le d' d -> sublist (retained d') (retained d).
Proof.
  unfold retained. induction 1 as [|[o' r'] [o r] l' l [Hf Hs] _ IH]; [constructor|].
  cbn [fst snd] in Hf, Hs. subst o'. cbn [filter snd].
  destruct r'.
  - rewrite (Hs eq_refl). cbn [map fst]. apply sl_cons. assumption.
  - destruct r; cbn [map fst]; [apply sl_skip|]; assumption.
Qed.

(* bit-vector level: a position of the prefix l1 that is still retained after the whole of
   l1 ++ l2 has been processed was retained after processing l1 alone *)
Theorem filter_prefix_stable_flags l1 l2 k m :
  (k < length l1)%nat ->
  nth_error (retain_loop (l1 ++ l2) []) k = Some (m, true) ->
  nth_error (retain_loop l1 []) k = Some (m, true).
Proof.
  intros Hk Hn. rewrite retain_loop_app in Hn.
  destruct (retain_loop_prefix l2 (retain_loop l1 [])) as (d' & t & E & Hle).
  rewrite E in Hn. clear E.
  assert (Hlen : length (retain_loop l1 []) = length l1).
  { rewrite <- (map_length fst), Planted.retain_loop_fst. reflexivity. }
  rewrite nth_error_app1 in Hn by (rewrite (flags_le_length _ _ Hle); lia).
  clear Hlen Hk. revert k Hn. induction Hle as [|p q l' l [Hf Hs] _ IH]; intros k Hn.
  - destruct k; discriminate.
  - destruct k as [|k]; cbn [nth_error] in *; [|apply IH; assumption].
    injection Hn as ->. cbn [fst snd] in *. destruct q as [o r]. cbn [fst snd] in *.
    rewrite (Hs eq_refl). subst o. reflexivity.
Qed.

(* list level: what is still retained of the prefix l1 after processing l1 ++ l2 is a
   sub-list of what the filter retains on l1 alone *)
Theorem filter_prefix_stable l1 l2 :
  sublist (map fst (filter snd (firstn (length l1) (retain_loop (l1 ++ l2) []))))
          (filter_candidates l1).
Proof.
  rewrite retain_loop_app.
  destruct (retain_loop_prefix l2 (retain_loop l1 [])) as (d' & t & E & Hle).
  rewrite E.
  assert (Hlen : length d' = length l1).
  { rewrite (flags_le_length _ _ Hle), <- (map_length fst), Planted.retain_loop_fst. reflexivity. }
  rewrite <- Hlen, firstn_app, Nat.sub_diag, firstn_all. cbn [firstn]. rewrite app_nil_r.
  apply flags_le_retained. exact Hle.
Qed.

(* and the part of the result that comes from l1 is that retained prefix: the result of
   l1 ++ l2 is (a sub-list of filter_candidates l1) ++ (a sub-list of l2) *)
Theorem filter_app_split l1 l2 :
  exists r1 r2, filter_candidates (l1 ++ l2) = r1 ++ r2 /\
                sublist r1 (filter_candidates l1) /\ sublist r2 l2.
Proof.
  unfold filter_candidates at 1. rewrite retain_loop_app.
  destruct (retain_loop_prefix l2 (retain_loop l1 [])) as (d' & t & E & Hle).
  exists (retained d'), (retained t). fold (retained (retain_loop l2 (retain_loop l1 []))).
  rewrite E, retained_app. split; [reflexivity|]. split; [apply flags_le_retained; exact Hle|].
  assert (Ht : map fst t = l2).
  { pose proof (Planted.retain_loop_fst l2 (retain_loop l1 [])) as Hf.
    rewrite E, map_app in Hf.
    assert (Hd : map fst d' = map fst (retain_loop l1 [])).
    { clear E Hf. induction Hle as [|p q l' l [Hf _] _ IH]; [reflexivity|].
      cbn [map]. rewrite Hf, IH. reflexivity. }
    rewrite Hd in Hf. apply app_inv_head in Hf. exact Hf. }
  rewrite <- Ht. apply filter_map_fst_sublist.
Qed.

(* ================================================================== *)
(* Examples                                                             *)
(* ================================================================== *)
Section Examples.
Local Open Scope Z_scope.

Definition mk (conf : f64) (sl el st et : Z) : mtch :=
  {| m_name := []; m_type := []; m_variant := []; m_conf := conf;
     m_sl := sl; m_el := el; m_st := st; m_et := et |}.

Definition f09 : f64 := fdiv (of_Z 9) (of_Z 10).

Definition exA := mk fone 1 2 0 10.      (* lines 1-2, weighted confidence 10 *)
Definition exB := mk fone 5 8 50 90.     (* lines 5-8 *)
Definition exC := mk f09 1 6 0 100.      (* lines 1-6, weighted confidence 90: contains A, straddles B *)
Definition exD := mk f09 10 12 120 140.  (* lines 10-12, isolated *)

(* non-vacuity of F1: c = exC is visited after [exA; exB]; it first PROPOSES to evict exA
   (index 0: it contains exA with a larger weighted confidence), then is rejected because it
   overlaps exB without containing it; its proposal is dropped: exA is reported. *)
Example ex_rejected_with_proposal :
  retain_inner exC (retain_loop [exA; exB] []) 0 [] = (false, [0%nat]) /\
  filter_candidates ([exA; exB] ++ exC :: [exD]) = [exA; exB; exD] /\
  filter_candidates ([exA; exB] ++ [exD]) = [exA; exB; exD] /\
  retain_loop ([exA; exB] ++ exC :: [exD]) [] = [(exA, true); (exB, true); (exC, false); (exD, true)].
Proof. vm_compute. repeat split; reflexivity. Qed.

(* the hypothesis of F1 cannot be dropped: a KEPT candidate matters (exC alone evicts exA) *)
Example ex_kept_matters :
  filter_candidates ([exA] ++ exC :: [exD]) = [exC; exD] /\
  filter_candidates ([exA] ++ [exD]) = [exA; exD].
Proof. vm_compute. split; reflexivity. Qed.

(* F3 is strict in general: exA is retained after [exA] and evicted by the later exC *)
Example ex_prefix_evicted :
  filter_candidates [exA] = [exA] /\
  map fst (filter snd (firstn 1 (retain_loop ([exA] ++ [exC]) []))) = [].
Proof. vm_compute. split; reflexivity. Qed.

(* the filter is NOT monotone in the other direction: removing a KEPT candidate can make a
   previously rejected one appear (exC is rejected because of exB; without exB it is kept and
   evicts exA), so "rejected" in F1 really is about the candidate's own turn *)
Example ex_not_monotone :
  filter_candidates [exA; exB; exC] = [exA; exB] /\
  filter_candidates [exA; exC] = [exC].
Proof. vm_compute. split; reflexivity. Qed.

End Examples.

Print Assumptions filter_candidates_fold.
Print Assumptions filter_rejected_irrelevant.
Print Assumptions filter_rejected_irrelevant_flags.
Print Assumptions filter_idempotent.
Print Assumptions filter_fixpoint_iff.
Print Assumptions filter_prefix_stable.
Print Assumptions filter_prefix_stable_flags.
Print Assumptions filter_app_split.
Print Assumptions filter_result_pairwise.
Print Assumptions filter_result_contains.
Print Assumptions filter_result_overlaps.
Print Assumptions ex_rejected_with_proposal.
