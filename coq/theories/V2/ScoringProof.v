(* C02: the distance reported by v2 scoring never understates the true
   word-level Levenshtein distance of the reported span.

   Model: V2/Match.v ([score], [diff_range], [lev_word], ...).  The word diff
   of go-diff is an oracle; the only facts used about the edit script [raw]
   are [valid_script] (it transforms the input span into the known document)
   and D3 (no entry has an empty id list).  Nothing is assumed about HOW the
   script was found (heuristics, timeouts, cleanup passes).

   Layout:
     1. Levenshtein distance on lists ([glev], instance [lev] on [list N]).
     2. Edit scripts at id level: [src], [dst], [valid_script], [lev_ids];
        [lev_ids_bound], [lev_ids_zero].
     3. Bridge to the string-level functions of Match.v ([join_words],
        [word_len], [lev_word], [text_length], the stop test of
        [diff_range_loop]).
     4. Trimming: [diff_range] on hydrated scripts = id-level [dri];
        [dri_spec]; [trim_valid].
     5. Main theorems about [score].
     6. Non-vacuity examples. *)
From Coq Require Import List NArith ZArith Bool Lia.
Import ListNotations.
From LC.Base Require Import Float64.
From LC.V2 Require Import Match.

Local Open Scope nat_scope.

(* ================================================================== *)
(** * 1. Levenshtein distance                                          *)
(* ================================================================== *)
Section Lev.
  Variable A : Type.
  Variable eq_dec : forall x y : A, {x = y} + {x <> y}.

  Definition subst_cost (x y : A) : nat := if eq_dec x y then 0 else 1.

  (* the textbook recursion: delete x / insert y / substitute-or-keep *)
  Fixpoint glev (a : list A) : list A -> nat :=
    match a with
    | [] => fun b => length b
    | x :: a' =>
      fix levb (b : list A) : nat :=
        match b with
        | [] => S (length a')
        | y :: b' => Nat.min (S (glev a' b)) (Nat.min (S (levb b')) (subst_cost x y + glev a' b'))
        end
    end.

  Lemma glev_nil_l : forall b, glev [] b = length b.
  Proof. reflexivity. Qed.

  Lemma glev_nil_r : forall a, glev a [] = length a.
  Proof. destruct a; reflexivity. Qed.

  Lemma glev_cons_cons : forall x a y b,
    glev (x :: a) (y :: b) =
    Nat.min (S (glev a (y :: b))) (Nat.min (S (glev (x :: a) b)) (subst_cost x y + glev a b)).
  Proof. reflexivity. Qed.

  Lemma subst_cost_refl : forall x, subst_cost x x = 0.
  Proof. intros x. unfold subst_cost. destruct (eq_dec x x); congruence. Qed.

  Lemma subst_cost_le1 : forall x y, subst_cost x y <= 1.
  Proof. intros x y. unfold subst_cost. destruct (eq_dec x y); lia. Qed.

  Lemma subst_cost_zero : forall x y, subst_cost x y = 0 -> x = y.
  Proof. intros x y. unfold subst_cost. destruct (eq_dec x y); [auto|discriminate]. Qed.

  Lemma glev_refl : forall a, glev a a = 0.
  Proof.
    induction a as [|x a IH]; [reflexivity|].
    rewrite glev_cons_cons, subst_cost_refl, IH. lia.
  Qed.

  Lemma glev_zero_eq : forall a b, glev a b = 0 -> a = b.
  Proof.
    induction a as [|x a IH]; intros [|y b] H.
    - reflexivity.
    - discriminate.
    - discriminate.
    - rewrite glev_cons_cons in H.
      assert (Hs : subst_cost x y + glev a b = 0) by lia.
      assert (H1 : subst_cost x y = 0) by lia.
      assert (H2 : glev a b = 0) by lia.
      apply subst_cost_zero in H1. apply IH in H2. congruence.
  Qed.

  Lemma glev_le_max : forall a b, glev a b <= Nat.max (length a) (length b).
  Proof.
    induction a as [|x a IH]; intros [|y b].
    - cbn. lia.
    - rewrite glev_nil_l. lia.
    - rewrite glev_nil_r. lia.
    - rewrite glev_cons_cons. specialize (IH b). pose proof (subst_cost_le1 x y).
      cbn [length]. lia.
  Qed.

  Lemma glev_cons_l : forall x a b, glev (x :: a) b <= S (glev a b).
  Proof.
    intros x a [|y b].
    - rewrite !glev_nil_r. cbn [length]. lia.
    - rewrite glev_cons_cons. lia.
  Qed.

  Lemma glev_cons_r : forall y a b, glev a (y :: b) <= S (glev a b).
  Proof.
    intros y [|x a] b.
    - rewrite !glev_nil_l. cbn [length]. lia.
    - rewrite glev_cons_cons. lia.
  Qed.

  Lemma glev_app_l : forall a1 a2 b, glev (a1 ++ a2) b <= length a1 + glev a2 b.
  Proof.
    induction a1 as [|x a1 IH]; intros a2 b; cbn [app length]; [lia|].
    pose proof (glev_cons_l x (a1 ++ a2) b). specialize (IH a2 b). lia.
  Qed.

  Lemma glev_app_r : forall b1 a b2, glev a (b1 ++ b2) <= length b1 + glev a b2.
  Proof.
    induction b1 as [|y b1 IH]; intros a b2; cbn [app length]; [lia|].
    pose proof (glev_cons_r y a (b1 ++ b2)). specialize (IH a b2). lia.
  Qed.

  (* sub-additivity under concatenation *)
  Lemma glev_app : forall a1 b1 a2 b2,
    glev (a1 ++ a2) (b1 ++ b2) <= glev a1 b1 + glev a2 b2.
  Proof.
    induction a1 as [|x a1 IHa]; intros b1 a2 b2.
    - rewrite glev_nil_l. cbn [app]. apply glev_app_r.
    - induction b1 as [|y b1 IHb].
      + rewrite glev_nil_r. cbn [app]. apply (glev_app_l (x :: a1) a2 b2).
      + cbn [app]. rewrite !glev_cons_cons.
        pose proof (IHa (y :: b1) a2 b2) as H1. cbn [app] in H1.
        pose proof IHb as H2. cbn [app] in H2.
        pose proof (IHa b1 a2 b2) as H3.
        lia.
  Qed.
End Lev.

Definition lev : list N -> list N -> nat := glev N N.eq_dec.

Lemma lev_refl : forall a, lev a a = 0.
Proof. apply glev_refl. Qed.
Lemma lev_zero_eq : forall a b, lev a b = 0 -> a = b.
Proof. apply glev_zero_eq. Qed.
Lemma lev_nil_l : forall b, lev [] b = length b.
Proof. apply glev_nil_l. Qed.
Lemma lev_nil_r : forall a, lev a [] = length a.
Proof. apply glev_nil_r. Qed.
Lemma lev_app : forall a1 b1 a2 b2, lev (a1 ++ a2) (b1 ++ b2) <= lev a1 b1 + lev a2 b2.
Proof. apply glev_app. Qed.
Lemma lev_le_max : forall a b, lev a b <= Nat.max (length a) (length b).
Proof. apply glev_le_max. Qed.

(* ================================================================== *)
(** * 2. Edit scripts at id level                                      *)
(* ================================================================== *)
Definition src_ids (d : diff) : list N := match fst d with DInsert => [] | _ => snd d end.
Definition dst_ids (d : diff) : list N := match fst d with DDelete => [] | _ => snd d end.

(* the input span: ids of Equal and Delete entries *)
Definition src (ds : list diff) : list N := flat_map src_ids ds.
(* the known document: ids of Equal and Insert entries *)
Definition dst (ds : list diff) : list N := flat_map dst_ids ds.

Definition valid_script (ds : list diff) (a b : list N) : Prop := src ds = a /\ dst ds = b.

(* total number of ids of a script *)
Definition total (ds : list diff) : nat := fold_right (fun d n => length (snd d) + n) 0 ds.

(* diffLevenshteinWord at id level: same fold as [lev_word], counting ids *)
Definition li_step : nat * nat * nat -> diff -> nat * nat * nat :=
  fun '(lv, ins, del) d =>
    match fst d with
    | DInsert => (lv, ins + length (snd d), del)
    | DDelete => (lv, ins, del + length (snd d))
    | DEqual => (lv + Nat.max ins del, 0, 0)
    end.

Definition lev_ids (ds : list diff) : nat :=
  let '(lv, ins, del) := fold_left li_step ds (0, 0, 0) in lv + Nat.max ins del.

(* recursive presentation: cost of [ds] with a pending change block of
   [ins] inserted and [del] deleted ids *)
Fixpoint cost (ds : list diff) (ins del : nat) : nat :=
  match ds with
  | [] => Nat.max ins del
  | (DEqual, _) :: r => Nat.max ins del + cost r 0 0
  | (DInsert, ids) :: r => cost r (ins + length ids) del
  | (DDelete, ids) :: r => cost r ins (del + length ids)
  end.

Lemma li_fold_cost : forall ds lv ins del,
  (let '(lv', ins', del') := fold_left li_step ds (lv, ins, del) in lv' + Nat.max ins' del')
  = lv + cost ds ins del.
Proof.
  induction ds as [|[op ids] r IH]; intros lv ins del.
  - reflexivity.
  - cbn [fold_left]. destruct op; cbn [li_step fst snd cost]; rewrite IH; lia.
Qed.

Lemma lev_ids_cost : forall ds, lev_ids ds = cost ds 0 0.
Proof. intros ds. unfold lev_ids. rewrite li_fold_cost. reflexivity. Qed.

Lemma src_app : forall a b, src (a ++ b) = src a ++ src b.
Proof. intros. unfold src. apply flat_map_app. Qed.
Lemma dst_app : forall a b, dst (a ++ b) = dst a ++ dst b.
Proof. intros. unfold dst. apply flat_map_app. Qed.
Lemma src_cons : forall op ids r, src ((op, ids) :: r) = src_ids (op, ids) ++ src r.
Proof. reflexivity. Qed.
Lemma dst_cons : forall op ids r, dst ((op, ids) :: r) = dst_ids (op, ids) ++ dst r.
Proof. reflexivity. Qed.

(* block decomposition, with the pending block [sa] (deleted) / [sb] (inserted) *)
Lemma cost_bound : forall ds sa sb,
  lev (sa ++ src ds) (sb ++ dst ds) <= cost ds (length sb) (length sa).
Proof.
  induction ds as [|[op ids] r IH]; intros sa sb.
  - cbn [src dst flat_map cost]. rewrite !app_nil_r.
    pose proof (lev_le_max sa sb). lia.
  - rewrite src_cons, dst_cons. destruct op; cbn [src_ids dst_ids fst snd cost].
    + (* Equal *)
      pose proof (lev_app sa sb (ids ++ src r) (ids ++ dst r)) as H1.
      pose proof (lev_app ids ids (src r) (dst r)) as H2.
      rewrite lev_refl in H2.
      pose proof (IH [] []) as H3. cbn [app length] in H3.
      pose proof (lev_le_max sa sb). lia.
    + (* Insert *)
      cbn [app]. rewrite app_assoc. specialize (IH sa (sb ++ ids)).
      rewrite app_length in IH. exact IH.
    + (* Delete *)
      cbn [app]. rewrite app_assoc. specialize (IH (sa ++ ids) sb).
      rewrite app_length in IH. exact IH.
Qed.

Theorem lev_ids_bound : forall ds, lev (src ds) (dst ds) <= lev_ids ds.
Proof. intros ds. rewrite lev_ids_cost. exact (cost_bound ds [] []). Qed.

Lemma cost_zero : forall ds ins del,
  cost ds ins del = 0 -> ins = 0 /\ del = 0 /\ src ds = dst ds.
Proof.
  induction ds as [|[op ids] r IH]; intros ins del H.
  - cbn [cost] in H. repeat split; try lia.
  - rewrite src_cons, dst_cons. destruct op; cbn [src_ids dst_ids fst snd cost] in *.
    + assert (H0 : cost r 0 0 = 0) by lia. apply IH in H0 as (_ & _ & E).
      repeat split; try lia. now rewrite E.
    + apply IH in H as (Hi & Hd & E).
      assert (Hl : length ids = 0) by lia. apply length_zero_iff_nil in Hl. subst ids.
      repeat split; try lia. exact E.
    + apply IH in H as (Hi & Hd & E).
      assert (Hl : length ids = 0) by lia. apply length_zero_iff_nil in Hl. subst ids.
      repeat split; try lia. exact E.
Qed.

Theorem lev_ids_zero : forall ds, lev_ids ds = 0 -> src ds = dst ds.
Proof. intros ds H. rewrite lev_ids_cost in H. now apply cost_zero in H. Qed.

(* corollary in terms of [valid_script] *)
Corollary valid_script_lev : forall ds a b,
  valid_script ds a b -> lev a b <= lev_ids ds /\ (lev_ids ds = 0 -> a = b).
Proof.
  intros ds a b [<- <-]. split; [apply lev_ids_bound | apply lev_ids_zero].
Qed.

(* ================================================================== *)
(** * 3. Bridge to strings                                             *)
(* ================================================================== *)
(* every word used is non-empty and contains no space *)
Definition wf_word (word : N -> str) (ids : list N) : Prop :=
  forall i, In i ids -> word i <> [] /\ ~ In 32%N (word i).

Definition wf_script (word : N -> str) (ds : list diff) : Prop :=
  forall d, In d ds -> wf_word word (snd d).

(* oracle contract D3: no entry has an empty id list *)
Definition D3 (ds : list diff) : Prop := forall d, In d ds -> snd d <> [].

Lemma wf_word_app : forall word a b, wf_word word a -> wf_word word b -> wf_word word (a ++ b).
Proof. intros word a b Ha Hb i Hi. apply in_app_or in Hi as [Hi|Hi]; auto. Qed.

Lemma wf_word_tail : forall word i r, wf_word word (i :: r) -> wf_word word r.
Proof. intros word i r H j Hj. apply H. now right. Qed.

Lemma wf_script_tail : forall word d r, wf_script word (d :: r) -> wf_script word r.
Proof. intros word d r H x Hx. apply H. now right. Qed.

Lemma wf_script_dst : forall word ds, wf_script word ds -> wf_word word (dst ds).
Proof.
  intros word ds H i Hi. unfold dst in Hi. apply in_flat_map in Hi as (d & Hd & Hi).
  apply (H d Hd). unfold dst_ids in Hi. destruct (fst d); [assumption|assumption|contradiction].
Qed.

Lemma D3_tail : forall d r, D3 (d :: r) -> D3 r.
Proof. intros d r H x Hx. apply H. now right. Qed.

(* ---- tightness of the specification: [lev] is attained by a valid D3
        script, so [lev a b] is exactly the minimum of [lev_ids] over the
        valid scripts from [a] to [b] (the bound of C02 is against the true
        optimum, not against some smaller quantity) ---- *)
Lemma cost_shift : forall ds i d p q,
  cost ds (i + p) (d + q) <= Nat.max p q + cost ds i d.
Proof.
  induction ds as [|[op ids] r IH]; intros i d p q.
  - cbn [cost]. lia.
  - destruct op; cbn [cost].
    + lia.
    + replace (i + p + length ids) with (i + length ids + p) by lia. apply IH.
    + replace (d + q + length ids) with (d + length ids + q) by lia. apply IH.
Qed.

Lemma lev_cons_cons : forall x a y b,
  lev (x :: a) (y :: b) =
  Nat.min (S (lev a (y :: b)))
          (Nat.min (S (lev (x :: a) b)) (subst_cost N N.eq_dec x y + lev a b)).
Proof. intros. apply glev_cons_cons. Qed.

Lemma lev_attained_le : forall a b,
  exists ds, valid_script ds a b /\ D3 ds /\ lev_ids ds <= lev a b.
Proof.
  induction a as [|x a IHa].
  - intros [|y b].
    + exists []. split; [split; reflexivity|]. split; [intros d []|].
      rewrite lev_ids_cost. cbn. lia.
    + exists [(DInsert, y :: b)]. split; [split|split].
      * reflexivity.
      * unfold dst. cbn [flat_map dst_ids fst snd]. apply app_nil_r.
      * intros d [<-|[]]. discriminate.
      * rewrite lev_ids_cost, lev_nil_l. cbn [cost]. lia.
  - induction b as [|y b IHb].
    + exists [(DDelete, x :: a)]. split; [split|split].
      * unfold src. cbn [flat_map src_ids fst snd]. apply app_nil_r.
      * reflexivity.
      * intros d [<-|[]]. discriminate.
      * rewrite lev_ids_cost, lev_nil_r. cbn [cost]. lia.
    + rewrite lev_cons_cons.
      destruct (IHa (y :: b)) as (d1 & [S1 T1] & N1 & C1).
      destruct IHb as (d2 & [S2 T2] & N2 & C2).
      destruct (IHa b) as (d3 & [S3 T3] & N3 & C3).
      rewrite lev_ids_cost in C1, C2, C3.
      set (m1 := S (lev a (y :: b))) in *.
      set (m2 := S (lev (x :: a) b)) in *.
      set (m3 := subst_cost N N.eq_dec x y + lev a b) in *.
      assert (Hmin : Nat.min m1 (Nat.min m2 m3) = m1 \/ Nat.min m1 (Nat.min m2 m3) = m2 \/
                     Nat.min m1 (Nat.min m2 m3) = m3) by lia.
      destruct Hmin as [-> | [-> | ->]].
      * exists ((DDelete, [x]) :: d1). split; [split|split].
        -- rewrite src_cons, S1. reflexivity.
        -- rewrite dst_cons, T1. reflexivity.
        -- intros d [<-|Hd]; [discriminate|now apply N1].
        -- rewrite lev_ids_cost. cbn [cost length].
           pose proof (cost_shift d1 0 0 0 1). cbn [Nat.add] in *. unfold m1. lia.
      * exists ((DInsert, [y]) :: d2). split; [split|split].
        -- rewrite src_cons, S2. reflexivity.
        -- rewrite dst_cons, T2. reflexivity.
        -- intros d [<-|Hd]; [discriminate|now apply N2].
        -- rewrite lev_ids_cost. cbn [cost length].
           pose proof (cost_shift d2 0 0 1 0). cbn [Nat.add] in *. unfold m2. lia.
      * unfold m3, subst_cost. destruct (N.eq_dec x y) as [<-|Hne].
        -- exists ((DEqual, [x]) :: d3). split; [split|split].
           ++ rewrite src_cons, S3. reflexivity.
           ++ rewrite dst_cons, T3. reflexivity.
           ++ intros d [<-|Hd]; [discriminate|now apply N3].
           ++ rewrite lev_ids_cost. cbn [cost]. lia.
        -- exists ((DDelete, [x]) :: (DInsert, [y]) :: d3). split; [split|split].
           ++ rewrite !src_cons, S3. reflexivity.
           ++ rewrite !dst_cons, T3. reflexivity.
           ++ intros d [<-|[<-|Hd]]; [discriminate|discriminate|now apply N3].
           ++ rewrite lev_ids_cost. cbn [cost length].
              pose proof (cost_shift d3 0 0 1 1). cbn [Nat.add] in *. lia.
Qed.

Theorem lev_attained : forall a b,
  exists ds, valid_script ds a b /\ D3 ds /\ lev_ids ds = lev a b.
Proof.
  intros a b. destruct (lev_attained_le a b) as (ds & Hv & Hd & Hle).
  exists ds. split; [assumption|]. split; [assumption|].
  destruct (valid_script_lev ds a b Hv) as [Hge _]. lia.
Qed.

Section Bridge.
  Variable word : N -> str.

  Lemma join_cons2 : forall i j r,
    join_words word (i :: j :: r) = word i ++ SP :: join_words word (j :: r).
  Proof. reflexivity. Qed.

  Lemma join_nonempty : forall ids, wf_word word ids -> ids <> [] -> join_words word ids <> [].
  Proof.
    intros [|i [|j r]] Hwf Hne.
    - congruence.
    - cbn [join_words]. apply Hwf. now left.
    - rewrite join_cons2. destruct (word i); discriminate.
  Qed.

  Lemma join_app : forall xs ys, xs <> [] -> ys <> [] ->
    join_words word (xs ++ ys) = join_words word xs ++ SP :: join_words word ys.
  Proof.
    induction xs as [|x xs IH]; intros ys Hx Hy; [congruence|].
    destruct xs as [|x' xs].
    - cbn [app]. destruct ys as [|y ys]; [congruence|]. reflexivity.
    - change ((x :: x' :: xs) ++ ys) with (x :: x' :: (xs ++ ys)).
      rewrite !join_cons2.
      change (x' :: xs ++ ys) with ((x' :: xs) ++ ys).
      rewrite IH by (assumption || discriminate).
      rewrite <- app_assoc. reflexivity.
  Qed.

  Lemma filter_sp_word : forall w : str, ~ In SP w -> filter (N.eqb SP) w = [].
  Proof.
    induction w as [|c w IH]; intros H; [reflexivity|].
    cbn [filter]. destruct (N.eqb_spec SP c) as [E|E].
    - exfalso. apply H. left. now symmetry.
    - apply IH. intros Hin. apply H. now right.
  Qed.

  Lemma spaces_join : forall r i, wf_word word (i :: r) ->
    length (filter (N.eqb SP) (join_words word (i :: r))) = length r.
  Proof.
    induction r as [|j r IH]; intros i Hwf.
    - cbn [join_words]. rewrite filter_sp_word; [reflexivity|]. apply Hwf. now left.
    - rewrite join_cons2, filter_app. cbn [filter]. rewrite N.eqb_refl.
      rewrite filter_sp_word by (apply Hwf; now left).
      cbn [app length]. f_equal. apply IH. eapply wf_word_tail; eassumption.
  Qed.

  (* number of words of a joined text = number of ids *)
  Lemma word_len_join : forall ids, wf_word word ids ->
    word_len (join_words word ids) = Z.of_nat (length ids).
  Proof.
    intros [|i r] Hwf; [reflexivity|].
    pose proof (join_nonempty (i :: r) Hwf ltac:(discriminate)) as Hne.
    pose proof (spaces_join r i Hwf) as Hs.
    unfold word_len. destruct (join_words word (i :: r)) as [|c t]; [congruence|].
    rewrite Hs. cbn [length]. lia.
  Qed.

  Lemma word_len_join_nil : word_len (join_words word []) = 0%Z.
  Proof. reflexivity. Qed.

  (* ---- lev_word / text_length on hydrated scripts ---- *)
  Definition lw_step : Z * Z * Z -> tdiff -> Z * Z * Z :=
    fun '(lev, ins, del) d =>
      match fst d with
      | DInsert => (lev, ins + word_len (snd d), del)%Z
      | DDelete => (lev, ins, del + word_len (snd d))%Z
      | DEqual => (lev + Z.max ins del, 0, 0)%Z
      end.

  Lemma lev_word_unfold : forall ds,
    lev_word ds = let '(lev, ins, del) := fold_left lw_step ds (0, 0, 0)%Z in (lev + Z.max ins del)%Z.
  Proof. reflexivity. Qed.

  Lemma lw_fold_cost : forall ds lv ins del, wf_script word ds ->
    (let '(lev, ins', del') :=
         fold_left lw_step (map (hydrate word) ds) (Z.of_nat lv, Z.of_nat ins, Z.of_nat del) in
     (lev + Z.max ins' del')%Z) = Z.of_nat (lv + cost ds ins del).
  Proof.
    induction ds as [|[op ids] r IH]; intros lv ins del Hwf.
    - cbn [map fold_left cost]. lia.
    - pose proof (word_len_join ids (Hwf (op, ids) (or_introl eq_refl))) as Hw.
      pose proof (wf_script_tail _ _ _ Hwf) as Hwf'.
      cbn [map fold_left]. change (hydrate word (op, ids)) with (op, join_words word ids). cbn [fst snd].
      destruct op; cbn [lw_step fst snd cost].
      + rewrite <- Nat2Z.inj_max, <- Nat2Z.inj_add.
        pose proof (IH (lv + Nat.max ins del) 0 0 Hwf') as H.
        change (Z.of_nat 0) with 0%Z in H. rewrite H. f_equal. lia.
      + rewrite Hw, <- Nat2Z.inj_add. apply IH. exact Hwf'.
      + rewrite Hw, <- Nat2Z.inj_add. apply IH. exact Hwf'.
  Qed.

  Theorem lev_word_hydrate : forall ds, wf_script word ds ->
    lev_word (map (hydrate word) ds) = Z.of_nat (lev_ids ds).
  Proof.
    intros ds Hwf. rewrite lev_word_unfold, lev_ids_cost.
    exact (lw_fold_cost ds 0 0 0 Hwf).
  Qed.

  Lemma tl_fold : forall ds a, wf_script word ds ->
    fold_left (fun a d => (a + word_len (snd d))%Z) (map (hydrate word) ds) (Z.of_nat a)
    = Z.of_nat (a + total ds).
  Proof.
    induction ds as [|[op ids] r IH]; intros a Hwf.
    - cbn [map fold_left total fold_right]. f_equal. lia.
    - pose proof (word_len_join ids (Hwf (op, ids) (or_introl eq_refl))) as Hw.
      cbn [map fold_left]. change (hydrate word (op, ids)) with (op, join_words word ids). cbn [fst snd].
      rewrite Hw, <- Nat2Z.inj_add. rewrite IH by (eapply wf_script_tail; eassumption).
      f_equal. cbn [total fold_right snd]. fold (total r). lia.
  Qed.

  Theorem text_length_hydrate : forall ds, wf_script word ds ->
    text_length (map (hydrate word) ds) = Z.of_nat (total ds).
  Proof. intros ds Hwf. unfold text_length. exact (tl_fold ds 0 Hwf). Qed.

  (* ---- injectivity of joining ---- *)
  Lemma split_sp : forall (w1 w2 t1 t2 : str), ~ In SP w1 -> ~ In SP w2 ->
    w1 ++ SP :: t1 = w2 ++ SP :: t2 -> w1 = w2 /\ t1 = t2.
  Proof.
    induction w1 as [|c w1 IH]; intros [|c2 w2] t1 t2 H1 H2 E; cbn [app] in E.
    - injection E as E. auto.
    - injection E as E1 E2. exfalso. apply H2. left. now symmetry.
    - injection E as E1 E2. exfalso. apply H1. now left.
    - injection E as E1 E2. subst c2.
      destruct (IH w2 t1 t2) as [-> ->]; auto.
      + intros Hin. apply H1. now right.
      + intros Hin. apply H2. now right.
  Qed.

  Lemma no_split : forall (w1 w2 t : str), ~ In SP w1 -> w1 <> w2 ++ SP :: t.
  Proof. intros w1 w2 t H E. apply H. rewrite E. apply in_or_app. right. now left. Qed.

  Theorem join_inj : forall xs ys, wf_word word xs -> wf_word word ys ->
    join_words word xs = join_words word ys -> map word xs = map word ys.
  Proof.
    induction xs as [|x xs IH]; intros [|y ys] Hx Hy E.
    - reflexivity.
    - exfalso. symmetry in E. revert E. apply join_nonempty; [assumption|discriminate].
    - exfalso. revert E. apply join_nonempty; [assumption|discriminate].
    - assert (Hxs : ~ In SP (word x)) by (apply Hx; now left).
      assert (Hys : ~ In SP (word y)) by (apply Hy; now left).
      destruct xs as [|x' xs], ys as [|y' ys].
      + cbn [join_words] in E. cbn [map]. now rewrite E.
      + rewrite join_cons2 in E. cbn [join_words] in E.
        exfalso. revert E. now apply no_split.
      + rewrite join_cons2 in E. cbn [join_words] in E.
        exfalso. symmetry in E. revert E. now apply no_split.
      + rewrite !join_cons2 in E. apply split_sp in E as [E1 E2]; try assumption.
        change (map word (x :: x' :: xs)) with (word x :: map word (x' :: xs)).
        change (map word (y :: y' :: ys)) with (word y :: map word (y' :: ys)).
        rewrite E1. f_equal. apply IH; try assumption.
        * eapply wf_word_tail; eassumption.
        * eapply wf_word_tail; eassumption.
  Qed.

  Fixpoint join_strs (ws : list str) : str :=
    match ws with
    | [] => []
    | [w] => w
    | w :: r => w ++ SP :: join_strs r
    end.

  Lemma join_words_map : forall ids, join_words word ids = join_strs (map word ids).
  Proof.
    induction ids as [|i r IH]; [reflexivity|].
    destruct r as [|j r]; [reflexivity|].
    rewrite join_cons2, IH. reflexivity.
  Qed.

  Lemma join_map_eq : forall xs ys, map word xs = map word ys ->
    join_words word xs = join_words word ys.
  Proof. intros xs ys E. rewrite !join_words_map. now rewrite E. Qed.

  Corollary join_eq_iff : forall xs ys, wf_word word xs -> wf_word word ys ->
    (join_words word xs = join_words word ys <-> map word xs = map word ys).
  Proof. intros xs ys Hx Hy. split; [now apply join_inj | apply join_map_eq]. Qed.

  (* ---- the stop test of diff_range_loop ---- *)
  Lemma str_eqb_spec : forall a b : str, str_eqb a b = true <-> a = b.
  Proof.
    induction a as [|x a IH]; intros [|y b]; cbn [str_eqb].
    - tauto.
    - split; discriminate.
    - split; discriminate.
    - rewrite andb_true_iff, N.eqb_eq, IH. split.
      + intros [-> ->]. reflexivity.
      + intros E. injection E as -> ->. auto.
  Qed.

  Definition stop_test (seen_rev known_rev : str) : bool :=
    match seen_rev with
    | _ :: ((_ :: _) as rest) => str_eqb rest known_rev
    | _ => false
    end.

  Lemma drl_cons : forall kr op text r endi start found seen_rev,
    diff_range_loop kr ((op, text) :: r) endi start found seen_rev =
    if stop_test seen_rev kr then (start, endi)
    else match op with
         | DDelete => diff_range_loop kr r (S endi) start found seen_rev
         | _ => diff_range_loop kr r (S endi) (if found then start else endi) true
                                (SP :: rev text ++ seen_rev)
         end.
  Proof. reflexivity. Qed.

  (* word-wise equality of id lists *)
  Fixpoint ids_eqw (a b : list N) : bool :=
    match a, b with
    | [], [] => true
    | x :: a', y :: b' => str_eqb (word x) (word y) && ids_eqw a' b'
    | _, _ => false
    end.

  Lemma ids_eqw_spec : forall a b, ids_eqw a b = true <-> map word a = map word b.
  Proof.
    induction a as [|x a IH]; intros [|y b]; cbn [ids_eqw map].
    - tauto.
    - split; discriminate.
    - split; discriminate.
    - rewrite andb_true_iff, str_eqb_spec, IH. split.
      + intros [-> ->]. reflexivity.
      + intros E. injection E as -> ->. auto.
  Qed.

  (* [seen] as a string, reversed, the way diff_range_loop accumulates it:
     the text of the ids so far followed by one space *)
  Definition enc (seen : list N) : str :=
    match seen with [] => [] | _ => SP :: rev (join_words word seen) end.

  Definition stop_ids (K seen : list N) : bool :=
    match seen with [] => false | _ => ids_eqw seen K end.

  (* the "prefix" version of injectivity: the reconstructed text equals
     [known] exactly when the id-level reconstruction has K's words *)
  Lemma stop_corr : forall K seen, wf_word word seen -> wf_word word K ->
    stop_test (enc seen) (rev (join_words word K)) = stop_ids K seen.
  Proof.
    intros K [|i r] Hs HK; [reflexivity|].
    unfold enc, stop_ids.
    pose proof (join_nonempty (i :: r) Hs ltac:(discriminate)) as Hne.
    set (t := join_words word (i :: r)) in *.
    destruct (rev t) as [|c rt] eqn:Er.
    - exfalso. apply Hne. rewrite <- (rev_involutive t), Er. reflexivity.
    - unfold stop_test. rewrite <- Er.
      apply eq_true_iff_eq. rewrite str_eqb_spec, ids_eqw_spec. split.
      + intros E. apply join_inj; try assumption.
        fold t. rewrite <- (rev_involutive t), E. apply rev_involutive.
      + intros E. fold t. f_equal. apply join_map_eq. exact E.
  Qed.

  Lemma stop_ids_true : forall K seen, stop_ids K seen = true ->
    seen <> [] /\ map word seen = map word K.
  Proof.
    intros K [|i r] H; [discriminate|]. split; [discriminate|].
    now apply ids_eqw_spec.
  Qed.

  Lemma enc_app : forall seen ids, ids <> [] ->
    SP :: rev (join_words word ids) ++ enc seen = enc (seen ++ ids).
  Proof.
    intros [|i r] ids Hne.
    - cbn [enc app]. rewrite app_nil_r. destruct ids; [congruence|reflexivity].
    - change ((i :: r) ++ ids) with (i :: (r ++ ids)). unfold enc.
      change (i :: (r ++ ids)) with ((i :: r) ++ ids).
      rewrite join_app by (assumption || discriminate).
      rewrite rev_app_distr. cbn [rev]. rewrite <- app_assoc. reflexivity.
  Qed.
End Bridge.

(* ================================================================== *)
(** * 4. Trimming                                                      *)
(* ================================================================== *)
(* diff_range at id level; [seen] is the list of ids reconstructed so far *)
Fixpoint dri_loop (word : N -> str) (K : list N) (ds : list diff) (endi start : nat) (found : bool)
         (seen : list N) : nat * nat :=
  match ds with
  | [] => (start, endi)
  | (op, ids) :: r =>
    if stop_ids word K seen then (start, endi)
    else
      match op with
      | DDelete => dri_loop word K r (S endi) start found seen
      | _ => dri_loop word K r (S endi) (if found then start else endi) true (seen ++ ids)
      end
  end.

Definition diff_range_ids (word : N -> str) (K : list N) (ds : list diff) : nat * nat :=
  dri_loop word K ds 0 0 false [].

Lemma drl_corr : forall word K ds endi start found seen,
  wf_word word K -> wf_script word ds -> D3 ds -> wf_word word seen ->
  diff_range_loop (rev (join_words word K)) (map (hydrate word) ds) endi start found (enc word seen)
  = dri_loop word K ds endi start found seen.
Proof.
  intros word K. induction ds as [|[op ids] r IH]; intros endi start found seen HK Hwf Hd3 Hs.
  - reflexivity.
  - assert (Hwi : wf_word word ids) by (apply (Hwf (op, ids)); now left).
    assert (Hni : ids <> []) by (apply (Hd3 (op, ids)); now left).
    pose proof (wf_script_tail _ _ _ Hwf) as Hwf'. pose proof (D3_tail _ _ Hd3) as Hd3'.
    cbn [map]. change (hydrate word (op, ids)) with (op, join_words word ids). cbn [fst snd].
    rewrite drl_cons, stop_corr by assumption. cbn [dri_loop].
    destruct (stop_ids word K seen); [reflexivity|].
    destruct op.
    + rewrite enc_app by assumption. apply IH; try assumption. now apply wf_word_app.
    + rewrite enc_app by assumption. apply IH; try assumption. now apply wf_word_app.
    + apply IH; assumption.
Qed.

(* correspondence: on hydrated well-formed scripts, diff_range is diff_range_ids *)
Theorem diff_range_corr : forall word K ds,
  wf_word word K -> wf_script word ds -> D3 ds ->
  diff_range (join_words word K) (map (hydrate word) ds) = diff_range_ids word K ds.
Proof.
  intros word K ds HK Hwf Hd3. unfold diff_range, diff_range_ids.
  change (@nil N) with (enc word []) at 1.
  apply drl_corr; try assumption. intros i [].
Qed.

Definition all_del (l : list diff) : Prop := Forall (fun d => fst d = DDelete) l.

Lemma all_del_dst : forall l, all_del l -> dst l = [].
Proof.
  induction 1 as [|[op ids] r H _ IH]; [reflexivity|].
  rewrite dst_cons, IH. cbn [fst] in H. subst op. reflexivity.
Qed.

Lemma all_del_src_total : forall l, all_del l -> length (src l) = total l.
Proof.
  induction 1 as [|[op ids] r H _ IH]; [reflexivity|].
  rewrite src_cons, app_length, IH. cbn [fst] in H. subst op. reflexivity.
Qed.

Lemma dst_nil_all_del : forall l, D3 l -> dst l = [] -> all_del l.
Proof.
  induction l as [|[op ids] r IH]; intros Hd3 E; [constructor|].
  rewrite dst_cons in E. apply app_eq_nil in E as [E1 E2].
  assert (Hni : ids <> []) by (apply (Hd3 (op, ids)); now left).
  constructor.
  - destruct op; cbn [dst_ids fst snd] in E1; try congruence. reflexivity.
  - apply IH; [eapply D3_tail; eassumption | assumption].
Qed.

Lemma firstn_app_le : forall (A : Type) n (l1 l2 : list A), n <= length l1 ->
  firstn n (l1 ++ l2) = firstn n l1.
Proof.
  intros A n l1 l2 H. rewrite firstn_app.
  replace (n - length l1) with 0 by lia. cbn [firstn]. apply app_nil_r.
Qed.

Lemma skipn_app_len : forall (A : Type) (l1 l2 : list A), skipn (length l1) (l1 ++ l2) = l2.
Proof. induction l1 as [|x l1 IH]; intros l2; [reflexivity|]. cbn [length app skipn]. apply IH. Qed.

Lemma firstn_app_len : forall (A : Type) (l1 l2 : list A), firstn (length l1) (l1 ++ l2) = l1.
Proof.
  induction l1 as [|x l1 IH]; intros l2; [reflexivity|]. cbn [length app firstn]. now rewrite IH.
Qed.

Lemma app_same_length_nil : forall (A : Type) (a b : list A),
  length a = length (a ++ b) -> b = [].
Proof.
  intros A a b H. rewrite app_length in H. apply length_zero_iff_nil. lia.
Qed.

(* the loop invariant: [pre] is the part already consumed *)
Lemma dri_spec : forall word K ds pre start found st en,
  D3 ds ->
  dst pre ++ dst ds = K ->
  start <= length pre ->
  all_del (firstn start pre) ->
  (found = false -> all_del pre) ->
  dri_loop word K ds (length pre) start found (dst pre) = (st, en) ->
  st <= en /\ en <= length (pre ++ ds) /\
  all_del (firstn st (pre ++ ds)) /\ all_del (skipn en (pre ++ ds)).
Proof.
  intros word K. induction ds as [|[op ids] r IH]; intros pre start found st en Hd3 HK Hst Hfs Hnf Hrun.
  - cbn [dri_loop] in Hrun. injection Hrun as <- <-.
    rewrite app_nil_r. repeat split; try lia; try assumption.
    rewrite skipn_all. constructor.
  - cbn [dri_loop] in Hrun.
    destruct (stop_ids word K (dst pre)) eqn:Hstop.
    + (* early break: the reconstruction already has K's words *)
      injection Hrun as <- <-.
      apply stop_ids_true in Hstop as [_ Hmap].
      assert (Hlen : length (dst pre) = length K).
      { rewrite <- (map_length word (dst pre)), Hmap. apply map_length. }
      assert (Hrest : dst ((op, ids) :: r) = []).
      { apply (app_same_length_nil _ (dst pre)). rewrite Hlen. f_equal. symmetry. exact HK. }
      rewrite app_length. repeat split; try lia.
      * rewrite firstn_app_le by lia. assumption.
      * rewrite skipn_app_len. now apply dst_nil_all_del.
    + set (pre' := pre ++ [(op, ids)]).
      assert (Hpl : length pre' = S (length pre)).
      { unfold pre'. rewrite app_length. cbn [length]. lia. }
      assert (Happ : pre ++ (op, ids) :: r = pre' ++ r).
      { unfold pre'. rewrite <- app_assoc. reflexivity. }
      assert (Hdp : dst pre' = dst pre ++ dst_ids (op, ids)).
      { unfold pre'. rewrite dst_app. unfold dst at 2. cbn [flat_map]. now rewrite app_nil_r. }
      assert (HK' : dst pre' ++ dst r = K).
      { rewrite Hdp, <- app_assoc. rewrite dst_cons in HK. exact HK. }
      pose proof (D3_tail _ _ Hd3) as Hd3'.
      cut (st <= en /\ en <= length (pre' ++ r) /\
           all_del (firstn st (pre' ++ r)) /\ all_del (skipn en (pre' ++ r))).
      { rewrite <- Happ. exact (fun x => x). }
      rewrite <- Hpl in Hrun.
      destruct op.
      * (* Equal *)
        replace (dst pre ++ ids) with (dst pre') in Hrun by (rewrite Hdp; reflexivity).
        apply (IH pre' (if found then start else length pre) true st en Hd3' HK');
          try assumption.
        -- destruct found; lia.
        -- destruct found.
           ++ unfold pre'. rewrite firstn_app_le by lia. assumption.
           ++ unfold pre'. rewrite firstn_app_len. now apply Hnf.
        -- discriminate.
      * (* Insert *)
        replace (dst pre ++ ids) with (dst pre') in Hrun by (rewrite Hdp; reflexivity).
        apply (IH pre' (if found then start else length pre) true st en Hd3' HK');
          try assumption.
        -- destruct found; lia.
        -- destruct found.
           ++ unfold pre'. rewrite firstn_app_le by lia. assumption.
           ++ unfold pre'. rewrite firstn_app_len. now apply Hnf.
        -- discriminate.
      * (* Delete *)
        replace (dst pre) with (dst pre') in Hrun
          by (rewrite Hdp; cbn [dst_ids fst]; now rewrite app_nil_r).
        apply (IH pre' start found st en Hd3' HK'); try assumption.
        -- lia.
        -- unfold pre'. rewrite firstn_app_le by lia. assumption.
        -- intros Hf. unfold pre', all_del. apply Forall_app. split; [now apply Hnf|].
           constructor; [reflexivity|constructor].
Qed.

Lemma three_split : forall (A : Type) (l : list A) st en, st <= en ->
  l = firstn st l ++ firstn (en - st) (skipn st l) ++ skipn en l.
Proof.
  induction l as [|x l IH]; intros st en H.
  - now rewrite !firstn_nil, !skipn_nil, firstn_nil.
  - destruct st as [|st].
    + cbn [firstn skipn app]. rewrite Nat.sub_0_r. symmetry. apply firstn_skipn.
    + destruct en as [|en]; [lia|].
      cbn [firstn skipn app Nat.sub]. f_equal. apply IH. lia.
Qed.

(* id-level trimming theorem *)
Theorem trim_valid_ids : forall word ds R K st en,
  valid_script ds R K -> D3 ds ->
  diff_range_ids word K ds = (st, en) ->
  let A := firstn st ds in
  let B := skipn en ds in
  let M := firstn (en - st) (skipn st ds) in
  let so := length (src A) in
  let eo := length (src B) in
  all_del A /\ all_del B /\ so + eo <= length R /\
  valid_script M (firstn (length R - so - eo) (skipn so R)) K.
Proof.
  intros word ds R K st en [HR HK] Hd3 Hrun A B M so eo.
  destruct (dri_spec word K ds [] 0 false st en Hd3) as (Hle & Hen & HA & HB); try assumption.
  - cbn [length]. lia.
  - constructor.
  - intros _. constructor.
  - cbn [app] in HA, HB. fold A in HA. fold B in HB.
    pose proof (three_split _ ds st en Hle) as Hsplit. fold A M B in Hsplit.
    assert (HRs : R = src A ++ src M ++ src B).
    { rewrite <- HR. rewrite Hsplit at 1. now rewrite !src_app. }
    assert (HKs : K = dst M).
    { rewrite <- HK. rewrite Hsplit at 1.
      rewrite !dst_app, (all_del_dst A HA), (all_del_dst B HB), app_nil_r. reflexivity. }
    assert (HlenR : length R = so + length (src M) + eo).
    { rewrite HRs, !app_length. unfold so, eo. lia. }
    repeat split; try assumption; try lia.
    + rewrite HRs at 2. unfold so at 2. rewrite skipn_app_len.
      replace (length R - so - eo) with (length (src M)) by lia.
      now rewrite firstn_app_len.
    + now symmetry.
Qed.

(* the same, stated on the string-level [diff_range] of Match.v *)
Theorem trim_valid : forall word ds R K st en,
  valid_script ds R K -> wf_script word ds -> D3 ds ->
  diff_range (join_words word K) (map (hydrate word) ds) = (st, en) ->
  let A := firstn st ds in
  let B := skipn en ds in
  let M := firstn (en - st) (skipn st ds) in
  let so := length (src A) in
  let eo := length (src B) in
  all_del A /\ all_del B /\ so + eo <= length R /\
  valid_script M (firstn (length R - so - eo) (skipn so R)) K.
Proof.
  intros word ds R K st en Hv Hwf Hd3 Hrun.
  apply (trim_valid_ids word); try assumption.
  rewrite <- Hrun. symmetry. apply diff_range_corr; try assumption.
  destruct Hv as [_ <-]. now apply wf_script_dst.
Qed.

Lemma In_firstn : forall (A : Type) n (l : list A) x, In x (firstn n l) -> In x l.
Proof. intros A n l x H. rewrite <- (firstn_skipn n l). apply in_or_app. now left. Qed.

Lemma wf_script_firstn : forall word n ds, wf_script word ds -> wf_script word (firstn n ds).
Proof. intros word n ds H d Hd. apply H. eapply In_firstn; eassumption. Qed.

Lemma In_skipn : forall (A : Type) n (l : list A) x, In x (skipn n l) -> In x l.
Proof. intros A n l x H. rewrite <- (firstn_skipn n l). apply in_or_app. now right. Qed.

Lemma wf_script_skipn : forall word n ds, wf_script word ds -> wf_script word (skipn n ds).
Proof. intros word n ds H d Hd. apply H. eapply In_skipn; eassumption. Qed.

(* ================================================================== *)
(** * 5. Main theorems about [score]                                   *)
(* ================================================================== *)
(* the trimmed, hydrated script [score] hands to [score_diffs] *)
Definition trimmed (C : config) (d : cdoc) (raw : list diff) : list tdiff :=
  let ds := map (hydrate (cf_word C)) raw in
  let '(st, en) := diff_range (join_words (cf_word C) (cd_ids d)) ds in
  firstn (en - st) (skipn st ds).

Lemma score_eq : forall C d s e raw lname,
  cf_diff C (cd_key d) s e = Some raw ->
  key_part (cd_key d) 1 = Some lname ->
  score C d s e =
  let ds := map (hydrate (cf_word C)) raw in
  let '(st, en) := diff_range (join_words (cf_word C) (cd_ids d)) ds in
  let dist := score_diffs (cf_is_digit C) lname (firstn (en - st) (skipn st ds)) in
  if (dist <? 0)%Z then Ok (fzero, 0%Z, 0%Z)
  else Ok (confidence (Z.of_nat (length (cd_ids d))) dist,
           text_length (firstn st ds), text_length (skipn en ds)).
Proof. intros C d s e raw lname H1 H2. unfold score. rewrite H1, H2. reflexivity. Qed.

(* the scan only ever returns one of the three negative codes *)
Lemma score_scan_codes : forall isd lname ds pt pd c,
  score_scan isd lname ds pt pd = Some c -> c = (-1)%Z \/ c = (-2)%Z \/ c = (-3)%Z.
Proof.
  intros isd lname. induction ds as [|[op text] rest IH]; intros pt pd c H; [discriminate|].
  cbn [score_scan] in H. destruct op.
  - eapply IH; eassumption.
  - repeat match type of H with
           | (if ?b then _ else _) = _ => destruct b
           end.
    + injection H as <-. now left.
    + injection H as <-. right. now left.
    + injection H as <-. right. now right.
    + eapply IH; eassumption.
  - match type of H with (if ?b then _ else _) = _ => destruct b end.
    + injection H as <-. right. now right.
    + eapply IH; eassumption.
Qed.

Lemma score_diffs_nonneg : forall isd lname ds,
  (score_diffs isd lname ds >= 0)%Z ->
  score_scan isd lname ds [] [] = None /\ score_diffs isd lname ds = lev_word ds.
Proof.
  intros isd lname ds H. unfold score_diffs in *.
  destruct (score_scan isd lname ds [] []) as [c|] eqn:E; [|auto].
  apply score_scan_codes in E. lia.
Qed.

(* accepted branch *)
Theorem score_sound : forall C d s e raw R lname conf so eo,
  cf_diff C (cd_key d) s e = Some raw ->
  valid_script raw R (cd_ids d) ->
  wf_script (cf_word C) raw ->
  D3 raw ->
  key_part (cd_key d) 1 = Some lname ->
  score C d s e = Ok (conf, so, eo) ->
  (score_diffs (cf_is_digit C) lname (trimmed C d raw) >= 0)%Z ->
  exists D : nat,
    Z.of_nat D = score_diffs (cf_is_digit C) lname (trimmed C d raw) /\
    Z.of_nat D = lev_word (trimmed C d raw) /\
    conf = confidence (Z.of_nat (length (cd_ids d))) (Z.of_nat D) /\
    (0 <= so)%Z /\ (0 <= eo)%Z /\
    Z.to_nat so + Z.to_nat eo <= length R /\
    let R' := firstn (length R - Z.to_nat so - Z.to_nat eo) (skipn (Z.to_nat so) R) in
    lev R' (cd_ids d) <= D /\ (D = 0 -> R' = cd_ids d).
Proof.
  intros C d s e raw R lname conf so eo Hdiff Hv Hwf Hd3 Hkey Hscore Hacc.
  rewrite (score_eq C d s e raw lname Hdiff Hkey) in Hscore.
  unfold trimmed in Hacc |- *. cbv zeta in Hscore, Hacc |- *.
  destruct (diff_range (join_words (cf_word C) (cd_ids d)) (map (hydrate (cf_word C)) raw))
    as [st en] eqn:Hdr.
  pose proof (trim_valid (cf_word C) raw R (cd_ids d) st en Hv Hwf Hd3 Hdr) as Ht.
  cbv zeta in Ht. destruct Ht as (HA & HB & Hlen & HM).
  rewrite !skipn_map, !firstn_map in *.
  set (A := firstn st raw) in *. set (B := skipn en raw) in *.
  set (M := firstn (en - st) (skipn st raw)) in *.
  assert (HwfM : wf_script (cf_word C) M) by (apply wf_script_firstn, wf_script_skipn, Hwf).
  assert (HwfA : wf_script (cf_word C) A) by (apply wf_script_firstn, Hwf).
  assert (HwfB : wf_script (cf_word C) B) by (apply wf_script_skipn, Hwf).
  destruct (score_diffs_nonneg _ _ _ Hacc) as [_ Hsd].
  rewrite Hsd in *. rewrite (lev_word_hydrate _ M HwfM) in *.
  destruct (Z.ltb_spec (Z.of_nat (lev_ids M)) 0) as [Hneg|_]; [lia|].
  injection Hscore as <- <- <-.
  rewrite (text_length_hydrate _ A HwfA), (text_length_hydrate _ B HwfB).
  rewrite <- (all_del_src_total A HA), <- (all_del_src_total B HB), !Nat2Z.id.
  exists (lev_ids M).
  destruct (valid_script_lev _ _ _ HM) as [Hb Hz].
  repeat split; try lia; assumption.
Qed.

(* rejected branch *)
Theorem score_rejected : forall C d s e raw lname conf so eo,
  cf_diff C (cd_key d) s e = Some raw ->
  key_part (cd_key d) 1 = Some lname ->
  score C d s e = Ok (conf, so, eo) ->
  (score_diffs (cf_is_digit C) lname (trimmed C d raw) < 0)%Z ->
  conf = fzero /\ so = 0%Z /\ eo = 0%Z.
Proof.
  intros C d s e raw lname conf so eo Hdiff Hkey Hscore Hrej.
  rewrite (score_eq C d s e raw lname Hdiff Hkey) in Hscore.
  unfold trimmed in Hrej. cbv zeta in Hscore, Hrej.
  destruct (diff_range (join_words (cf_word C) (cd_ids d)) (map (hydrate (cf_word C)) raw))
    as [st en].
  apply Z.ltb_lt in Hrej. rewrite Hrej in Hscore. injection Hscore as <- <- <-. auto.
Qed.

(* both branches in one statement: whatever [score] returns under the oracle
   contract is either the rejection triple or a sound (never understated)
   distance for the reported span *)
Theorem score_sound_cases : forall C d s e raw R lname conf so eo,
  cf_diff C (cd_key d) s e = Some raw ->
  valid_script raw R (cd_ids d) ->
  wf_script (cf_word C) raw ->
  D3 raw ->
  key_part (cd_key d) 1 = Some lname ->
  score C d s e = Ok (conf, so, eo) ->
  ((exists c, score_scan (cf_is_digit C) lname (trimmed C d raw) [] [] = Some c /\
              (c = (-1)%Z \/ c = (-2)%Z \/ c = (-3)%Z)) /\
   conf = fzero /\ so = 0%Z /\ eo = 0%Z)
  \/
  (score_scan (cf_is_digit C) lname (trimmed C d raw) [] [] = None /\
   exists D : nat,
     Z.of_nat D = lev_word (trimmed C d raw) /\
     conf = confidence (Z.of_nat (length (cd_ids d))) (Z.of_nat D) /\
     (0 <= so)%Z /\ (0 <= eo)%Z /\
     Z.to_nat so + Z.to_nat eo <= length R /\
     let R' := firstn (length R - Z.to_nat so - Z.to_nat eo) (skipn (Z.to_nat so) R) in
     lev R' (cd_ids d) <= D /\ (D = 0 -> R' = cd_ids d)).
Proof.
  intros C d s e raw R lname conf so eo Hdiff Hv Hwf Hd3 Hkey Hscore.
  destruct (Z_lt_ge_dec (score_diffs (cf_is_digit C) lname (trimmed C d raw)) 0) as [Hneg|Hpos].
  - left. split.
    + unfold score_diffs in Hneg.
      destruct (score_scan (cf_is_digit C) lname (trimmed C d raw) [] []) as [c|] eqn:E.
      * exists c. split; [reflexivity|]. eapply score_scan_codes; eassumption.
      * (* no code: the distance is lev_word >= 0 *)
        exfalso. revert Hneg. unfold trimmed. cbv zeta.
        destruct (diff_range (join_words (cf_word C) (cd_ids d)) (map (hydrate (cf_word C)) raw))
          as [st en].
        rewrite skipn_map, firstn_map, lev_word_hydrate; [lia|].
        apply wf_script_firstn, wf_script_skipn, Hwf.
    + eapply score_rejected; eassumption.
  - right. destruct (score_diffs_nonneg _ _ _ Hpos) as [Hnone _]. split; [exact Hnone|].
    destruct (score_sound C d s e raw R lname conf so eo Hdiff Hv Hwf Hd3 Hkey Hscore Hpos)
      as (D & _ & H2 & H3). exists D. split; assumption.
Qed.

(* ================================================================== *)
(** * 6. Non-vacuity                                                   *)
(* ================================================================== *)
Module Examples.
  Local Open Scope N_scope.

  (* ids 1..5 -> "a".."e"; everything else -> "UNKNOWN" *)
  Definition ex_word (i : N) : str :=
    match i with
    | 1 => [97] | 2 => [98] | 3 => [99] | 4 => [100] | 5 => [101]
    | _ => [85;78;75;78;79;87;78]
    end.

  Definition ex_K : list N := [1;2;3;4].
  Definition ex_R : list N := [5;1;2;5;4;5;5].
  Definition ex_script : list diff :=
    [(DDelete, [5]); (DEqual, [1;2]); (DDelete, [5]); (DInsert, [3]); (DEqual, [4]); (DDelete, [5;5])].
  Definition ex_ds : list tdiff := map (hydrate ex_word) ex_script.
  Definition ex_mid : list diff := [(DEqual, [1;2]); (DDelete, [5]); (DInsert, [3]); (DEqual, [4])].

  Example ex_valid : valid_script ex_script ex_R ex_K.
  Proof. split; reflexivity. Qed.

  Example ex_D3 : D3 ex_script.
  Proof.
    intros d Hd. cbn [ex_script In] in Hd.
    repeat (destruct Hd as [<-|Hd]; [discriminate|]). contradiction.
  Qed.

  Lemma ex_word_wf : forall i, ex_word i <> [] /\ ~ In 32 (ex_word i).
  Proof.
    intros i. unfold ex_word.
    destruct i as [|p]; [split; [discriminate|cbn; intuition discriminate]|].
    do 3 (destruct p as [p|p|]; try (split; [discriminate|cbn; intuition discriminate])).
  Qed.

  Example ex_wf : wf_script ex_word ex_script.
  Proof. intros d _ i _. apply ex_word_wf. Qed.

  Example ex_known : join_words ex_word ex_K = [97;32;98;32;99;32;100].   (* "a b c d" *)
  Proof. reflexivity. Qed.

  Example ex_range : diff_range (join_words ex_word ex_K) ex_ds = (1, 5)%nat.
  Proof. vm_compute. reflexivity. Qed.

  Example ex_range_ids : diff_range_ids ex_word ex_K ex_script = (1, 5)%nat.
  Proof. vm_compute. reflexivity. Qed.

  Example ex_so : text_length (firstn 1 ex_ds) = 1%Z.
  Proof. vm_compute. reflexivity. Qed.

  Example ex_eo : text_length (skipn 5 ex_ds) = 2%Z.
  Proof. vm_compute. reflexivity. Qed.

  Example ex_mid_is : firstn (5 - 1) (skipn 1 ex_script) = ex_mid.
  Proof. reflexivity. Qed.

  Example ex_mid_valid : valid_script ex_mid [1;2;5;4] ex_K.
  Proof. split; reflexivity. Qed.

  Example ex_span : firstn (length ex_R - 1 - 2) (skipn 1 ex_R) = [1;2;5;4].
  Proof. reflexivity. Qed.

  Example ex_lev_word : lev_word (firstn (5 - 1) (skipn 1 ex_ds)) = 1%Z.
  Proof. vm_compute. reflexivity. Qed.

  Example ex_lev_ids : lev_ids ex_mid = 1%nat.
  Proof. vm_compute. reflexivity. Qed.

  Example ex_lev : lev [1;2;5;4] [1;2;3;4] = 1%nat.
  Proof. vm_compute. reflexivity. Qed.

  (* the bound can be strict (the script need not be optimal): moving a word
     by delete + re-insert costs 4 where the true distance is 2 *)
  Example ex_strict :
    lev_ids [(DDelete, [1;2]); (DEqual, [9]); (DInsert, [1;2])] = 4%nat /\
    lev [1;2;9] [9;1;2] = 2%nat.
  Proof. vm_compute. split; reflexivity. Qed.

  (* end to end through [score] *)
  Definition ex_C : config :=
    {| cf_thr := fzero; cf_word := ex_word; cf_is_digit := fun _ => false;
       cf_total_less := true; cf_diff := fun _ _ _ => Some ex_script |}.
  Definition ex_d : cdoc :=
    {| cd_key := [76;47;88;47;118];                       (* "L/X/v" *)
       cd_ids := ex_K;
       cd_set := {| SSet.ss_len := 4; SSet.ss_q := 1; SSet.ss_sums := [] |} |}.

  Definition ex_lname : str := [88].                      (* "X" *)

  Example ex_key : key_part (cd_key ex_d) 1 = Some ex_lname.
  Proof. reflexivity. Qed.

  Example ex_score :
    score ex_C ex_d 0 7 = Ok (confidence 4 1, 1%Z, 2%Z).
  Proof. vm_compute. reflexivity. Qed.

  Example ex_score_accepted :
    (score_diffs (cf_is_digit ex_C) ex_lname (trimmed ex_C ex_d ex_script) >= 0)%Z.
  Proof. vm_compute. discriminate. Qed.

  (* all hypotheses of [score_sound] hold for the example, so the theorem
     applies (and yields D = 1) *)
  Example ex_instance :
    exists D : nat,
      Z.of_nat D = lev_word (trimmed ex_C ex_d ex_script) /\
      (lev (firstn (length ex_R - 1 - 2) (skipn 1 ex_R)) ex_K <= D)%nat /\ D = 1%nat.
  Proof.
    destruct (score_sound ex_C ex_d 0 7 ex_script ex_R ex_lname _ _ _
                          eq_refl ex_valid ex_wf ex_D3 ex_key ex_score ex_score_accepted)
      as (D & _ & H2 & _ & _ & _ & _ & H7 & _).
    exists D. split; [exact H2|]. split; [exact H7|].
    apply Nat2Z.inj. rewrite H2. vm_compute. reflexivity.
  Qed.

  (* empty known document: no side condition [K <> []] is needed.  The
     string-level loop never stops early (the [length seen > 1] guard), every
     entry of a valid D3 script is a Delete, nothing is trimmed. *)
  Example ex_empty_K :
    diff_range (join_words ex_word []) (map (hydrate ex_word) [(DDelete, [5]); (DDelete, [1;2])])
    = (0, 2)%nat.
  Proof. vm_compute. reflexivity. Qed.

  (* why word-wise (not id-wise) equality is the right stop test: two ids with
     the same word ("UNKNOWN") are indistinguishable after hydration *)
  Example ex_unknown_stop :
    diff_range (join_words ex_word [6]) (map (hydrate ex_word) [(DEqual, [7]); (DDelete, [5])])
    = (0, 1)%nat.
  Proof. vm_compute. reflexivity. Qed.

  (* role of D3.  With an empty Insert entry after the reconstruction is
     complete, the trimmed-off suffix is no longer "all Delete" (the literal
     claim of [trim_valid] fails), and an empty entry in the middle puts two
     spaces into [seen], so the early stop never fires and trailing Deletes
     are not trimmed.  (In both cases the middle script is still a valid
     script for the reported span; D3 is what the structural statement and the
     string/id correspondence [diff_range_corr] need.) *)
  Example ex_D3_suffix :
    let ds := [(DEqual, [1]); (DInsert, [])] in
    valid_script ds [1] [1] /\
    diff_range (join_words ex_word [1]) (map (hydrate ex_word) ds) = (0, 1)%nat /\
    skipn 1 ds = [(DInsert, [])].
  Proof. vm_compute. repeat split; reflexivity. Qed.

  Example ex_D3_nostop :
    let ds := [(DEqual, [1]); (DInsert, []); (DEqual, [2]); (DDelete, [5])] in
    valid_script ds [1;2;5] [1;2] /\
    diff_range (join_words ex_word [1;2]) (map (hydrate ex_word) ds) = (0, 4)%nat /\
    diff_range_ids ex_word [1;2] ds = (0, 3)%nat.
  Proof. vm_compute. repeat split; reflexivity. Qed.
End Examples.

Print Assumptions lev_ids_bound.
Print Assumptions lev_ids_zero.
Print Assumptions lev_attained.
Print Assumptions diff_range_corr.
Print Assumptions trim_valid.
Print Assumptions score_sound.
Print Assumptions score_rejected.
Print Assumptions score_sound_cases.
