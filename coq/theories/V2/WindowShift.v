(* Position independence of the WHOLE searchset stage (targetMatchedRanges,
   detectRuns, fuseRanges, findPotentialMatches) for ARBITRARY content X
   embedded between two out-of-vocabulary blocks.
   FuseShift proves it GIVEN that the runs of detectRuns shift.  Here that
   hypothesis is discharged under explicit, checkable conditions:
     (a) |source| <= |X|            (same window length alone and embedded),
     (b) 0 < target                 (the clamped density target is positive),
     (c) the first L-1 positions of X alone do not reach the target
         (no window that starts in the preceding block can qualify);
   and the "run ends <= target size" hypothesis of FuseShift's corollary is
   replaced by in-bounds of the matched ranges, which follows from ss_wf. *)
From Coq Require Import List NArith ZArith Bool FMapPositive Sorted Lia ZifyBool ZifyN ZifyNat.
Import ListNotations.
From LC.Base Require Import Float64 Sort.
From LC.V2 Require Import SSet Shift WindowSpec FuseShift.
From LC.V2 Require MatchWF.
Local Open Scope N_scope.

(* ---------------------------------------------------------------------- *)
(* 1. group_runs commutes with a translation of the indices                *)
(* ---------------------------------------------------------------------- *)
Lemma group_runs_shift_some d q : forall out s e,
  group_runs (map (fun i => i + d) out) q (Some (s + d, e + d))
  = map (shift_run d) (group_runs out q (Some (s, e))).
Proof.
  induction out as [|i r IH]; intros s e.
  - reflexivity.
  - cbn [map]. rewrite !group_runs_some.
    replace (i + d + q =? e + d + 1) with (i + q =? e + 1)
      by (destruct (N.eqb_spec (i + q) (e + 1)), (N.eqb_spec (i + d + q) (e + d + 1)); lia).
    replace (i + d + q) with (i + q + d) by lia.
    destruct (i + q =? e + 1).
    + apply IH.
    + cbn [map]. change (shift_run d (s, e)) with (s + d, e + d). f_equal. apply IH.
Qed.

Theorem group_runs_shift out q d :
  group_runs (map (fun i => i + d) out) q None = map (shift_run d) (group_runs out q None).
Proof.
  destruct out as [|i r]; [reflexivity|].
  cbn [map]. rewrite !group_runs_none.
  replace (i + d + q) with (i + q + d) by lia.
  apply group_runs_shift_some.
Qed.

(* ---------------------------------------------------------------------- *)
(* 2. the window pass on an embedded hit list                              *)
(* ---------------------------------------------------------------------- *)

(* a window starting strictly before X sees at most the first L-1 positions of X *)
Lemma window_count_before_strict hitsX la lb i L :
  (i < la)%nat ->
  window_count (repeat 0 la ++ hitsX ++ repeat 0 lb) i L <= window_count hitsX 0 (L - 1).
Proof.
  intros Hi. unfold window_count at 1.
  rewrite skipn_repeat_app_le by lia.
  rewrite sumN_firstn_zeros_app.
  change (sumN (firstn (L - (la - i)) (hitsX ++ repeat 0 lb)))
    with (window_count (hitsX ++ repeat 0 lb) 0 (L - (la - i))).
  rewrite window_count_app_zeros. unfold window_count. cbn [skipn].
  apply sumN_firstn_mono. lia.
Qed.

Lemma filter_map_comm {A B} (f : B -> bool) (g : A -> B) l :
  filter f (map g l) = map g (filter (fun x => f (g x)) l).
Proof.
  induction l as [|x l IH]; [reflexivity|].
  cbn [map filter]. destruct (f (g x)); cbn [map]; rewrite IH; reflexivity.
Qed.

Lemma filter_none {A} (f : A -> bool) l : (forall x, In x l -> f x = false) -> filter f l = [].
Proof.
  induction l as [|x l IH]; intros H; [reflexivity|].
  cbn [filter]. rewrite (H x (or_introl eq_refl)). apply IH. intros y Hy. apply H. right. exact Hy.
Qed.

Theorem window_out_embedded_eq hitsX la lb L target :
  0 < target ->
  window_count hitsX 0 (L - 1) < target ->
  window_out (repeat 0 la ++ hitsX ++ repeat 0 lb) L target
  = map (fun i => i + N.of_nat la) (window_out hitsX L target).
Proof.
  intros Ht Hedge. rewrite !window_out_spec.
  rewrite !app_length, !repeat_length.
  rewrite seq_app, seq_app, !filter_app. cbn [Nat.add].
  (* no window starting in the preceding block qualifies *)
  rewrite (filter_none _ (seq 0 la)).
  2:{ intros i Hi. apply in_seq in Hi. apply N.leb_gt.
      pose proof (window_count_before_strict hitsX la lb i L ltac:(lia)). lia. }
  (* no window starting in the following block qualifies *)
  rewrite (filter_none _ (seq (la + length hitsX) lb)).
  2:{ intros j Hj. apply in_seq in Hj. apply qualifies_after; [exact Ht | lia]. }
  rewrite app_nil_l, app_nil_r.
  (* the windows starting inside X *)
  assert (Hseq : seq la (length hitsX) = map (Nat.add la) (seq 0 (length hitsX))).
  { rewrite <- seq_add_map. f_equal. lia. }
  rewrite Hseq, filter_map_comm, !map_map.
  rewrite (filter_ext _ (fun i => target <=? window_count hitsX i L))
    by (intros i; apply qualifies_embedded).
  apply map_ext. intros j. lia.
Qed.

(* ---------------------------------------------------------------------- *)
(* 3. detectRuns of an embedded target                                     *)
(* ---------------------------------------------------------------------- *)

(* detect_runs in terms of window_out, when the target is positive and the
   source is not longer than the target *)
Lemma detect_runs_window_out matched tl sl thr q :
  tl <> 0 -> (0 < trunc (fmul (of_Z (Z.of_N sl)) thr))%Z -> sl <= tl ->
  detect_runs matched tl sl thr q
  = group_runs (window_out (hits_of matched tl) (N.to_nat sl)
                           (Z.to_N (trunc (fmul (of_Z (Z.of_N sl)) thr)))) q None.
Proof.
  intros Hne Ht Hle. unfold detect_runs, window_out.
  destruct (N.eqb_spec tl 0) as [He|_]; [contradiction|]. cbv zeta.
  rewrite hits_of_length.
  replace (N.min sl tl) with sl by lia.
  replace (trunc (fmul (of_Z (Z.of_N sl)) thr) <? 0)%Z with false
    by (symmetry; apply Z.ltb_ge; lia).
  reflexivity.
Qed.

Theorem detect_runs_embedded (src : sset) (q lx lb : N) (SA SX SB : list N) (conf : f64) :
  (forall c, In c SA -> PositiveMap.find (pos_of_N c) (hashes src) = None) ->
  (forall c, In c SB -> PositiveMap.find (pos_of_N c) (hashes src) = None) ->
  0 < lx ->
  let tX := {| ss_len := lx; ss_q := q; ss_sums := SX |} in
  let tE := {| ss_len := N.of_nat (length SA) + lx + lb; ss_q := q; ss_sums := SA ++ SX ++ SB |} in
  MatchWF.ss_wf src -> MatchWF.ss_wf tX ->
  (* (a) *) ss_len src <= lx ->
  (* (b) *) (0 < trunc (fmul (of_Z (Z.of_N (ss_len src))) conf))%Z ->
  (* (c) *) window_count (hits_of (target_matched_ranges src tX) lx) 0 (N.to_nat (ss_len src) - 1)
            < Z.to_N (trunc (fmul (of_Z (Z.of_N (ss_len src))) conf)) ->
  detect_runs (target_matched_ranges src tE) (ss_len tE) (ss_len src) conf (ss_q src)
  = map (shift_run (N.of_nat (length SA)))
        (detect_runs (target_matched_ranges src tX) (ss_len tX) (ss_len src) conf (ss_q src)).
Proof.
  cbv zeta. intros HA HB Hlx Hsrc HtX Hlen Ht Hedge. cbn [ss_len].
  rewrite (detect_runs_window_out _ (N.of_nat (length SA) + lx + lb)) by (try assumption; lia).
  rewrite (detect_runs_window_out _ lx) by (try assumption; lia).
  rewrite (hits_of_embedded src q lx lb SA SX SB HA HB Hlx Hsrc HtX).
  rewrite window_out_embedded_eq by (try assumption; lia).
  apply group_runs_shift.
Qed.

(* ---------------------------------------------------------------------- *)
(* 4. the target size is irrelevant for in-bounds ranges on non-negative   *)
(*    diagonals (no hypothesis on the runs)                                *)
(* ---------------------------------------------------------------------- *)
Lemma in_filter_size_irrelevant_lt runs ts ts' o :
  o < ts -> ts <= ts' -> in_filter runs ts' o = in_filter runs ts o.
Proof.
  intros Ho Hle. unfold in_filter.
  replace (o <? ts') with true by (symmetry; apply N.ltb_lt; lia).
  replace (o <? ts) with true by (symmetry; apply N.ltb_lt; lia).
  reflexivity.
Qed.

Lemma fuse_step_size_irrelevant_wf em runs ts ts' m ftc fic isf cs :
  nonneg_off m -> tgt_start m < ts -> ts <= ts' ->
  fuse_step em runs ts' m ftc fic isf cs = fuse_step em runs ts m ftc fic isf cs.
Proof.
  intros Hm Hb Hle. pose proof Hm as Hz. apply nonneg_off_zoff in Hz. unfold fuse_step.
  replace (zoff m <? 0)%Z with false by (symmetry; apply Z.ltb_ge; lia).
  rewrite (in_filter_size_irrelevant_lt runs ts ts' (Z.to_N (zoff m))); [reflexivity| |exact Hle].
  unfold zoff in *. lia.
Qed.

Lemma fuse_loop_size_irrelevant_wf em runs ts ts' ms ftc fic isf cs :
  Forall nonneg_off ms -> Forall (fun m => tgt_start m < ts) ms -> ts <= ts' ->
  fuse_loop em runs ts' ms ftc fic isf cs = fuse_loop em runs ts ms ftc fic isf cs.
Proof.
  intros Hnn Hb Hle. revert fic isf cs.
  induction ms as [|m rest IH]; intros fic isf cs; [reflexivity|].
  apply Forall_cons_iff in Hnn. destruct Hnn as [Hm Hnn].
  apply Forall_cons_iff in Hb. destruct Hb as [Hbm Hb].
  rewrite !fuse_loop_cons, (fuse_step_size_irrelevant_wf em runs ts ts') by assumption.
  apply IH; assumption.
Qed.

Theorem fuse_ranges_size_irrelevant_wf matched conf size runs ts ts' :
  Forall nonneg_off matched -> Forall (fun m => tgt_start m < ts) matched -> ts <= ts' ->
  fuse_ranges matched conf size runs ts' = fuse_ranges matched conf size runs ts.
Proof.
  intros Hnn Hb Hle. unfold fuse_ranges. f_equal.
  apply fuse_loop_size_irrelevant_wf; assumption.
Qed.

Lemma fuse_ranges_shift_wf matched conf size runs ts d lb :
  Forall nonneg_off matched -> Forall (fun m => tgt_start m < ts) matched ->
  fuse_ranges (map (shift d) matched) conf size (map (shift_run d) runs) (ts + d + lb)
  = map (shift d) (fuse_ranges matched conf size runs ts).
Proof.
  intros Hnn Hb.
  rewrite (fuse_ranges_size_irrelevant_wf _ conf size _ (ts + d) (ts + d + lb)).
  - apply fuse_ranges_shift. exact Hnn.
  - apply Forall_forall. intros m Hin. apply in_map_iff in Hin. destruct Hin as (m' & <- & Hin').
    rewrite Forall_forall in Hnn. specialize (Hnn m' Hin').
    unfold nonneg_off in *. rewrite src_start_shift, tgt_start_shift. lia.
  - apply Forall_forall. intros m Hin. apply in_map_iff in Hin. destruct Hin as (m' & <- & Hin').
    rewrite Forall_forall in Hb. specialize (Hb m' Hin'). cbv beta in Hb.
    rewrite tgt_start_shift. lia.
  - lia.
Qed.

Lemma gmr_core_shift_wf matched runs conf size ts d lb :
  Forall nonneg_off matched -> Forall (fun m => tgt_start m < ts) matched ->
  gmr_core (map (shift d) matched) (map (shift_run d) runs) conf size (ts + d + lb)
  = map (shift d) (gmr_core matched runs conf size ts).
Proof.
  intros Hnn Hb. unfold gmr_core.
  destruct matched as [|m0 ms]; [reflexivity|].
  destruct runs as [|r0 rs]; [reflexivity|].
  exact (fuse_ranges_shift_wf (m0 :: ms) conf size (r0 :: rs) ts d lb Hnn Hb).
Qed.

(* ---------------------------------------------------------------------- *)
(* 5. the whole searchset stage                                            *)
(* ---------------------------------------------------------------------- *)
Theorem get_matched_ranges_position_independent
        (src : sset) (q lx lb : N) (SA SX SB : list N) (conf : f64) :
  (forall c, In c SA -> PositiveMap.find (pos_of_N c) (hashes src) = None) ->
  (forall c, In c SB -> PositiveMap.find (pos_of_N c) (hashes src) = None) ->
  0 < lx ->
  let tX := {| ss_len := lx; ss_q := q; ss_sums := SX |} in
  let tE := {| ss_len := N.of_nat (length SA) + lx + lb; ss_q := q; ss_sums := SA ++ SX ++ SB |} in
  MatchWF.ss_wf src -> MatchWF.ss_wf tX ->
  (* (a) *) ss_len src <= lx ->
  (* (b) *) (0 < trunc (fmul (of_Z (Z.of_N (ss_len src))) conf))%Z ->
  (* (c) *) window_count (hits_of (target_matched_ranges src tX) lx) 0 (N.to_nat (ss_len src) - 1)
            < Z.to_N (trunc (fmul (of_Z (Z.of_N (ss_len src))) conf)) ->
  Forall nonneg_off (target_matched_ranges src tX) ->
  get_matched_ranges src tE conf = map (shift (N.of_nat (length SA))) (get_matched_ranges src tX conf).
Proof.
  cbv zeta. intros HA HB Hlx Hsrc HtX Hlen Ht Hedge Hnn.
  rewrite !get_matched_ranges_core.
  rewrite (detect_runs_embedded src q lx lb SA SX SB conf HA HB Hlx Hsrc HtX Hlen Ht Hedge).
  rewrite (matched_ranges_shift src q (N.of_nat (length SA)) lx lb SA SX SB HA HB Hlx).
  cbn [ss_len].
  replace (N.of_nat (length SA) + lx + lb) with (lx + N.of_nat (length SA) + lb) by lia.
  apply gmr_core_shift_wf; [exact Hnn|].
  pose proof (MatchWF.tmr_in_bounds src _ Hsrc HtX) as Hall.
  eapply Forall_impl; [|exact Hall]. intros m Hm. destruct Hm as (H1 & H2 & _).
  cbn [ss_len] in H2. lia.
Qed.

Theorem searchset_stage_position_independent
        (src : sset) (q lx lb : N) (SA SX SB : list N) (conf : f64) :
  (forall c, In c SA -> PositiveMap.find (pos_of_N c) (hashes src) = None) ->
  (forall c, In c SB -> PositiveMap.find (pos_of_N c) (hashes src) = None) ->
  0 < lx ->
  let tX := {| ss_len := lx; ss_q := q; ss_sums := SX |} in
  let tE := {| ss_len := N.of_nat (length SA) + lx + lb; ss_q := q; ss_sums := SA ++ SX ++ SB |} in
  MatchWF.ss_wf src -> MatchWF.ss_wf tX ->
  (* (a) *) ss_len src <= lx ->
  (* (b) *) (0 < trunc (fmul (of_Z (Z.of_N (ss_len src))) conf))%Z ->
  (* (c) *) window_count (hits_of (target_matched_ranges src tX) lx) 0 (N.to_nat (ss_len src) - 1)
            < Z.to_N (trunc (fmul (of_Z (Z.of_N (ss_len src))) conf)) ->
  Forall nonneg_off (target_matched_ranges src tX) ->
  find_potential_matches src tE conf
  = map (shift (N.of_nat (length SA))) (find_potential_matches src tX conf).
Proof.
  cbv zeta. intros HA HB Hlx Hsrc HtX Hlen Ht Hedge Hnn. unfold find_potential_matches.
  rewrite (get_matched_ranges_position_independent src q lx lb SA SX SB conf
             HA HB Hlx Hsrc HtX Hlen Ht Hedge Hnn).
  apply take_while_claimed_shift.
Qed.

(* ---------------------------------------------------------------------- *)
(* 5b. the leading-edge condition (c) is NOT needed for the final result   *)
(*                                                                        *)
(* Without (c) the first run of the embedded text may start early, inside  *)
(* the preceding block (detect_runs_embedded fails, see                    *)
(* leading_edge_condition_needed below), but then X alone qualifies at     *)
(* index 0, and the early start only admits offsets that X's first run     *)
(* admits anyway.  fuseRanges looks at the runs only through in_filter at  *)
(* the offsets of the matched ranges, so the result is the same.           *)
(* ---------------------------------------------------------------------- *)

(* fuse_ranges depends on (runs, target size) only through in_filter at the
   offsets of the matched ranges *)
Lemma fuse_step_ext em runs1 ts1 runs2 ts2 m ftc fic isf cs :
  nonneg_off m ->
  in_filter runs1 ts1 (Z.to_N (zoff m)) = in_filter runs2 ts2 (Z.to_N (zoff m)) ->
  fuse_step em runs1 ts1 m ftc fic isf cs = fuse_step em runs2 ts2 m ftc fic isf cs.
Proof.
  intros Hm Hf. apply nonneg_off_zoff in Hm. unfold fuse_step.
  replace (zoff m <? 0)%Z with false by (symmetry; apply Z.ltb_ge; lia).
  rewrite Hf. reflexivity.
Qed.

Definition same_filter (runs1 : list (N * N)) (ts1 : N) (runs2 : list (N * N)) (ts2 : N) (m : range) : Prop :=
  nonneg_off m /\ in_filter runs1 ts1 (Z.to_N (zoff m)) = in_filter runs2 ts2 (Z.to_N (zoff m)).

Lemma fuse_loop_ext em runs1 ts1 runs2 ts2 ms ftc fic isf cs :
  Forall (same_filter runs1 ts1 runs2 ts2) ms ->
  fuse_loop em runs1 ts1 ms ftc fic isf cs = fuse_loop em runs2 ts2 ms ftc fic isf cs.
Proof.
  intros HF. revert fic isf cs.
  induction HF as [|m rest [Hm Hf] HF IH]; intros fic isf cs; [reflexivity|].
  rewrite !fuse_loop_cons, (fuse_step_ext em runs1 ts1 runs2 ts2) by assumption.
  apply IH.
Qed.

Lemma fuse_ranges_ext matched conf size runs1 ts1 runs2 ts2 :
  Forall (same_filter runs1 ts1 runs2 ts2) matched ->
  fuse_ranges matched conf size runs1 ts1 = fuse_ranges matched conf size runs2 ts2.
Proof.
  intros HF. unfold fuse_ranges. f_equal. apply fuse_loop_ext. exact HF.
Qed.

(* the two emptiness tests of getMatchedRanges are redundant in the model *)
Lemma fuse_loop_nil_runs em ts ms ftc : forall fic isf,
  fuse_loop em [] ts ms ftc fic isf [] = [].
Proof.
  induction ms as [|m rest IH]; intros fic isf; [reflexivity|].
  rewrite fuse_loop_cons.
  assert (E : fst (fuse_step em [] ts m ftc fic isf []) = []).
  { unfold fuse_step.
    destruct (if (zoff m <? 0)%Z then if (- zoff m <=? em)%Z then Some 0 else None
              else Some (Z.to_N (zoff m))) as [o|]; reflexivity. }
  rewrite E. apply IH.
Qed.

Lemma gmr_core_fuse matched runs conf size ts :
  gmr_core matched runs conf size ts = fuse_ranges matched conf size runs ts.
Proof.
  unfold gmr_core. destruct matched as [|m0 ms]; [reflexivity|].
  destruct runs as [|r0 rs]; [|reflexivity].
  unfold fuse_ranges. rewrite fuse_loop_nil_runs. reflexivity.
Qed.

(* in_filter on the output of group_runs, in terms of the reported indices *)
Lemma in_filter_runs_iff out q ts o :
  StronglySorted N.lt out -> 0 < q -> o < ts ->
  in_filter (group_runs out q None) ts o = true <-> exists j, In j out /\ j <= o < j + q.
Proof.
  intros Hs Hq Ho. unfold in_filter. rewrite existsb_exists. split.
  - intros ([s e] & Hin & Hb). cbn [fst snd] in Hb.
    destruct (group_runs_sound out q Hs s e Hin) as (H1 & H2 & H3 & H4).
    assert (Hso : s <= o /\ o < e) by lia. destruct Hso as [Hso Hoe].
    destruct (N.le_gt_cases o (e - q)) as [Hc|Hc].
    + exists o. split; [apply H4; lia | lia].
    + exists (e - q). split; [exact H2 | lia].
  - intros (j & Hj & Hb). destruct (group_runs_cover out q j Hj) as (s & e & Hin & H1 & H2).
    exists (s, e). split; [exact Hin|]. cbn [fst snd]. lia.
Qed.

Lemma window_out_elem hits L target j :
  In j (window_out hits L target) -> exists i : nat, j = N.of_nat i.
Proof.
  rewrite window_out_spec, in_map_iff. intros (i & <- & _). exists i. reflexivity.
Qed.

(* an offset of X is admitted by the embedded window output iff it is admitted by X's *)
Lemma admitted_embedded hitsX la lb L target q oX :
  0 < target ->
  (exists j, In j (window_out (repeat 0 la ++ hitsX ++ repeat 0 lb) L target)
             /\ j <= oX + N.of_nat la < j + q)
  <-> (exists j, In j (window_out hitsX L target) /\ j <= oX < j + q).
Proof.
  intros Ht. split.
  - intros (j & Hj & Hb). destruct (window_out_elem _ _ _ _ Hj) as (i & ->).
    destruct (Nat.lt_ge_cases i la) as [Hc|Hc].
    + exists 0. split; [|lia].
      apply (window_out_before hitsX la lb i L target Ht); [lia | exact Hj].
    + replace i with (la + (i - la))%nat in Hj by lia.
      apply (window_out_embedded hitsX la lb (i - la) L target Ht) in Hj.
      exists (N.of_nat (i - la)). split; [exact Hj | lia].
  - intros (j & Hj & Hb). destruct (window_out_elem _ _ _ _ Hj) as (i & ->).
    exists (N.of_nat (la + i)). split; [|lia].
    apply (window_out_embedded hitsX la lb i L target Ht). exact Hj.
Qed.

Lemma tmr_q0 src t : ss_q src = 0 -> target_matched_ranges src t = [].
Proof.
  intros Hq. unfold target_matched_ranges, hashes.
  replace (ss_q src =? 0) with true by (symmetry; apply N.eqb_eq; exact Hq).
  set (tsums := if ss_len t =? 0 then [] else if ss_q t =? 0 then [] else ss_sums t).
  rewrite <- (app_nil_r tsums), join_nodes_skip by (intros c _; apply PositiveMap.gempty).
  reflexivity.
Qed.

Theorem get_matched_ranges_position_independent_no_edge
        (src : sset) (q lx lb : N) (SA SX SB : list N) (conf : f64) :
  (forall c, In c SA -> PositiveMap.find (pos_of_N c) (hashes src) = None) ->
  (forall c, In c SB -> PositiveMap.find (pos_of_N c) (hashes src) = None) ->
  0 < lx ->
  let tX := {| ss_len := lx; ss_q := q; ss_sums := SX |} in
  let tE := {| ss_len := N.of_nat (length SA) + lx + lb; ss_q := q; ss_sums := SA ++ SX ++ SB |} in
  MatchWF.ss_wf src -> MatchWF.ss_wf tX ->
  (* (a) *) ss_len src <= lx ->
  (* (b) *) (0 < trunc (fmul (of_Z (Z.of_N (ss_len src))) conf))%Z ->
  Forall nonneg_off (target_matched_ranges src tX) ->
  get_matched_ranges src tE conf = map (shift (N.of_nat (length SA))) (get_matched_ranges src tX conf).
Proof.
  cbv zeta. intros HA HB Hlx Hsrc HtX Hlen Ht Hnn.
  destruct (N.eq_dec (ss_q src) 0) as [Hq0|Hq0].
  { unfold get_matched_ranges. rewrite !(tmr_q0 src _ Hq0). reflexivity. }
  rewrite !get_matched_ranges_core, !gmr_core_fuse. cbn [ss_len].
  rewrite (detect_runs_window_out _ (N.of_nat (length SA) + lx + lb)) by (try assumption; lia).
  rewrite (detect_runs_window_out _ lx) by (try assumption; lia).
  rewrite (hits_of_embedded src q lx lb SA SX SB HA HB Hlx Hsrc HtX).
  rewrite (matched_ranges_shift src q (N.of_nat (length SA)) lx lb SA SX SB HA HB Hlx).
  rewrite <- fuse_ranges_shift by exact Hnn.
  apply fuse_ranges_ext.
  pose proof (MatchWF.tmr_in_bounds src _ Hsrc HtX) as Hall.
  rewrite Forall_forall in Hnn, Hall. apply Forall_forall.
  intros m' Hin. apply in_map_iff in Hin. destruct Hin as (m & <- & Hin).
  pose proof (Hnn m Hin) as Hm. destruct (Hall m Hin) as (H1 & H2 & _). cbn [ss_len] in H2.
  split.
  { unfold nonneg_off in *. rewrite src_start_shift, tgt_start_shift. lia. }
  rewrite zoff_shift.
  replace (Z.to_N (zoff m + Z.of_N (N.of_nat (length SA))))
    with (Z.to_N (zoff m) + N.of_nat (length SA)) by (unfold nonneg_off, zoff in *; lia).
  rewrite in_filter_shift.
  assert (Ho : Z.to_N (zoff m) < lx) by (unfold nonneg_off, zoff in *; lia).
  apply eq_iff_eq_true.
  rewrite !in_filter_runs_iff by (try apply window_out_sorted; lia).
  apply admitted_embedded. lia.
Qed.

Theorem searchset_stage_position_independent_no_edge
        (src : sset) (q lx lb : N) (SA SX SB : list N) (conf : f64) :
  (forall c, In c SA -> PositiveMap.find (pos_of_N c) (hashes src) = None) ->
  (forall c, In c SB -> PositiveMap.find (pos_of_N c) (hashes src) = None) ->
  0 < lx ->
  let tX := {| ss_len := lx; ss_q := q; ss_sums := SX |} in
  let tE := {| ss_len := N.of_nat (length SA) + lx + lb; ss_q := q; ss_sums := SA ++ SX ++ SB |} in
  MatchWF.ss_wf src -> MatchWF.ss_wf tX ->
  (* (a) *) ss_len src <= lx ->
  (* (b) *) (0 < trunc (fmul (of_Z (Z.of_N (ss_len src))) conf))%Z ->
  Forall nonneg_off (target_matched_ranges src tX) ->
  find_potential_matches src tE conf
  = map (shift (N.of_nat (length SA))) (find_potential_matches src tX conf).
Proof.
  cbv zeta. intros HA HB Hlx Hsrc HtX Hlen Ht Hnn. unfold find_potential_matches.
  rewrite (get_matched_ranges_position_independent_no_edge src q lx lb SA SX SB conf
             HA HB Hlx Hsrc HtX Hlen Ht Hnn).
  apply take_while_claimed_shift.
Qed.

(* ---------------------------------------------------------------------- *)
(* 6. non-vacuity, and condition (c) is needed for the runs                *)
(* ---------------------------------------------------------------------- *)
Section Example.
Definition half : f64 := fdiv fone (of_Z 2).

Definition wx_src : sset := {| ss_len := 6; ss_q := 2; ss_sums := [1;2;3;4;5] |}.
Definition wx_SA : list N := [7;8].
(* X: three foreign q-grams, then a copy of the source *)
Definition wx_SX : list N := [20;21;22;1;2;3;4;5].
Definition wx_SB : list N := [9].
Definition wx_tX : sset := {| ss_len := 9; ss_q := 2; ss_sums := wx_SX |}.
Definition wx_tE : sset :=
  {| ss_len := N.of_nat (length wx_SA) + 9 + 1; ss_q := 2; ss_sums := wx_SA ++ wx_SX ++ wx_SB |}.

Example wx_hyps :
  (forall c, In c wx_SA -> PositiveMap.find (pos_of_N c) (hashes wx_src) = None) /\
  (forall c, In c wx_SB -> PositiveMap.find (pos_of_N c) (hashes wx_src) = None) /\
  0 < 9 /\ MatchWF.ss_wf wx_src /\ MatchWF.ss_wf wx_tX /\
  ss_len wx_src <= 9 /\
  (0 < trunc (fmul (of_Z (Z.of_N (ss_len wx_src))) half))%Z /\
  window_count (hits_of (target_matched_ranges wx_src wx_tX) 9) 0 (N.to_nat (ss_len wx_src) - 1)
    < Z.to_N (trunc (fmul (of_Z (Z.of_N (ss_len wx_src))) half)) /\
  Forall nonneg_off (target_matched_ranges wx_src wx_tX).
Proof.
  repeat match goal with |- _ /\ _ => split end.
  - intros c [<-|[<-|[]]]; vm_compute; reflexivity.
  - intros c [<-|[]]; vm_compute; reflexivity.
  - reflexivity.
  - split; cbn; [discriminate|reflexivity].
  - split; cbn; [discriminate|reflexivity].
  - vm_compute. discriminate.
  - vm_compute. reflexivity.
  - vm_compute. reflexivity.
  - assert (EX : target_matched_ranges wx_src wx_tX =
                 [ {| src_start := 0; src_end := 6; tgt_start := 3; tgt_end := 9; claimed := 6 |} ])
      by (vm_compute; reflexivity).
    rewrite EX. constructor; [|constructor]. unfold nonneg_off; cbn [src_start tgt_start]. lia.
Qed.

(* the values entering (b) and (c): target 3, two hits in the first L-1 = 5 positions *)
Example wx_values :
  trunc (fmul (of_Z (Z.of_N (ss_len wx_src))) half) = 3%Z /\
  hits_of (target_matched_ranges wx_src wx_tX) 9 = [0;0;0;1;1;1;1;1;1] /\
  window_count (hits_of (target_matched_ranges wx_src wx_tX) 9) 0 5 = 2 /\
  detect_runs (target_matched_ranges wx_src wx_tX) (ss_len wx_tX) (ss_len wx_src) half (ss_q wx_src)
  = [(0, 8)].
Proof. vm_compute. repeat split; reflexivity. Qed.

Example wx_stage :
  find_potential_matches wx_src wx_tE half = map (shift 2) (find_potential_matches wx_src wx_tX half) /\
  get_matched_ranges wx_src wx_tE half = map (shift 2) (get_matched_ranges wx_src wx_tX half) /\
  detect_runs (target_matched_ranges wx_src wx_tE) (ss_len wx_tE) (ss_len wx_src) half (ss_q wx_src)
  = map (shift_run 2)
        (detect_runs (target_matched_ranges wx_src wx_tX) (ss_len wx_tX) (ss_len wx_src) half (ss_q wx_src)) /\
  find_potential_matches wx_src wx_tX half =
  [ {| src_start := 0; src_end := 6; tgt_start := 3; tgt_end := 9; claimed := 6 |} ].
Proof.
  destruct wx_hyps as (HA & HB & Hlx & Hs & Ht & Ha & Hb & Hc & Hnn).
  split; [|split; [|split]].
  - exact (searchset_stage_position_independent wx_src 2 9 1 wx_SA wx_SX wx_SB half
             HA HB Hlx Hs Ht Ha Hb Hc Hnn).
  - exact (get_matched_ranges_position_independent wx_src 2 9 1 wx_SA wx_SX wx_SB half
             HA HB Hlx Hs Ht Ha Hb Hc Hnn).
  - exact (detect_runs_embedded wx_src 2 9 1 wx_SA wx_SX wx_SB half HA HB Hlx Hs Ht Ha Hb Hc).
  - vm_compute. reflexivity.
Qed.

(* the same equation, checked by computation *)
Example wx_stage_computed :
  find_potential_matches wx_src wx_tE half =
  [ {| src_start := 0; src_end := 6; tgt_start := 5; tgt_end := 11; claimed := 6 |} ] /\
  detect_runs (target_matched_ranges wx_src wx_tE) (ss_len wx_tE) (ss_len wx_src) half (ss_q wx_src)
  = [(2, 10)].
Proof. vm_compute. split; reflexivity. Qed.

(* Condition (c) is needed for the runs: X = an exact copy of the source,
   threshold 0.5.  All other hypotheses of detect_runs_embedded hold, (c)
   fails (5 hits in the first 5 positions, target 3), and the run of the
   embedded text starts 2 tokens early, inside the preceding block.
   (WindowSpec.leading_edge_alone / leading_edge_embedded show the same on
   the bare window pass.) *)
Definition cx_SX : list N := [1;2;3;4;5].
Definition cx_tX : sset := {| ss_len := 6; ss_q := 2; ss_sums := cx_SX |}.
Definition cx_tE : sset :=
  {| ss_len := N.of_nat (length wx_SA) + 6 + 1; ss_q := 2; ss_sums := wx_SA ++ cx_SX ++ wx_SB |}.

Example leading_edge_condition_needed :
  MatchWF.ss_wf cx_tX /\ ss_len wx_src <= 6 /\
  (0 < trunc (fmul (of_Z (Z.of_N (ss_len wx_src))) half))%Z /\
  Forall nonneg_off (target_matched_ranges wx_src cx_tX) /\
  ~ (window_count (hits_of (target_matched_ranges wx_src cx_tX) 6) 0 (N.to_nat (ss_len wx_src) - 1)
     < Z.to_N (trunc (fmul (of_Z (Z.of_N (ss_len wx_src))) half))) /\
  detect_runs (target_matched_ranges wx_src cx_tX) (ss_len cx_tX) (ss_len wx_src) half (ss_q wx_src)
  = [(0, 5)] /\
  detect_runs (target_matched_ranges wx_src cx_tE) (ss_len cx_tE) (ss_len wx_src) half (ss_q wx_src)
  = [(0, 7)] /\
  detect_runs (target_matched_ranges wx_src cx_tE) (ss_len cx_tE) (ss_len wx_src) half (ss_q wx_src)
  <> map (shift_run 2)
         (detect_runs (target_matched_ranges wx_src cx_tX) (ss_len cx_tX) (ss_len wx_src) half (ss_q wx_src)).
Proof.
  repeat match goal with |- _ /\ _ => split end.
  - split; cbn; [discriminate|reflexivity].
  - vm_compute. discriminate.
  - vm_compute. reflexivity.
  - assert (EX : target_matched_ranges wx_src cx_tX =
                 [ {| src_start := 0; src_end := 6; tgt_start := 0; tgt_end := 6; claimed := 6 |} ])
      by (vm_compute; reflexivity).
    rewrite EX. constructor; [|constructor]. unfold nonneg_off; cbn [src_start tgt_start]. lia.
  - vm_compute. intros H. discriminate H.
  - vm_compute. reflexivity.
  - vm_compute. reflexivity.
  - vm_compute. discriminate.
Qed.

(* ... although, in this instance, the final result still shifts: the early
   start of the first run only admits offsets below |SA|, and no range on a
   non-negative diagonal has such an offset.  (c) is sufficient, not
   necessary, for the composed statement; this is an instance of
   searchset_stage_position_independent_no_edge. *)
Example leading_edge_final_result_still_shifts :
  find_potential_matches wx_src cx_tE half = map (shift 2) (find_potential_matches wx_src cx_tX half) /\
  find_potential_matches wx_src cx_tX half =
  [ {| src_start := 0; src_end := 6; tgt_start := 0; tgt_end := 6; claimed := 6 |} ] /\
  find_potential_matches wx_src cx_tE half =
  [ {| src_start := 0; src_end := 6; tgt_start := 2; tgt_end := 8; claimed := 6 |} ].
Proof.
  destruct wx_hyps as (HA & HB & _ & Hs & _).
  destruct leading_edge_condition_needed as (Ht & Ha & Hb & Hnn & _).
  split; [|vm_compute; split; reflexivity].
  exact (searchset_stage_position_independent_no_edge wx_src 2 6 1 wx_SA cx_SX wx_SB half
           HA HB eq_refl Hs Ht Ha Hb Hnn).
Qed.
End Example.

Print Assumptions group_runs_shift.
Print Assumptions window_out_embedded_eq.
Print Assumptions fuse_ranges_size_irrelevant_wf.
Print Assumptions get_matched_ranges_position_independent.
Print Assumptions searchset_stage_position_independent_no_edge.
Print Assumptions searchset_stage_position_independent.
Print Assumptions detect_runs_embedded.
