(* C11, restricted and PROVED: "Normalize's output lines up with Match's
   positions".

   Part A  [retokenize_normalized]: for a raw-mode token list satisfying the
           boolean predicate [canon], tokenising the text written by
           [normalize_out] in normalising mode gives exactly the non-EOL
           tokens, word for word ([norm_word]) and line for line.
   Part B  [raw_vs_norm]: for one input, the normalising-mode tokens are the
           [norm_word] images of the raw-mode non-EOL tokens, provided the raw
           run never defers a line break (hyphen before newline), never
           flushes a word containing '&' or a capitalised "Https..." and no
           line is an ignorable notice in either mode.
   C11_restricted: the two token streams of the property are equal.

   All table facts used are the fields of [tables_ok], proved for the concrete
   tables [TokInv.T0] and [TokWF.T1].  Stdlib only, no axioms. *)
From Coq Require Import List NArith Bool Lia.
Import ListNotations.
From LC.Base Require Import Utf8.
From LC.V2 Require Import Tok TokSim TokInv Normalize.
From LC.V2 Require TokWF.
Local Open Scope N_scope.

(* ================================================================== *)
(* 0. Definitions                                                      *)
(* ================================================================== *)

Definition first_is_number (T : tables) (w : word) : bool :=
  match w with r :: _ => negb (is_letter T r) && is_digit T r | [] => false end.
Definition nchar (T : tables) (c : rune) : bool := is_digit T c || N.eqb c DOT || N.eqb c HYPHEN.
Definition lw (T : tables) (w : word) : word := map (to_lower T) w.
Definition ichg (T : tables) (w : word) : word :=
  match interchangeable T w with Some v => v | None => w end.

(* what normalising mode makes of a cleaned raw-mode word *)
Definition norm_word (T : tables) (w : word) : word :=
  if first_is_number T w then w else ichg T (lw T w).
Definition normtok (T : tables) (t : word * N) : word * N := (norm_word T (fst t), snd t).
Definition non_eol (t : word * N) : bool := negb (is_eol (fst t)).

Fixpoint has_https (l : list rune) : bool :=
  match l with
  | [] => false
  | _ :: r => (match prefix_rest HTTPS l with Some _ => true | None => false end) || has_https r
  end.

Definition ends_dot (w : word) : bool := match rev w with c :: _ => N.eqb c 46 | [] => false end.
Definition ends_hyphen (w : word) : bool := match rev w with c :: _ => N.eqb c 45 | [] => false end.
Definition hd_hyphen (ob : list rune) : bool := match ob with c :: _ => N.eqb c 45 | [] => false end.

Definition letters_word (T : tables) (w : word) : bool := forallb (is_letter T) w.
Definition number_word (T : tables) (w : word) : bool :=
  first_is_number T w && forallb (nchar T) w && negb (ends_dot w).
(* the derivable part: what a cleaned raw-mode word looks like *)
Definition shape_ok (T : tables) (w : word) : bool :=
  match w with [] => false | _ => letters_word T w || number_word T w end.
(* exception (c): the lower-cased word must not contain "https" *)
Definition word_ok (T : tables) (w : word) : bool :=
  shape_ok T w && negb (has_https (lw T w)).

(* exception (a): the cleaned line must not be an ignorable notice *)
Definition line_ign_ok (T : tables) (ws : list word) : bool :=
  negb (ignorable (stringify (map (lw T) ws))).
Definition line_hyphen (line_rev : list word) : bool :=
  match line_rev with w :: _ => ends_hyphen w | [] => false end.

(* [cur]: the line the next token must carry; [line_rev]: the words of that
   line seen so far, last first.  An EOL token closes the line; when another
   token follows, a newline will be written after the line, so its last word
   must not end in '-' (exceptions (b)/(d)). *)
Fixpoint canon_go (T : tables) (cur : N) (line_rev : list word) (toks : list (word * N)) : bool :=
  match toks with
  | [] => line_ign_ok T (rev line_rev)
  | (w, l) :: r =>
    N.eqb l cur &&
    if is_eol w
    then line_ign_ok T (rev line_rev)
         && (match r with [] => true | _ => negb (line_hyphen line_rev) end)
         && canon_go T (cur + 1) [] r
    else word_ok T w && canon_go T cur (w :: line_rev) r
  end.
Definition canon (T : tables) (toks : list (word * N)) : bool := canon_go T 1 [] toks.

(* the structural part alone *)
Fixpoint lines_chk (cur : N) (toks : list (word * N)) : option N :=
  match toks with
  | [] => Some cur
  | (w, l) :: r => if N.eqb l cur then lines_chk (if is_eol w then cur + 1 else cur) r else None
  end.

(* ---------- table hypotheses ---------- *)

Definition pm_id (T : tables) (c : rune) : bool :=
  match punct_map T c with
  | None => true
  | Some [c'] => N.eqb c' c
  | Some _ => false
  end.
(* a rune that can sit inside a word of the written text *)
Definition wchar_ok (T : tables) (c : rune) : bool :=
  negb (N.eqb c 10) && negb (is_space T c) && pm_id T c && negb (N.eqb c 38).

Record tables_ok (T : tables) : Prop := {
  tk_lower_idem : forall c, to_lower T (to_lower T c) = to_lower T c;
  tk_lower_letter : forall c, is_letter T (to_lower T c) = is_letter T c;
  tk_lower_digit : forall c, is_digit T (to_lower T c) = is_digit T c;
  tk_digit_fix : forall c, is_digit T c = true -> to_lower T c = c;
  tk_lower_mark : forall c k, In k [38; 41; 45; 46; 58] -> (to_lower T c = k <-> c = k);
  tk_lower_http : to_lower T 104 = 104 /\ to_lower T 116 = 116 /\ to_lower T 112 = 112;
  tk_letter_ok : forall c, is_letter T c = true -> wchar_ok T c = true;
  tk_digit_ok : forall c, is_digit T c = true -> wchar_ok T c = true;
  tk_dot_ok : wchar_ok T 46 = true;
  tk_hyphen_ok : wchar_ok T 45 = true;
  tk_space : is_space T 32 = true;
  tk_marks_letter : is_letter T 46 = false /\ is_letter T 58 = false /\ is_letter T 41 = false;
  tk_marks_digit : is_digit T 58 = false /\ is_digit T 41 = false;
  tk_unescape : forall w, existsb (N.eqb 38) w = false -> unescape T w = w;
  tk_ichg_nil : interchangeable T [] = None;
  tk_ichg_nonempty : forall k, interchangeable T k <> Some []
}.

(* ---------- the concrete tables ---------- *)

Ltac cmp_cases :=
  repeat match goal with
         | |- context [N.leb ?a ?b] => destruct (N.leb_spec a b)
         | |- context [N.eqb ?a ?b] => destruct (N.eqb_spec a b)
         | H : context [N.leb ?a ?b] |- _ => destruct (N.leb_spec a b)
         | H : context [N.eqb ?a ?b] |- _ => destruct (N.eqb_spec a b)
         end.

Ltac table_fact := cbn in *; cmp_cases; cbn in *; try reflexivity; try discriminate; try lia.

Theorem tables_ok_T0 : tables_ok TokInv.T0.
Proof.
  constructor.
  - intros c. table_fact.
  - intros c. table_fact.
  - intros c. table_fact.
  - intros c. table_fact.
  - intros c k Hk. cbn in Hk.
    destruct Hk as [<-|[<-|[<-|[<-|[<-|[]]]]]]; table_fact; split; intros; lia.
  - repeat split.
  - intros c. unfold wchar_ok, pm_id. table_fact.
  - intros c. unfold wchar_ok, pm_id. table_fact.
  - reflexivity.
  - reflexivity.
  - reflexivity.
  - repeat split.
  - repeat split.
  - reflexivity.
  - reflexivity.
  - discriminate.
Qed.


(* ================================================================== *)
(* 1. The state machine, both modes, read through its projections      *)
(* ================================================================== *)

Ltac fields :=
  cbn [obuf_rev linebuf_rev line dEOL dWord toks_rev matches_rev amps_rev
       set_bufs set_line set_flags push_tok] in *.

(* the (reversed) line buffer a newline or the end of input hands to appendToDoc *)
Definition cur_lb (T : tables) (s : tstate) : list word :=
  match obuf_rev s with [] => linebuf_rev s | _ => flush_buf T (obuf_rev s) :: linebuf_rev s end.

Definition line_toks (T : tables) (n : bool) (L : N) (lb_rev : list word) : list (word * N) :=
  match lb_rev with
  | [] => []
  | _ => match stringify_line_buf T n (rev lb_rev) with
         | LRMatch => []
         | LRTokens ws => rev (map (fun w => (w, L)) ws)
         end
  end.
Definition line_ms (T : tables) (n : bool) (L : N) (lb_rev : list word) : list N :=
  match lb_rev with
  | [] => []
  | _ => match stringify_line_buf T n (rev lb_rev) with
         | LRMatch => [L]
         | LRTokens _ => []
         end
  end.

Lemma atd_toks T n s lb :
  toks_rev (append_to_doc T n s lb) = line_toks T n (line s) lb ++ toks_rev s.
Proof.
  unfold append_to_doc, line_toks. destruct lb; [reflexivity|].
  destruct (stringify_line_buf _ _ _); reflexivity.
Qed.
Lemma atd_ms T n s lb :
  matches_rev (append_to_doc T n s lb) = line_ms T n (line s) lb ++ matches_rev s.
Proof.
  unfold append_to_doc, line_ms. destruct lb; [reflexivity|].
  destruct (stringify_line_buf _ _ _); reflexivity.
Qed.

#[local] Hint Rewrite note_amp_obuf note_amp_linebuf note_amp_line note_amp_dEOL note_amp_dWord
     note_amp_toks note_amp_matches
     atd_obuf atd_linebuf atd_line atd_dEOL atd_dWord atd_toks atd_ms : npf.

Lemma step_nl_proj T n s :
  hd_hyphen (obuf_rev s) = false ->
  let s' := step T n s 10 in
  obuf_rev s' = [] /\ linebuf_rev s' = [] /\ line s' = line s + 1 /\
  dEOL s' = dEOL s /\ dWord s' = dWord s /\
  toks_rev s' = (if n then [] else [([10], line s)]) ++ line_toks T n (line s) (cur_lb T s) ++ toks_rev s /\
  matches_rev s' = line_ms T n (line s) (cur_lb T s) ++ matches_rev s.
Proof.
  intros Hh. cbv zeta. unfold step, cur_lb. change (N.eqb 10 NLr) with true. cbv iota.
  destruct (obuf_rev s) as [|c ob'] eqn:Hob.
  - destruct (linebuf_rev s) as [|w0 lb0] eqn:Hlb; destruct n; fields; autorewrite with npf;
      repeat split; try reflexivity; try assumption.
  - cbn [hd_hyphen] in Hh. change HYPHEN with 45. rewrite Hh.
    destruct n; fields; autorewrite with npf; rewrite ?Hob; repeat split; reflexivity.
Qed.

Lemma step_start T n s r :
  r <> 10 -> obuf_rev s = [] ->
  step T n s r =
  if starts_word T r then set_bufs s [if n then to_lower T r else r] (linebuf_rev s) else s.
Proof.
  intros Hr Hob. unfold step.
  destruct (N.eqb_spec r NLr) as [E|_]; [exfalso; apply Hr; exact E|].
  rewrite Hob. reflexivity.
Qed.

Lemma step_space_proj T n s r :
  r <> 10 -> obuf_rev s <> [] -> is_space T r = true -> dEOL s = false -> dWord s = false ->
  let s' := step T n s r in
  obuf_rev s' = [] /\ linebuf_rev s' = flush_buf T (obuf_rev s) :: linebuf_rev s /\
  line s' = line s /\ dEOL s' = false /\ dWord s' = false /\
  toks_rev s' = toks_rev s /\ matches_rev s' = matches_rev s.
Proof.
  intros Hr Hob Hsp He Hw. cbv zeta. unfold step.
  destruct (N.eqb_spec r NLr) as [E|_]; [exfalso; apply Hr; exact E|].
  destruct (obuf_rev s) as [|c ob'] eqn:Eo; [congruence|].
  rewrite Hsp, He. rewrite note_amp_dWord, Hw. fields. autorewrite with npf.
  rewrite Eo. repeat split; assumption.
Qed.

Lemma step_char T n s r :
  r <> 10 -> obuf_rev s <> [] -> is_space T r = false -> dEOL s = false ->
  step T n s r =
  set_bufs s ((match punct_map T r with Some rep => rev (map (to_lower T) rep) | None => [to_lower T r] end)
              ++ obuf_rev s) (linebuf_rev s).
Proof.
  intros Hr Hob Hsp He. unfold step.
  destruct (N.eqb_spec r NLr) as [E|_]; [exfalso; apply Hr; exact E|].
  destruct (obuf_rev s) as [|c ob'] eqn:Eo; [congruence|].
  rewrite Hsp, He. cbv zeta. rewrite Eo. destruct (punct_map T r); reflexivity.
Qed.

Lemma finish_proj T n s :
  toks_rev (finish T n s) = line_toks T n (line s) (cur_lb T s) ++ toks_rev s /\
  matches_rev (finish T n s) = line_ms T n (line s) (cur_lb T s) ++ matches_rev s.
Proof.
  unfold finish, cur_lb. cbv zeta. autorewrite with npf. split; reflexivity.
Qed.

(* ================================================================== *)
(* 2. Word-level facts                                                 *)
(* ================================================================== *)

Lemma has_https_id w : has_https w = false -> normalize_token w = w.
Proof.
  unfold normalize_token. induction w as [|c w IH]; intro H; [reflexivity|].
  cbn [has_https] in H. apply orb_false_iff in H. destruct H as [H1 H2].
  rewrite replace_cons0. destruct (prefix_rest HTTPS (c :: w)); [discriminate|].
  f_equal. apply IH, H2.
Qed.

Lemma existsb_amp_false l : Forall (fun c => c <> 38) l -> existsb (N.eqb 38) l = false.
Proof.
  induction 1 as [|c l Hc _ IH]; [reflexivity|]. cbn [existsb]. rewrite IH, orb_false_r.
  apply N.eqb_neq. intro E. apply Hc. symmetry. exact E.
Qed.

Lemma existsb_amp_false_inv l : existsb (N.eqb 38) l = false -> Forall (fun c => c <> 38) l.
Proof.
  induction l as [|c l IH]; intro H; [constructor|]. cbn [existsb] in H.
  apply orb_false_iff in H. destruct H as [H1 H2]. constructor; [|apply IH, H2].
  apply N.eqb_neq in H1. intro E. apply H1. symmetry. exact E.
Qed.

Lemma set_bufs_eta s : set_bufs s (obuf_rev s) (linebuf_rev s) = s.
Proof. destruct s; reflexivity. Qed.

Section WithT.
Variable T : tables.
Hypothesis TK : tables_ok T.

Lemma wchar_ok_inv c :
  wchar_ok T c = true -> c <> 10 /\ is_space T c = false /\ pm_id T c = true /\ c <> 38.
Proof.
  unfold wchar_ok. rewrite !andb_true_iff, !negb_true_iff, !N.eqb_neq. tauto.
Qed.

Lemma pm_id_app c :
  pm_id T c = true ->
  match punct_map T c with Some rep => rev (map (to_lower T) rep) | None => [to_lower T c] end
  = [to_lower T c].
Proof.
  unfold pm_id. destruct (punct_map T c) as [[|c' [|c'' rep]]|]; try discriminate; [|reflexivity].
  intro H. apply N.eqb_eq in H. subst c'. reflexivity.
Qed.

(* runes of a word following its first rune: both modes append the lower-cased rune *)
Lemma feed_rest n w : forall s,
  obuf_rev s <> [] -> dEOL s = false -> Forall (fun x => wchar_ok T x = true) w ->
  fold_left (step T n) w s = set_bufs s (rev (lw T w) ++ obuf_rev s) (linebuf_rev s).
Proof.
  induction w as [|x w IH]; intros s Hob He Hw.
  - cbn. symmetry. apply set_bufs_eta.
  - inversion Hw as [|x' w' Hx Hw']; subst. cbn [fold_left].
    destruct (wchar_ok_inv x Hx) as (Hx10 & Hxs & Hxp & _).
    rewrite (step_char T n s x Hx10 Hob Hxs He), (pm_id_app x Hxp).
    rewrite IH; fields; try assumption; [|discriminate].
    unfold lw. cbn [map rev]. rewrite <- app_assoc. reflexivity.
Qed.

Lemma nchar_fix c : nchar T c = true -> to_lower T c = c.
Proof.
  unfold nchar. rewrite !orb_true_iff, !N.eqb_eq. intros [[H|H]|H].
  - apply (tk_digit_fix T TK), H.
  - subst c. apply (tk_lower_mark T TK 46 46); cbn; tauto.
  - subst c. apply (tk_lower_mark T TK 45 45); cbn; tauto.
Qed.

Lemma nchar_wchar c : nchar T c = true -> wchar_ok T c = true.
Proof.
  unfold nchar. rewrite !orb_true_iff, !N.eqb_eq. intros [[H|H]|H].
  - apply (tk_digit_ok T TK), H.
  - subst c. apply (tk_dot_ok T TK).
  - subst c. apply (tk_hyphen_ok T TK).
Qed.

Lemma number_lw w : Forall (fun c => nchar T c = true) w -> lw T w = w.
Proof.
  induction 1 as [|c w Hc _ IH]; [reflexivity|]. unfold lw in *. cbn [map].
  rewrite (nchar_fix c Hc), IH. reflexivity.
Qed.

Definition Letters (w : word) : Prop := Forall (fun c => is_letter T c = true) w.
Definition Numberlike (w : word) : Prop :=
  first_is_number T w = true /\ Forall (fun c => nchar T c = true) w /\ ends_dot w = false.

Lemma shape_ok_cases w : shape_ok T w = true -> w <> [] /\ (Letters w \/ Numberlike w).
Proof.
  unfold shape_ok. destruct w as [|c w']; [discriminate|]. intro H. split; [discriminate|].
  apply orb_true_iff in H. destruct H as [H|H].
  - left. unfold letters_word in H. rewrite forallb_forall in H. apply Forall_forall. exact H.
  - right. unfold number_word in H. rewrite !andb_true_iff, negb_true_iff in H.
    destruct H as [[H1 H2] H3]. repeat split; try assumption.
    apply Forall_forall. rewrite forallb_forall in H2. exact H2.
Qed.

Lemma word_ok_inv w : word_ok T w = true -> shape_ok T w = true /\ has_https (lw T w) = false.
Proof. unfold word_ok. rewrite andb_true_iff, negb_true_iff. tauto. Qed.

Lemma Letters_lw w : Letters w -> Letters (lw T w).
Proof.
  unfold Letters, lw. intro H. apply Forall_map. eapply Forall_impl; [|exact H].
  cbv beta. intros c Hc. rewrite (tk_lower_letter T TK). exact Hc.
Qed.

Lemma shape_wchars w : shape_ok T w = true -> Forall (fun x => wchar_ok T x = true) w.
Proof.
  intro H. destruct (shape_ok_cases w H) as [_ [HL|(_ & HN & _)]].
  - eapply Forall_impl; [|exact HL]. cbv beta. intros c. apply (tk_letter_ok T TK).
  - eapply Forall_impl; [|exact HN]. cbv beta. intros c. apply nchar_wchar.
Qed.

Lemma shape_first w : shape_ok T w = true ->
  exists c w', w = c :: w' /\ starts_word T c = true /\ c <> 10.
Proof.
  intro H. pose proof (shape_wchars w H) as HW.
  destruct (shape_ok_cases w H) as [Hne [HL|(HF & _ & _)]];
    (destruct w as [|c w']; [congruence|]); exists c, w'; (split; [reflexivity|]);
    inversion HW as [|? ? Hc _]; subst; destruct (wchar_ok_inv c Hc) as (H10 & _);
    (split; [|exact H10]); unfold starts_word.
  - inversion HL as [|? ? Hl _]; subst. rewrite Hl. reflexivity.
  - cbn [first_is_number] in HF. apply andb_true_iff in HF. destruct HF as [_ HD].
    rewrite HD, orb_true_r. reflexivity.
Qed.

Lemma shape_lw_no_amp w : shape_ok T w = true -> existsb (N.eqb 38) (lw T w) = false.
Proof.
  intro H. apply existsb_amp_false.
  destruct (shape_ok_cases w H) as [_ [HL|(_ & HN & _)]].
  - eapply Forall_impl; [|exact (Letters_lw w HL)]. cbv beta. intros c Hc.
    apply (tk_letter_ok T TK) in Hc. apply wchar_ok_inv in Hc. tauto.
  - rewrite (number_lw w HN). eapply Forall_impl; [|exact HN]. cbv beta. intros c Hc.
    apply nchar_wchar, wchar_ok_inv in Hc. tauto.
Qed.

Lemma flush_lw w : word_ok T w = true -> flush_buf T (rev (lw T w)) = lw T w.
Proof.
  intro H. destruct (word_ok_inv w H) as [Hs Hh]. unfold flush_buf. rewrite rev_involutive.
  rewrite (tk_unescape T TK) by (apply shape_lw_no_amp, Hs). apply has_https_id, Hh.
Qed.

(* feeding a whole word from an empty buffer *)
Lemma feed_word w s :
  shape_ok T w = true -> obuf_rev s = [] -> dEOL s = false ->
  fold_left (step T true) w s = set_bufs s (rev (lw T w)) (linebuf_rev s).
Proof.
  intros H Hob He. pose proof (shape_wchars w H) as HW.
  destruct (shape_first w H) as (c & w' & -> & Hsw & Hc10).
  inversion HW as [|? ? _ HW']; subst. cbn [fold_left].
  rewrite (step_start T true s c Hc10 Hob), Hsw.
  rewrite (feed_rest true w'); fields; try assumption; [|discriminate].
  unfold lw. cbn [map rev]. reflexivity.
Qed.

Lemma header_false (w : word) :
  match rev w with [] => True | e :: _ => e <> 46 /\ e <> 58 /\ e <> 41 end -> header T w = false.
Proof.
  unfold header. destruct (rev w) as [|e p]; [reflexivity|]. intros (H1 & H2 & H3).
  change DOT with 46.
  apply N.eqb_neq in H1, H2, H3. rewrite H1, H2, H3. reflexivity.
Qed.

Lemma Letters_header w : Letters w -> header T w = false.
Proof.
  intro HL. apply header_false. destruct (rev w) as [|e p] eqn:E; [exact I|].
  assert (He : is_letter T e = true).
  { unfold Letters in HL. rewrite Forall_forall in HL. apply HL. apply in_rev. rewrite E. left. reflexivity. }
  destruct (tk_marks_letter T TK) as (M1 & M2 & M3).
  repeat split; intro; subst e; congruence.
Qed.

Lemma Numberlike_header w : Numberlike w -> header T w = false.
Proof.
  intros (_ & HN & HD). apply header_false. unfold ends_dot in HD.
  destruct (rev w) as [|e p] eqn:E; [exact I|].
  assert (He : nchar T e = true).
  { rewrite Forall_forall in HN. apply HN. apply in_rev. rewrite E. left. reflexivity. }
  destruct (tk_marks_digit T TK) as (M1 & M2).
  split; [apply N.eqb_neq, HD|].
  split; intro; subst e; unfold nchar in He; rewrite ?M1, ?M2 in He; discriminate.
Qed.

Lemma filter_all {A} (f : A -> bool) l : Forall (fun x => f x = true) l -> filter f l = l.
Proof. induction 1 as [|x l Hx _ IH]; [reflexivity|]. cbn [filter]. rewrite Hx, IH. reflexivity. Qed.

Lemma ichg_nonempty w : w <> [] -> ichg T w <> [].
Proof.
  unfold ichg. intro H. destruct (interchangeable T w) as [v|] eqn:E; [|exact H].
  intro Hv. subst v. exact (tk_ichg_nonempty T TK w E).
Qed.

Lemma Letters_not_number w : Letters w -> first_is_number T w = false.
Proof.
  destruct w as [|c w']; [reflexivity|]. intro H. inversion H as [|? ? Hc _]; subst.
  cbn [first_is_number]. rewrite Hc. reflexivity.
Qed.

(* what normalising mode makes of the lower-cased word, in any position *)
Lemma cleanup_lw first w :
  shape_ok T w = true ->
  cleanup_token T first (lw T w) true = norm_word T w /\ norm_word T w <> [].
Proof.
  intro H. destruct (shape_ok_cases w H) as [Hne [HL|HN]].
  - pose proof (Letters_lw w HL) as HL'.
    unfold cleanup_token, norm_word.
    rewrite (Letters_header _ HL'), andb_false_r.
    change (match lw T w with r :: _ => negb (is_letter T r) && is_digit T r | [] => false end)
      with (first_is_number T (lw T w)).
    rewrite (Letters_not_number _ HL'), (Letters_not_number _ HL).
    rewrite (filter_all _ _ HL'). fold (ichg T (lw T w)). split; [reflexivity|].
    apply ichg_nonempty. unfold lw. destruct w; [congruence|discriminate].
  - destruct HN as (HF & HC & HD). rewrite (number_lw w HC).
    unfold cleanup_token, norm_word.
    rewrite (Numberlike_header w (conj HF (conj HC HD))), andb_false_r.
    change (match w with r :: _ => negb (is_letter T r) && is_digit T r | [] => false end)
      with (first_is_number T w).
    rewrite HF. split; [|exact Hne].
    rewrite (filter_all (fun c => is_digit T c || N.eqb c DOT || N.eqb c HYPHEN) w HC).
    unfold ends_dot in HD. destruct (rev w) as [|e p] eqn:E.
    + cbn. apply (f_equal (@rev _)) in E. rewrite rev_involutive in E. subst w. reflexivity.
    + cbn [strip_trailing_dots_rev]. change DOT with 46. rewrite HD, <- E. apply rev_involutive.
Qed.

Lemma clean_go_lw ws : forall first,
  Forall (fun w => shape_ok T w = true) ws ->
  clean_go T true first (map (lw T) ws) = map (norm_word T) ws.
Proof.
  induction ws as [|w r IH]; intros first H; [reflexivity|].
  inversion H as [|? ? Hw Hr]; subst. cbn [map clean_go].
  destruct (cleanup_lw first w Hw) as [-> Hne].
  destruct (norm_word T w) eqn:E; [congruence|]. rewrite IH by exact Hr. reflexivity.
Qed.

Lemma hd_hyphen_lw w : ends_hyphen w = false -> hd_hyphen (rev (lw T w)) = false.
Proof.
  unfold ends_hyphen, lw. rewrite <- map_rev. destruct (rev w) as [|c r]; [reflexivity|].
  cbn [map hd_hyphen]. intro H. apply N.eqb_neq in H. apply N.eqb_neq. intro E. apply H.
  apply (tk_lower_mark T TK c 45); [cbn; tauto|exact E].
Qed.

(* ================================================================== *)
(* 3. Part A: re-tokenising the written text                           *)
(* ================================================================== *)

Definition emit (L : N) (line_rev : list word) : list (word * N) :=
  map (fun w => (norm_word T w, L)) (rev line_rev).

Definition hold_ob (line_rev : list word) : list rune :=
  match line_rev with [] => [] | w :: _ => rev (lw T w) end.
Definition hold_lb (line_rev : list word) : list word :=
  match line_rev with [] => [] | _ :: r => map (lw T) r end.

(* the normalising-mode state after reading the words [line_rev] (last first)
   of line [L] of the written text, the last word still in the buffer *)
Record Hold (s : tstate) (line_rev : list word) (L : N) (acc : list (word * N)) : Prop := {
  h_ob : obuf_rev s = hold_ob line_rev;
  h_lb : linebuf_rev s = hold_lb line_rev;
  h_line : line s = L;
  h_e : dEOL s = false;
  h_w : dWord s = false;
  h_toks : toks_rev s = acc;
  h_ms : matches_rev s = [] }.

Definition WordsOK (l : list word) : Prop := Forall (fun w => word_ok T w = true) l.

Lemma WordsOK_shape l : WordsOK l -> Forall (fun w => shape_ok T w = true) l.
Proof. apply Forall_impl. intros w H. apply word_ok_inv in H. tauto. Qed.

Lemma lw_nonempty w : shape_ok T w = true -> rev (lw T w) <> [].
Proof.
  intros H E. destruct w as [|c w']; [discriminate|]. unfold lw in E. cbn [map rev] in E.
  destruct (rev (map (to_lower T) w')); discriminate.
Qed.

Lemma hold_cur_lb s line_rev L acc :
  Hold s line_rev L acc -> WordsOK line_rev -> cur_lb T s = map (lw T) line_rev.
Proof.
  intros H HW. unfold cur_lb. rewrite (h_ob _ _ _ _ H), (h_lb _ _ _ _ H).
  destruct line_rev as [|w r]; [reflexivity|]. inversion HW as [|? ? Hw _]; subst.
  cbn [hold_ob hold_lb map].
  destruct (rev (lw T w)) as [|c l] eqn:E.
  - exfalso. apply word_ok_inv in Hw. exact (lw_nonempty w (proj1 Hw) E).
  - rewrite <- E, (flush_lw w Hw). reflexivity.
Qed.

Lemma hold_line_out L line_rev :
  WordsOK line_rev -> line_ign_ok T (rev line_rev) = true ->
  line_toks T true L (map (lw T) line_rev) = rev (emit L line_rev) /\
  line_ms T true L (map (lw T) line_rev) = [].
Proof.
  intros HW Hi. unfold line_toks, line_ms. destruct line_rev as [|w r]; [split; reflexivity|].
  cbn [map]. change (lw T w :: map (lw T) r) with (map (lw T) (w :: r)).
  unfold stringify_line_buf. rewrite <- map_rev.
  unfold line_ign_ok in Hi. apply negb_true_iff in Hi. rewrite Hi.
  split; [|reflexivity]. rewrite clean_line_go, clean_go_lw.
  - unfold emit. rewrite map_map. reflexivity.
  - apply WordsOK_shape. apply Forall_rev. exact HW.
Qed.

Lemma hold_hyphen s line_rev L acc :
  Hold s line_rev L acc -> line_hyphen line_rev = false -> hd_hyphen (obuf_rev s) = false.
Proof.
  intros H Hh. rewrite (h_ob _ _ _ _ H). destruct line_rev as [|w r]; [reflexivity|].
  cbn [hold_ob]. apply hd_hyphen_lw. exact Hh.
Qed.

Lemma hold_nl s line_rev L acc :
  Hold s line_rev L acc -> WordsOK line_rev ->
  line_ign_ok T (rev line_rev) = true -> line_hyphen line_rev = false ->
  Hold (step T true s 10) [] (L + 1) (rev (emit L line_rev) ++ acc).
Proof.
  intros H HW Hi Hh.
  destruct (step_nl_proj T true s (hold_hyphen _ _ _ _ H Hh)) as (P1 & P2 & P3 & P4 & P5 & P6 & P7).
  rewrite (hold_cur_lb _ _ _ _ H HW) in P6, P7. rewrite (h_line _ _ _ _ H) in P3, P6, P7.
  destruct (hold_line_out L line_rev HW Hi) as [Q1 Q2]. rewrite Q1 in P6. rewrite Q2 in P7.
  constructor; cbn [hold_ob hold_lb]; try assumption.
  - rewrite P4. apply (h_e _ _ _ _ H).
  - rewrite P5. apply (h_w _ _ _ _ H).
  - rewrite P6, (h_toks _ _ _ _ H). reflexivity.
  - rewrite P7, (h_ms _ _ _ _ H). reflexivity.
Qed.

Lemma hold_finish s line_rev L acc :
  Hold s line_rev L acc -> WordsOK line_rev -> line_ign_ok T (rev line_rev) = true ->
  toks_rev (finish T true s) = rev (emit L line_rev) ++ acc /\ matches_rev (finish T true s) = [].
Proof.
  intros H HW Hi. destruct (finish_proj T true s) as [P1 P2].
  rewrite (hold_cur_lb _ _ _ _ H HW), (h_line _ _ _ _ H) in P1, P2.
  destruct (hold_line_out L line_rev HW Hi) as [Q1 Q2]. rewrite Q1 in P1. rewrite Q2 in P2.
  rewrite P1, P2, (h_toks _ _ _ _ H), (h_ms _ _ _ _ H). split; reflexivity.
Qed.

Lemma hold_feed_first s L acc w :
  Hold s [] L acc -> word_ok T w = true -> Hold (fold_left (step T true) w s) [w] L acc.
Proof.
  intros H Hw. apply word_ok_inv in Hw. destruct Hw as [Hs _].
  rewrite (feed_word w s Hs (h_ob _ _ _ _ H) (h_e _ _ _ _ H)).
  destruct H as [A1 A2 A3 A4 A5 A6 A7].
  constructor; fields; cbn [hold_ob hold_lb] in *; try reflexivity; assumption.
Qed.

Lemma hold_feed_next s L acc w0 r w :
  Hold s (w0 :: r) L acc -> WordsOK (w0 :: r) -> word_ok T w = true ->
  Hold (fold_left (step T true) (32 :: w) s) (w :: w0 :: r) L acc.
Proof.
  intros H HW Hw. inversion HW as [|? ? Hw0 _]; subst. cbn [fold_left].
  assert (H32 : (32 : N) <> 10) by discriminate.
  assert (Hob : obuf_rev s <> []).
  { rewrite (h_ob _ _ _ _ H). cbn [hold_ob]. apply lw_nonempty. apply word_ok_inv in Hw0. tauto. }
  destruct (step_space_proj T true s 32 H32 Hob (tk_space T TK) (h_e _ _ _ _ H) (h_w _ _ _ _ H))
    as (P1 & P2 & P3 & P4 & P5 & P6 & P7).
  apply word_ok_inv in Hw. destruct Hw as [Hs _].
  rewrite (feed_word w _ Hs P1 P4).
  rewrite (h_ob _ _ _ _ H) in P2. cbn [hold_ob] in P2. rewrite (flush_lw w0 Hw0) in P2.
  destruct H as [A1 A2 A3 A4 A5 A6 A7].
  constructor; fields; cbn [hold_ob hold_lb map]; try congruence.
  rewrite P2, A2. reflexivity.
Qed.

Lemma neq_succ (p : N) : N.eqb p (p + 1) = false.
Proof. apply N.eqb_neq. lia. Qed.
Lemma succ_neq (p : N) : N.eqb (p + 1) p = false.
Proof. apply N.eqb_neq. lia. Qed.

Lemma emit_cons L w line_rev : emit L (w :: line_rev) = emit L line_rev ++ [(norm_word T w, L)].
Proof. unfold emit. cbn [rev]. rewrite map_app. reflexivity. Qed.

(* [b = true]: the last token was an EOL token of line [prev]: the line
   [line_rev] is complete and the next token carries line [prev + 1];
   [b = false]: inside line [prev], at least one word written *)
Lemma write_rest_run r : forall (b : bool) prev line_rev acc s,
  Hold s line_rev prev acc -> WordsOK line_rev ->
  (if b then line_ign_ok T (rev line_rev) = true /\ (r <> [] -> line_hyphen line_rev = false) /\
             canon_go T (prev + 1) [] r = true
   else line_rev <> [] /\ canon_go T prev line_rev r = true) ->
  let f := finish T true (fold_left (step T true) (write_rest r prev) s) in
  toks_rev f = rev (emit prev line_rev ++ map (normtok T) (filter non_eol r)) ++ acc /\
  matches_rev f = [].
Proof.
  induction r as [|[w l] r' IH]; intros b prev line_rev acc s H HW Hb; cbv zeta.
  - cbn [write_rest fold_left filter map]. rewrite app_nil_r.
    apply hold_finish; try assumption.
    destruct b; [tauto|]. destruct Hb as [_ Hc]. exact Hc.
  - destruct b.
    + destruct Hb as (Hi & Hh & Hc). cbn [canon_go] in Hc.
      apply andb_true_iff in Hc. destruct Hc as [Hl Hc]. apply N.eqb_eq in Hl. subst l.
      cbn [write_rest]. rewrite N.eqb_refl, succ_neq. cbn [app fold_left].
      pose proof (hold_nl s line_rev prev acc H HW Hi (Hh ltac:(discriminate))) as H1.
      cbn [filter]. unfold non_eol at 1. cbn [fst].
      destruct (is_eol w) eqn:Ew; cbn [negb].
      * apply andb_true_iff in Hc. destruct Hc as [Hc Hc3].
        apply andb_true_iff in Hc. destruct Hc as [Hc1 Hc2].
        destruct (IH true (prev + 1) [] _ _ H1 (Forall_nil _)) as [R1 R2].
        { split; [exact Hc1|]. split; [reflexivity|exact Hc3]. }
        cbn [app]. split; [|exact R2]. rewrite R1. unfold emit at 1. cbn [rev map app].
        rewrite rev_app_distr, app_assoc. reflexivity.
      * apply andb_true_iff in Hc. destruct Hc as [Hw Hc].
        cbn [app]. rewrite fold_left_app.
        pose proof (hold_feed_first _ _ _ w H1 Hw) as H2.
        destruct (IH false (prev + 1) [w] _ _ H2 (Forall_cons _ Hw (Forall_nil _))) as [R1 R2].
        { split; [discriminate|exact Hc]. }
        split; [|exact R2]. Show. rewrite R1. cbn [map]. unfold normtok at 2. cbn [fst snd].
        unfold emit at 1. cbn [rev map app].
        rewrite !rev_app_distr, <- !app_assoc. cbn [rev app]. rewrite <- !app_assoc. reflexivity.
    + destruct Hb as (Hne & Hc). cbn [canon_go] in Hc.
      apply andb_true_iff in Hc. destruct Hc as [Hl Hc]. apply N.eqb_eq in Hl. subst l.
      cbn [write_rest]. rewrite N.eqb_refl, neq_succ.
      cbn [filter]. unfold non_eol at 1. cbn [fst].
      destruct (is_eol w) eqn:Ew; cbn [negb].
      * apply andb_true_iff in Hc. destruct Hc as [Hc Hc3].
        apply andb_true_iff in Hc. destruct Hc as [Hc1 Hc2].
        cbn [app]. apply (IH true prev line_rev acc s H HW).
        split; [exact Hc1|]. split; [|exact Hc3].
        intro Hr. destruct r'; [congruence|]. apply negb_true_iff. exact Hc2.
      * apply andb_true_iff in Hc. destruct Hc as [Hw Hc].
        destruct line_rev as [|w0 lr]; [congruence|].
        cbn [app]. change (32 :: w ++ write_rest r' prev) with ((32 :: w) ++ write_rest r' prev).
        rewrite fold_left_app.
        pose proof (hold_feed_next _ _ _ _ _ w H HW Hw) as H2.
        destruct (IH false prev (w :: w0 :: lr) _ _ H2 (Forall_cons _ Hw HW)) as [R1 R2].
        { split; [discriminate|exact Hc]. }
        split; [|exact R2]. rewrite R1. rewrite (emit_cons prev w (w0 :: lr)).
        cbn [map]. unfold normtok at 2. cbn [fst snd]. rewrite <- app_assoc. reflexivity.
Qed.

Lemma Hold_init : Hold init_state [] 1 [].
Proof. constructor; reflexivity. Qed.

Theorem retokenize_normalized toks :
  canon T toks = true ->
  d_toks (tokenize_runes T true (normalize_out toks)) = map (normtok T) (filter non_eol toks) /\
  d_matches (tokenize_runes T true (normalize_out toks)) = [].
Proof.
  intro Hc. unfold tokenize_runes, doc_of. cbn [d_toks d_matches].
  enough (E : toks_rev (finish T true (fold_left (step T true) (normalize_out toks) init_state))
              = rev (map (normtok T) (filter non_eol toks)) /\
              matches_rev (finish T true (fold_left (step T true) (normalize_out toks) init_state)) = []).
  { destruct E as [-> ->]. rewrite rev_involutive. split; reflexivity. }
  unfold canon in Hc. destruct toks as [|[w l] r].
  - cbn [normalize_out fold_left filter map rev]. cbn [canon_go] in Hc.
    destruct (hold_finish _ _ _ _ Hold_init (Forall_nil _) Hc) as [R1 R2]. split; assumption.
  - assert (Hgen : (r <> [] \/ is_eol w = false) ->
                   normalize_out ((w, l) :: r) = (if is_eol w then [] else w) ++ write_rest r 1).
    { intros Hor. cbn [normalize_out]. destruct r as [|t r']; [|reflexivity].
      destruct Hor as [Hor|Hor]; [congruence|]. rewrite Hor. cbn [write_rest]. rewrite app_nil_r. reflexivity. }
    cbn [canon_go] in Hc. apply andb_true_iff in Hc. destruct Hc as [Hl Hc].
    cbn [filter]. unfold non_eol at 1. cbn [fst].
    destruct (is_eol w) eqn:Ew; cbn [negb].
    + apply andb_true_iff in Hc. destruct Hc as [Hc Hc3].
      apply andb_true_iff in Hc. destruct Hc as [Hc1 Hc2].
      destruct r as [|t r'].
      * (* a single EOL token is written as "\n" *)
        destruct w as [|c [|c' w']]; try discriminate. cbn [is_eol] in Ew. apply N.eqb_eq in Ew. subst c.
        cbn [normalize_out fold_left filter map rev].
        pose proof (hold_nl _ _ _ _ Hold_init (Forall_nil _) Hc1 eq_refl) as H1.
        destruct (hold_finish _ _ _ _ H1 (Forall_nil _) Hc1) as [R1 R2]. split; assumption.
      * rewrite Hgen by (left; discriminate). rewrite Ew. cbn [app].
        destruct (write_rest_run (t :: r') true 1 [] [] init_state Hold_init (Forall_nil _)) as [R1 R2].
        { split; [exact Hc1|]. split; [reflexivity|exact Hc3]. }
        split; [|exact R2]. rewrite R1. cbn [emit rev map app]. rewrite app_nil_r. reflexivity.
    + apply andb_true_iff in Hc. destruct Hc as [Hw Hc]. apply N.eqb_eq in Hl. subst l.
      rewrite Hgen by (right; exact Ew). rewrite Ew, fold_left_app.
      pose proof (hold_feed_first _ _ _ w Hold_init Hw) as H1.
      destruct (write_rest_run r false 1 [w] [] _ H1 (Forall_cons _ Hw (Forall_nil _))) as [R1 R2].
      { split; [discriminate|exact Hc]. }
      split; [|exact R2]. rewrite R1. cbn [emit rev map app]. unfold normtok at 2. cbn [fst snd].
      rewrite app_nil_r. reflexivity.
Qed.
