(* C11, restricted and PROVED: "Normalize's output lines up with Match's
   positions": tokenising the ORIGINAL text in normalising mode (what Match
   sees) gives, word for word and line for line, the same tokens as tokenising
   the text written by Normalize in normalising mode.

   Part A  [retokenize_normalized]: for ANY token list satisfying the boolean
           predicate [canon], tokenising [normalize_out toks] in normalising
           mode gives exactly the non-EOL tokens, each word mapped by
           [norm_word], on the same lines, and no Copyright pseudo match.
   Part B  [raw_vs_norm]: for one input, the normalising-mode tokens are the
           [norm_word] images of the raw-mode non-EOL tokens on the same
           lines, and the Copyright pseudo matches are the same, provided the
           raw-mode run flushes only good word buffers ([flushes_ok], see
           [word_flush_ok]: up to case html unescaping does not depend on the
           case of the first rune, lower-casing the unescaped word creates no
           "https", and is invisible to the ignorable expressions on its
           non-initial runes).  Since flushBuf lower-cases what
           html.UnescapeString produced when normalising, words CHANGED by
           unescaping are allowed ("&#65;bc" -> "Abc" / "abc");
           [flushes_ok_old]: the predicate is implied by the one used before
           that "fix:".  Hyphen-newline deferral is ALLOWED: the two
           runs move in lockstep.  The ignorable-notice decisions are PROVED
           equal (the three expressions are case-insensitive).
           [raw_tok_good], [raw_mono]: for EVERY input the raw-mode tokens have
           the canonical word shape and non-decreasing lines starting at 1, so
           [canon] reduces to its residual part [canon_resid] ([canon_split]).
   C11_restricted: under [tables_ok T], [flushes_ok] and [canon_resid] the two
           token streams of the property are equal.

   The residual conditions are the known exception classes:
     (a) a cleaned line that is an ignorable notice      [line_ign_ok]
     (b)/(d) a cleaned word ending in '-' before a written line break
                                                          [line_hyphen]
     (c) a cleaned word whose lower-casing contains "https"   [has_https]
   and two found while proving:
     (c') a word buffer "Https.."/"HTTPS.." (first rune changed by ToLower):
          Part B fails for it (the property itself may still hold)
                                                  [https_stable, cap_https]
     (e) a word changed by html.UnescapeString ("&#65;bc" -> "Abc"): FIXED in
          the code (flushBuf lower-cases the unescaped word when normalising),
          the property holds and the theorem applies                 [exc_e]
     (e') what is left of it: html.UnescapeString produces, inside a word, a
          rune whose lower-casing the ignorable expressions can see (U+0130):
          Part B fails (the property itself may still hold)   [ci_tail, exc_e_ci]

   All table facts used are the fields of [tables_ok], proved for the concrete
   tables [TokInv.T0] and [TokWF.T1].  Stdlib only, no axioms. *)
From Coq Require Import List NArith Bool Lia.
Import ListNotations.
From LC.Base Require Import Utf8.
From LC.V2 Require Import Tok TokSim TokInv Normalize.
From LC.V2 Require TokWF.
Local Open Scope N_scope.

(* ================================================================== *)
(* 0. Definitions                                                      *)
(* ================================================================== *)

Definition first_is_number (T : tables) (w : word) : bool :=
  match w with r :: _ => negb (is_letter T r) && is_digit T r | [] => false end.
Definition nchar (T : tables) (c : rune) : bool := is_digit T c || N.eqb c DOT || N.eqb c HYPHEN.
Definition lw (T : tables) (w : word) : word := map (to_lower T) w.
Definition ichg (T : tables) (w : word) : word :=
  match interchangeable T w with Some v => v | None => w end.

(* what normalising mode makes of a cleaned raw-mode word *)
Definition norm_word (T : tables) (w : word) : word :=
  if first_is_number T w then w else ichg T (lw T w).
Definition normtok (T : tables) (t : word * N) : word * N := (norm_word T (fst t), snd t).
Definition non_eol (t : word * N) : bool := negb (is_eol (fst t)).

Fixpoint has_https (l : list rune) : bool :=
  match l with
  | [] => false
  | _ :: r => (match prefix_rest HTTPS l with Some _ => true | None => false end) || has_https r
  end.

Definition ends_dot (w : word) : bool := match rev w with c :: _ => N.eqb c 46 | [] => false end.
Definition ends_hyphen (w : word) : bool := match rev w with c :: _ => N.eqb c 45 | [] => false end.
Definition hd_hyphen (ob : list rune) : bool := match ob with c :: _ => N.eqb c 45 | [] => false end.

Definition letters_word (T : tables) (w : word) : bool := forallb (is_letter T) w.
Definition number_word (T : tables) (w : word) : bool :=
  first_is_number T w && forallb (nchar T) w && negb (ends_dot w).
(* the derivable part: what a cleaned raw-mode word looks like *)
Definition shape_ok (T : tables) (w : word) : bool :=
  match w with [] => false | _ => letters_word T w || number_word T w end.
(* exception (c): the lower-cased word must not contain "https" *)
Definition word_ok (T : tables) (w : word) : bool :=
  shape_ok T w && negb (has_https (lw T w)).

(* exception (a): the cleaned line must not be an ignorable notice *)
Definition line_ign_ok (T : tables) (ws : list word) : bool :=
  negb (ignorable (stringify (map (lw T) ws))).
Definition line_hyphen (line_rev : list word) : bool :=
  match line_rev with w :: _ => ends_hyphen w | [] => false end.

(* [prev]: the line of the previous token (1 at the start); [line_rev]: the
   words of line [prev] seen so far, last first.  The writer emits [l - prev]
   newlines before a token of line [l > prev]: the line [prev] is then
   complete, it must not be an ignorable notice and its last word must not
   end in '-' (exceptions (a), (b)/(d)).  EOL tokens write nothing. *)
Fixpoint canon_go (T : tables) (prev : N) (line_rev : list word) (toks : list (word * N)) : bool :=
  match toks with
  | [] => line_ign_ok T (rev line_rev)
  | (w, l) :: r =>
    if N.eqb l prev then
      if is_eol w then canon_go T prev line_rev r
      else word_ok T w && canon_go T prev (w :: line_rev) r
    else
      N.ltb prev l && line_ign_ok T (rev line_rev) && negb (line_hyphen line_rev) &&
      if is_eol w then canon_go T l [] r else word_ok T w && canon_go T l [w] r
  end.
Definition canon (T : tables) (toks : list (word * N)) : bool := canon_go T 1 [] toks.

(* [canon] minus what every raw-mode run provides (lines non-decreasing from
   1, words of the canonical shape): the residual conditions
   (a) cleaned line not ignorable, (c) no "https" in a lower-cased word,
   (b)/(d) no word ending in '-' before a written newline *)
Fixpoint canon_resid (T : tables) (prev : N) (line_rev : list word) (toks : list (word * N)) : bool :=
  match toks with
  | [] => line_ign_ok T (rev line_rev)
  | (w, l) :: r =>
    if N.eqb l prev then
      if is_eol w then canon_resid T prev line_rev r
      else negb (has_https (lw T w)) && canon_resid T prev (w :: line_rev) r
    else
      line_ign_ok T (rev line_rev) && negb (line_hyphen line_rev) &&
      if is_eol w then canon_resid T l [] r
      else negb (has_https (lw T w)) && canon_resid T l [w] r
  end.

(* lines never decrease *)
Fixpoint mono (prev : N) (toks : list (word * N)) : Prop :=
  match toks with
  | [] => True
  | (_, l) :: r => prev <= l /\ mono l r
  end.

(* ---------- table hypotheses ---------- *)

Definition pm_id (T : tables) (c : rune) : bool :=
  match punct_map T c with
  | None => true
  | Some [c'] => N.eqb c' c
  | Some _ => false
  end.
(* a rune that can sit inside a word of the written text *)
Definition wchar_ok (T : tables) (c : rune) : bool :=
  negb (N.eqb c 10) && negb (is_space T c) && pm_id T c && negb (N.eqb c 38).

(* the runes of the (?i) literals of the three ignorableTexts expressions
   ("copyright ", "(c) ", "[yyyy]", "copyright (c) [dates of first
   publication]") that stand first or after a blank: c ( [ o f p.  Only these
   can face the first rune of a word, the only rune on which the two modes
   differ unless html.UnescapeString put an upper-case rune inside the word
   (then [ci_same] is asked of that rune, per word).  (For the others the hypothesis would be false for Unicode:
   ToLower(U+0130) = 'i' but (?i)i does not match U+0130.) *)
Definition init_runes : list rune := [99; 40; 91; 111; 102; 112].

Record tables_ok (T : tables) : Prop := {
  tk_lower_idem : forall c, to_lower T (to_lower T c) = to_lower T c;
  tk_lower_letter : forall c, is_letter T (to_lower T c) = is_letter T c;
  tk_lower_digit : forall c, is_digit T (to_lower T c) = is_digit T c;
  tk_digit_fix : forall c, is_digit T c = true -> to_lower T c = c;
  tk_lower_mark : forall c k, In k [10; 38; 41; 45; 46; 58] -> (to_lower T c = k <-> c = k);
  tk_lower_ci : forall c p, In p init_runes -> ci_eq p (to_lower T c) = ci_eq p c;
  tk_lower_adigit : forall c, ascii_digit (to_lower T c) = ascii_digit c;
  tk_lower_http : to_lower T 104 = 104 /\ to_lower T 116 = 116 /\ to_lower T 112 = 112;
  tk_letter_ok : forall c, is_letter T c = true -> wchar_ok T c = true;
  tk_digit_ok : forall c, is_digit T c = true -> wchar_ok T c = true;
  tk_dot_ok : wchar_ok T 46 = true;
  tk_hyphen_ok : wchar_ok T 45 = true;
  tk_space : is_space T 32 = true;
  tk_space_nostart : starts_word T 32 = false;
  tk_marks_letter : is_letter T 46 = false /\ is_letter T 58 = false /\ is_letter T 41 = false;
  tk_marks_digit : is_digit T 58 = false /\ is_digit T 41 = false;
  tk_unescape : forall w, existsb (N.eqb 38) w = false -> unescape T w = w;
  tk_ichg_nil : interchangeable T [] = None;
  tk_ichg_nonempty : forall k, interchangeable T k <> Some []
}.

(* ---------- the concrete tables ---------- *)

Ltac cmp1 :=
  match goal with
  | H : context [N.leb ?a ?b] |- _ => destruct (N.leb_spec a b); try (exfalso; lia)
  | H : context [N.eqb ?a ?b] |- _ => destruct (N.eqb_spec a b); try (exfalso; lia)
  | |- context [N.leb ?a ?b] => destruct (N.leb_spec a b); try (exfalso; lia)
  | |- context [N.eqb ?a ?b] => destruct (N.eqb_spec a b); try (exfalso; lia)
  end.
Ltac table_fact := cbn in *; repeat (cmp1; cbn in *); try reflexivity; try discriminate; try lia.

Ltac in_cases H :=
  repeat (destruct H as [H|H]; [subst|]); [..|destruct H].

Theorem tables_ok_T0 : tables_ok TokInv.T0.
Proof.
  constructor.
  - intros c. table_fact.
  - intros c. table_fact.
  - intros c. table_fact.
  - intros c. table_fact.
  - intros c k Hk. cbn in Hk. in_cases Hk; table_fact; split; intros; lia.
  - intros c p Hp. unfold init_runes in Hp. cbn [In] in Hp. unfold ci_eq, ascii_lower.
    in_cases Hp; table_fact.
  - intros c. unfold ascii_digit. table_fact.
  - repeat split.
  - intros c. unfold wchar_ok, pm_id. table_fact.
  - intros c. unfold wchar_ok, pm_id. table_fact.
  - reflexivity.
  - reflexivity.
  - reflexivity.
  - reflexivity.
  - repeat split.
  - repeat split.
  - reflexivity.
  - reflexivity.
  - discriminate.
Qed.

Theorem tables_ok_T1 : tables_ok TokWF.T1.
Proof.
  constructor.
  - intros c. unfold TokWF.T1, is_upper0. table_fact.
  - intros c. unfold TokWF.T1, is_upper0, is_lower0. table_fact.
  - intros c. unfold TokWF.T1, is_upper0. table_fact.
  - intros c. unfold TokWF.T1, is_upper0. table_fact.
  - intros c k Hk. cbn in Hk. unfold TokWF.T1, is_upper0. in_cases Hk; table_fact; split; intros; lia.
  - intros c p Hp. unfold init_runes in Hp. cbn [In] in Hp. unfold ci_eq, ascii_lower, TokWF.T1, is_upper0.
    in_cases Hp; table_fact.
  - intros c. unfold ascii_digit, TokWF.T1, is_upper0. table_fact.
  - repeat split.
  - intros c. unfold wchar_ok, pm_id, TokWF.T1, is_upper0, is_lower0, TokWF.in_runes. table_fact.
  - intros c. unfold wchar_ok, pm_id, TokWF.T1, TokWF.in_runes. table_fact.
  - reflexivity.
  - reflexivity.
  - reflexivity.
  - reflexivity.
  - repeat split.
  - repeat split.
  - reflexivity.
  - reflexivity.
  - intros k. unfold TokWF.T1. cbn [interchangeable].
    destruct (word_eqb k _); discriminate.
Qed.

(* ================================================================== *)
(* 1. The state machine, both modes, read through its projections      *)
(* ================================================================== *)

Ltac fields :=
  cbn [obuf_rev linebuf_rev line dEOL dWord toks_rev matches_rev amps_rev
       set_bufs set_line set_flags push_tok] in *.

(* the (reversed) line buffer a newline or the end of input hands to appendToDoc *)
Definition cur_lb (T : tables) (n : bool) (s : tstate) : list word :=
  match obuf_rev s with [] => linebuf_rev s | _ => flush_buf T n (obuf_rev s) :: linebuf_rev s end.

Definition line_toks (T : tables) (n : bool) (L : N) (lb_rev : list word) : list (word * N) :=
  match lb_rev with
  | [] => []
  | _ => match stringify_line_buf T n (rev lb_rev) with
         | LRMatch => []
         | LRTokens ws => rev (map (fun w => (w, L)) ws)
         end
  end.
Definition line_ms (T : tables) (n : bool) (L : N) (lb_rev : list word) : list N :=
  match lb_rev with
  | [] => []
  | _ => match stringify_line_buf T n (rev lb_rev) with
         | LRMatch => [L]
         | LRTokens _ => []
         end
  end.

Lemma atd_toks T n s lb :
  toks_rev (append_to_doc T n s lb) = line_toks T n (line s) lb ++ toks_rev s.
Proof.
  unfold append_to_doc, line_toks. destruct lb; [reflexivity|].
  destruct (stringify_line_buf _ _ _); reflexivity.
Qed.
Lemma atd_ms T n s lb :
  matches_rev (append_to_doc T n s lb) = line_ms T n (line s) lb ++ matches_rev s.
Proof.
  unfold append_to_doc, line_ms. destruct lb; [reflexivity|].
  destruct (stringify_line_buf _ _ _); reflexivity.
Qed.

#[local] Hint Rewrite note_amp_obuf note_amp_linebuf note_amp_line note_amp_dEOL note_amp_dWord
     note_amp_toks note_amp_matches
     atd_obuf atd_linebuf atd_line atd_dEOL atd_dWord atd_toks atd_ms : npf.

Lemma step_nl_proj T n s :
  hd_hyphen (obuf_rev s) = false ->
  let s' := step T n s 10 in
  obuf_rev s' = [] /\ linebuf_rev s' = [] /\ line s' = line s + 1 /\
  dEOL s' = dEOL s /\ dWord s' = dWord s /\
  toks_rev s' = (if n then [] else [([10], line s)]) ++ line_toks T n (line s) (cur_lb T n s) ++ toks_rev s /\
  matches_rev s' = line_ms T n (line s) (cur_lb T n s) ++ matches_rev s.
Proof.
  intros Hh. cbv zeta. unfold step, cur_lb. change (N.eqb 10 NLr) with true. cbv iota.
  destruct (obuf_rev s) as [|c ob'] eqn:Hob.
  - destruct (linebuf_rev s) as [|w0 lb0] eqn:Hlb; destruct n; fields; autorewrite with npf;
      repeat split; try reflexivity; try assumption.
  - cbn [hd_hyphen] in Hh. change HYPHEN with 45. rewrite Hh.
    destruct n; fields; autorewrite with npf; rewrite ?Hob; repeat split; reflexivity.
Qed.

Lemma step_start T n s r :
  r <> 10 -> obuf_rev s = [] ->
  step T n s r =
  if starts_word T r then set_bufs s [if n then to_lower T r else r] (linebuf_rev s) else s.
Proof.
  intros Hr Hob. unfold step.
  destruct (N.eqb_spec r NLr) as [E|_]; [exfalso; apply Hr; exact E|].
  rewrite Hob. reflexivity.
Qed.

Lemma step_space_proj T n s r :
  r <> 10 -> obuf_rev s <> [] -> is_space T r = true -> dEOL s = false -> dWord s = false ->
  let s' := step T n s r in
  obuf_rev s' = [] /\ linebuf_rev s' = flush_buf T n (obuf_rev s) :: linebuf_rev s /\
  line s' = line s /\ dEOL s' = false /\ dWord s' = false /\
  toks_rev s' = toks_rev s /\ matches_rev s' = matches_rev s.
Proof.
  intros Hr Hob Hsp He Hw. cbv zeta. unfold step.
  destruct (N.eqb_spec r NLr) as [E|_]; [exfalso; apply Hr; exact E|].
  destruct (obuf_rev s) as [|c ob'] eqn:Eo; [congruence|].
  rewrite Hsp, He. rewrite note_amp_dWord, Hw. fields. autorewrite with npf.
  rewrite Eo. repeat split; assumption.
Qed.

Lemma step_char T n s r :
  r <> 10 -> obuf_rev s <> [] -> is_space T r = false -> dEOL s = false ->
  step T n s r =
  set_bufs s ((match punct_map T r with Some rep => rev (map (to_lower T) rep) | None => [to_lower T r] end)
              ++ obuf_rev s) (linebuf_rev s).
Proof.
  intros Hr Hob Hsp He. unfold step.
  destruct (N.eqb_spec r NLr) as [E|_]; [exfalso; apply Hr; exact E|].
  destruct (obuf_rev s) as [|c ob'] eqn:Eo; [congruence|].
  rewrite Hsp, He. cbv zeta. rewrite Eo. destruct (punct_map T r); reflexivity.
Qed.

(* the remaining branches: a deferred line break in progress *)
Lemma step_nl_hyph T n s :
  hd_hyphen (obuf_rev s) = true ->
  step T n s 10 = set_flags (set_bufs s (tl (obuf_rev s)) (linebuf_rev s)) true (dWord s).
Proof.
  intros Hh. unfold step. change (N.eqb 10 NLr) with true. cbv iota.
  destruct (obuf_rev s) as [|c ob']; [discriminate|]. cbn [hd_hyphen] in Hh.
  change HYPHEN with 45. rewrite Hh. reflexivity.
Qed.

Lemma step_space_deol T n s r :
  r <> 10 -> obuf_rev s <> [] -> is_space T r = true -> dEOL s = true -> step T n s r = s.
Proof.
  intros Hr Hob Hsp He. unfold step.
  destruct (N.eqb_spec r NLr) as [E|_]; [exfalso; apply Hr; exact E|].
  destruct (obuf_rev s) as [|c ob'] eqn:Eo; [congruence|].
  rewrite Hsp, He. reflexivity.
Qed.

Lemma step_space_dword T n s r :
  r <> 10 -> obuf_rev s <> [] -> is_space T r = true -> dEOL s = false -> dWord s = true ->
  let s' := step T n s r in
  obuf_rev s' = [] /\ linebuf_rev s' = [] /\ line s' = line s + 1 /\
  dEOL s' = false /\ dWord s' = false /\
  toks_rev s' = line_toks T n (line s) (cur_lb T n s) ++ toks_rev s /\
  matches_rev s' = line_ms T n (line s) (cur_lb T n s) ++ matches_rev s.
Proof.
  intros Hr Hob Hsp He Hw. cbv zeta. unfold step, cur_lb.
  destruct (N.eqb_spec r NLr) as [E|_]; [exfalso; apply Hr; exact E|].
  destruct (obuf_rev s) as [|c ob'] eqn:Eo; [congruence|].
  rewrite Hsp, He. rewrite note_amp_dWord, Hw. fields. autorewrite with npf.
  rewrite Eo, He. repeat split; reflexivity.
Qed.

Lemma step_char_gen T n s r :
  r <> 10 -> obuf_rev s <> [] -> is_space T r = false ->
  step T n s r =
  set_bufs (if dEOL s then set_flags s false true else s)
           ((match punct_map T r with Some rep => rev (map (to_lower T) rep) | None => [to_lower T r] end)
            ++ obuf_rev s) (linebuf_rev s).
Proof.
  intros Hr Hob Hsp. unfold step.
  destruct (N.eqb_spec r NLr) as [E|_]; [exfalso; apply Hr; exact E|].
  destruct (obuf_rev s) as [|c ob'] eqn:Eo; [congruence|].
  rewrite Hsp. cbv zeta. destruct (dEOL s); fields; rewrite Eo; destruct (punct_map T r); reflexivity.
Qed.

Lemma finish_proj T n s :
  toks_rev (finish T n s) = line_toks T n (line s) (cur_lb T n s) ++ toks_rev s /\
  matches_rev (finish T n s) = line_ms T n (line s) (cur_lb T n s) ++ matches_rev s.
Proof.
  unfold finish, cur_lb. cbv zeta. autorewrite with npf. split; reflexivity.
Qed.

(* ================================================================== *)
(* 2. Word-level facts                                                 *)
(* ================================================================== *)

Lemma has_https_id w : has_https w = false -> normalize_token w = w.
Proof.
  unfold normalize_token. induction w as [|c w IH]; intro H; [reflexivity|].
  cbn [has_https] in H. apply orb_false_iff in H. destruct H as [H1 H2].
  rewrite replace_cons0. destruct (prefix_rest HTTPS (c :: w)); [discriminate|].
  f_equal. apply IH, H2.
Qed.

Lemma existsb_amp_false l : Forall (fun c => c <> 38) l -> existsb (N.eqb 38) l = false.
Proof.
  induction 1 as [|c l Hc _ IH]; [reflexivity|]. cbn [existsb]. rewrite IH, orb_false_r.
  apply N.eqb_neq. intro E. apply Hc. symmetry. exact E.
Qed.

Lemma existsb_amp_false_inv l : existsb (N.eqb 38) l = false -> Forall (fun c => c <> 38) l.
Proof.
  induction l as [|c l IH]; intro H; [constructor|]. cbn [existsb] in H.
  apply orb_false_iff in H. destruct H as [H1 H2]. constructor; [|apply IH, H2].
  apply N.eqb_neq in H1. intro E. apply H1. symmetry. exact E.
Qed.

Lemma set_bufs_eta s : set_bufs s (obuf_rev s) (linebuf_rev s) = s.
Proof. destruct s; reflexivity. Qed.

Section WithT.
Variable T : tables.
Hypothesis TK : tables_ok T.

Lemma wchar_ok_inv c :
  wchar_ok T c = true -> c <> 10 /\ is_space T c = false /\ pm_id T c = true /\ c <> 38.
Proof.
  unfold wchar_ok. rewrite !andb_true_iff, !negb_true_iff, !N.eqb_neq. tauto.
Qed.

Lemma pm_id_app c :
  pm_id T c = true ->
  match punct_map T c with Some rep => rev (map (to_lower T) rep) | None => [to_lower T c] end
  = [to_lower T c].
Proof.
  unfold pm_id. destruct (punct_map T c) as [[|c' [|c'' rep]]|]; try discriminate; [|reflexivity].
  intro H. apply N.eqb_eq in H. subst c'. reflexivity.
Qed.

(* runes of a word following its first rune: both modes append the lower-cased rune *)
Lemma feed_rest n w : forall s,
  obuf_rev s <> [] -> dEOL s = false -> Forall (fun x => wchar_ok T x = true) w ->
  fold_left (step T n) w s = set_bufs s (rev (lw T w) ++ obuf_rev s) (linebuf_rev s).
Proof.
  induction w as [|x w IH]; intros s Hob He Hw.
  - cbn. symmetry. apply set_bufs_eta.
  - inversion Hw as [|x' w' Hx Hw']; subst. cbn [fold_left].
    destruct (wchar_ok_inv x Hx) as (Hx10 & Hxs & Hxp & _).
    rewrite (step_char T n s x Hx10 Hob Hxs He), (pm_id_app x Hxp).
    rewrite IH; fields; try assumption; [|discriminate].
    unfold lw. cbn [map rev]. rewrite <- app_assoc. reflexivity.
Qed.

Lemma nchar_fix c : nchar T c = true -> to_lower T c = c.
Proof.
  unfold nchar. rewrite !orb_true_iff, !N.eqb_eq. intros [[H|H]|H].
  - apply (tk_digit_fix T TK), H.
  - subst c. apply (tk_lower_mark T TK 46 46); cbn; tauto.
  - subst c. apply (tk_lower_mark T TK 45 45); cbn; tauto.
Qed.

Lemma nchar_wchar c : nchar T c = true -> wchar_ok T c = true.
Proof.
  unfold nchar. rewrite !orb_true_iff, !N.eqb_eq. intros [[H|H]|H].
  - apply (tk_digit_ok T TK), H.
  - subst c. apply (tk_dot_ok T TK).
  - subst c. apply (tk_hyphen_ok T TK).
Qed.

Lemma number_lw w : Forall (fun c => nchar T c = true) w -> lw T w = w.
Proof.
  induction 1 as [|c w Hc _ IH]; [reflexivity|]. unfold lw in *. cbn [map].
  rewrite (nchar_fix c Hc), IH. reflexivity.
Qed.

Definition Letters (w : word) : Prop := Forall (fun c => is_letter T c = true) w.
Definition Numberlike (w : word) : Prop :=
  first_is_number T w = true /\ Forall (fun c => nchar T c = true) w /\ ends_dot w = false.

Lemma shape_ok_cases w : shape_ok T w = true -> w <> [] /\ (Letters w \/ Numberlike w).
Proof.
  unfold shape_ok. destruct w as [|c w']; [discriminate|]. intro H. split; [discriminate|].
  apply orb_true_iff in H. destruct H as [H|H].
  - left. unfold letters_word in H. rewrite forallb_forall in H. apply Forall_forall. exact H.
  - right. unfold number_word in H. rewrite !andb_true_iff, negb_true_iff in H.
    destruct H as [[H1 H2] H3]. repeat split; try assumption.
    apply Forall_forall. rewrite forallb_forall in H2. exact H2.
Qed.

Lemma word_ok_inv w : word_ok T w = true -> shape_ok T w = true /\ has_https (lw T w) = false.
Proof. unfold word_ok. rewrite andb_true_iff, negb_true_iff. tauto. Qed.

Lemma Letters_lw w : Letters w -> Letters (lw T w).
Proof.
  unfold Letters, lw. intro H. apply Forall_map. eapply Forall_impl; [|exact H].
  cbv beta. intros c Hc. rewrite (tk_lower_letter T TK). exact Hc.
Qed.

Lemma shape_wchars w : shape_ok T w = true -> Forall (fun x => wchar_ok T x = true) w.
Proof.
  intro H. destruct (shape_ok_cases w H) as [_ [HL|(_ & HN & _)]].
  - eapply Forall_impl; [|exact HL]. cbv beta. intros c. apply (tk_letter_ok T TK).
  - eapply Forall_impl; [|exact HN]. cbv beta. intros c. apply nchar_wchar.
Qed.

Lemma shape_first w : shape_ok T w = true ->
  exists c w', w = c :: w' /\ starts_word T c = true /\ c <> 10.
Proof.
  intro H. pose proof (shape_wchars w H) as HW.
  destruct (shape_ok_cases w H) as [Hne [HL|(HF & _ & _)]];
    (destruct w as [|c w']; [congruence|]); exists c, w'; (split; [reflexivity|]);
    inversion HW as [|? ? Hc _]; subst; destruct (wchar_ok_inv c Hc) as (H10 & _);
    (split; [|exact H10]); unfold starts_word.
  - inversion HL as [|? ? Hl _]; subst. rewrite Hl. reflexivity.
  - cbn [first_is_number] in HF. apply andb_true_iff in HF. destruct HF as [_ HD].
    rewrite HD, orb_true_r. reflexivity.
Qed.

Lemma shape_lw_no_amp w : shape_ok T w = true -> existsb (N.eqb 38) (lw T w) = false.
Proof.
  intro H. apply existsb_amp_false.
  destruct (shape_ok_cases w H) as [_ [HL|(_ & HN & _)]].
  - eapply Forall_impl; [|exact (Letters_lw w HL)]. cbv beta. intros c Hc.
    apply (tk_letter_ok T TK) in Hc. apply wchar_ok_inv in Hc. tauto.
  - rewrite (number_lw w HN). eapply Forall_impl; [|exact HN]. cbv beta. intros c Hc.
    apply nchar_wchar, wchar_ok_inv in Hc. tauto.
Qed.

Lemma lw_idem w : lw T (lw T w) = lw T w.
Proof. unfold lw. rewrite map_map. apply map_ext. intro c. apply (tk_lower_idem T TK). Qed.

Lemma flush_lw w : word_ok T w = true -> flush_buf T true (rev (lw T w)) = lw T w.
Proof.
  intro H. destruct (word_ok_inv w H) as [Hs Hh]. unfold flush_buf. rewrite rev_involutive.
  rewrite (tk_unescape T TK) by (apply shape_lw_no_amp, Hs). cbv zeta iota.
  change (map (to_lower T) (lw T w)) with (lw T (lw T w)). rewrite lw_idem. apply has_https_id, Hh.
Qed.

(* feeding a whole word from an empty buffer *)
Lemma feed_word w s :
  shape_ok T w = true -> obuf_rev s = [] -> dEOL s = false ->
  fold_left (step T true) w s = set_bufs s (rev (lw T w)) (linebuf_rev s).
Proof.
  intros H Hob He. pose proof (shape_wchars w H) as HW.
  destruct (shape_first w H) as (c & w' & -> & Hsw & Hc10).
  inversion HW as [|? ? _ HW']; subst. cbn [fold_left].
  rewrite (step_start T true s c Hc10 Hob), Hsw.
  rewrite (feed_rest true w'); fields; try assumption; [|discriminate].
  unfold lw. cbn [map rev]. reflexivity.
Qed.

Lemma header_false (w : word) :
  match rev w with [] => True | e :: _ => e <> 46 /\ e <> 58 /\ e <> 41 end -> header T w = false.
Proof.
  unfold header. destruct (rev w) as [|e p]; [reflexivity|]. intros (H1 & H2 & H3).
  change DOT with 46.
  apply N.eqb_neq in H1, H2, H3. rewrite H1, H2, H3. reflexivity.
Qed.

Lemma Letters_header w : Letters w -> header T w = false.
Proof.
  intro HL. apply header_false. destruct (rev w) as [|e p] eqn:E; [exact I|].
  assert (He : is_letter T e = true).
  { unfold Letters in HL. rewrite Forall_forall in HL. apply HL. apply in_rev. rewrite E. left. reflexivity. }
  destruct (tk_marks_letter T TK) as (M1 & M2 & M3).
  repeat split; intro; subst e; congruence.
Qed.

Lemma Numberlike_header w : Numberlike w -> header T w = false.
Proof.
  intros (_ & HN & HD). apply header_false. unfold ends_dot in HD.
  destruct (rev w) as [|e p] eqn:E; [exact I|].
  assert (He : nchar T e = true).
  { rewrite Forall_forall in HN. apply HN. apply in_rev. rewrite E. left. reflexivity. }
  destruct (tk_marks_digit T TK) as (M1 & M2).
  split; [apply N.eqb_neq, HD|].
  split; intro; subst e; unfold nchar in He; rewrite ?M1, ?M2 in He; discriminate.
Qed.

Lemma filter_all {A} (f : A -> bool) l : Forall (fun x => f x = true) l -> filter f l = l.
Proof. induction 1 as [|x l Hx _ IH]; [reflexivity|]. cbn [filter]. rewrite Hx, IH. reflexivity. Qed.

Lemma ichg_nonempty w : w <> [] -> ichg T w <> [].
Proof.
  unfold ichg. intro H. destruct (interchangeable T w) as [v|] eqn:E; [|exact H].
  intro Hv. subst v. exact (tk_ichg_nonempty T TK w E).
Qed.

Lemma Letters_not_number w : Letters w -> first_is_number T w = false.
Proof.
  destruct w as [|c w']; [reflexivity|]. intro H. inversion H as [|? ? Hc _]; subst.
  cbn [first_is_number]. rewrite Hc. reflexivity.
Qed.

(* what normalising mode makes of the lower-cased word, in any position *)
Lemma cleanup_lw first w :
  shape_ok T w = true ->
  cleanup_token T first (lw T w) true = norm_word T w /\ norm_word T w <> [].
Proof.
  intro H. destruct (shape_ok_cases w H) as [Hne [HL|HN]].
  - pose proof (Letters_lw w HL) as HL'.
    unfold cleanup_token, norm_word.
    rewrite (Letters_header _ HL'), andb_false_r.
    change (match lw T w with r :: _ => negb (is_letter T r) && is_digit T r | [] => false end)
      with (first_is_number T (lw T w)).
    rewrite (Letters_not_number _ HL'), (Letters_not_number _ HL).
    rewrite (filter_all _ _ HL'). fold (ichg T (lw T w)). split; [reflexivity|].
    apply ichg_nonempty. unfold lw. destruct w; [congruence|discriminate].
  - destruct HN as (HF & HC & HD). rewrite (number_lw w HC).
    unfold cleanup_token, norm_word.
    rewrite (Numberlike_header w (conj HF (conj HC HD))), andb_false_r.
    change (match w with r :: _ => negb (is_letter T r) && is_digit T r | [] => false end)
      with (first_is_number T w).
    rewrite HF. split; [|exact Hne].
    rewrite (filter_all (fun c => is_digit T c || N.eqb c DOT || N.eqb c HYPHEN) w HC).
    unfold ends_dot in HD. destruct (rev w) as [|e p] eqn:E.
    + cbn. apply (f_equal (@rev _)) in E. rewrite rev_involutive in E. subst w. reflexivity.
    + cbn [strip_trailing_dots_rev]. change DOT with 46. rewrite HD, <- E. apply rev_involutive.
Qed.

Lemma clean_go_lw ws : forall first,
  Forall (fun w => shape_ok T w = true) ws ->
  clean_go T true first (map (lw T) ws) = map (norm_word T) ws.
Proof.
  induction ws as [|w r IH]; intros first H; [reflexivity|].
  inversion H as [|? ? Hw Hr]; subst. cbn [map clean_go].
  destruct (cleanup_lw first w Hw) as [-> Hne].
  destruct (norm_word T w) eqn:E; [congruence|]. rewrite IH by exact Hr. reflexivity.
Qed.

Lemma hd_hyphen_lw w : ends_hyphen w = false -> hd_hyphen (rev (lw T w)) = false.
Proof.
  unfold ends_hyphen, lw. rewrite <- map_rev. destruct (rev w) as [|c r]; [reflexivity|].
  cbn [map hd_hyphen]. intro H. apply N.eqb_neq in H. apply N.eqb_neq. intro E. apply H.
  apply (tk_lower_mark T TK c 45); [cbn; tauto|exact E].
Qed.

(* ================================================================== *)
(* 3. Part A: re-tokenising the written text                           *)
(* ================================================================== *)

Definition emit (L : N) (line_rev : list word) : list (word * N) :=
  map (fun w => (norm_word T w, L)) (rev line_rev).

Definition hold_ob (line_rev : list word) : list rune :=
  match line_rev with [] => [] | w :: _ => rev (lw T w) end.
Definition hold_lb (line_rev : list word) : list word :=
  match line_rev with [] => [] | _ :: r => map (lw T) r end.

(* the normalising-mode state after reading the words [line_rev] (last first)
   of line [L] of the written text, the last word still in the buffer *)
Record Hold (s : tstate) (line_rev : list word) (L : N) (acc : list (word * N)) : Prop := {
  h_ob : obuf_rev s = hold_ob line_rev;
  h_lb : linebuf_rev s = hold_lb line_rev;
  h_line : line s = L;
  h_e : dEOL s = false;
  h_w : dWord s = false;
  h_toks : toks_rev s = acc;
  h_ms : matches_rev s = [] }.

Definition WordsOK (l : list word) : Prop := Forall (fun w => word_ok T w = true) l.

Lemma WordsOK_shape l : WordsOK l -> Forall (fun w => shape_ok T w = true) l.
Proof. apply Forall_impl. intros w H. apply word_ok_inv in H. tauto. Qed.

Lemma lw_nonempty w : shape_ok T w = true -> rev (lw T w) <> [].
Proof.
  intros H E. destruct w as [|c w']; [discriminate|]. unfold lw in E. cbn [map rev] in E.
  destruct (rev (map (to_lower T) w')); discriminate.
Qed.

Lemma hold_cur_lb s line_rev L acc :
  Hold s line_rev L acc -> WordsOK line_rev -> cur_lb T true s = map (lw T) line_rev.
Proof.
  intros H HW. unfold cur_lb. rewrite (h_ob _ _ _ _ H), (h_lb _ _ _ _ H).
  destruct line_rev as [|w r]; [reflexivity|]. inversion HW as [|? ? Hw _]; subst.
  cbn [hold_ob hold_lb map].
  destruct (rev (lw T w)) as [|c l] eqn:E.
  - exfalso. apply word_ok_inv in Hw. exact (lw_nonempty w (proj1 Hw) E).
  - rewrite <- E, (flush_lw w Hw). reflexivity.
Qed.

Lemma hold_line_out L line_rev :
  WordsOK line_rev -> line_ign_ok T (rev line_rev) = true ->
  line_toks T true L (map (lw T) line_rev) = rev (emit L line_rev) /\
  line_ms T true L (map (lw T) line_rev) = [].
Proof.
  intros HW Hi. unfold line_toks, line_ms. destruct line_rev as [|w r]; [split; reflexivity|].
  cbn [map]. change (lw T w :: map (lw T) r) with (map (lw T) (w :: r)).
  unfold stringify_line_buf. rewrite <- map_rev.
  unfold line_ign_ok in Hi. apply negb_true_iff in Hi. rewrite Hi.
  split; [|reflexivity]. rewrite clean_line_go, clean_go_lw.
  - unfold emit. rewrite map_map. reflexivity.
  - apply WordsOK_shape. apply Forall_rev. exact HW.
Qed.

Lemma hold_hyphen s line_rev L acc :
  Hold s line_rev L acc -> line_hyphen line_rev = false -> hd_hyphen (obuf_rev s) = false.
Proof.
  intros H Hh. rewrite (h_ob _ _ _ _ H). destruct line_rev as [|w r]; [reflexivity|].
  cbn [hold_ob]. apply hd_hyphen_lw. exact Hh.
Qed.

Lemma hold_nl s line_rev L acc :
  Hold s line_rev L acc -> WordsOK line_rev ->
  line_ign_ok T (rev line_rev) = true -> line_hyphen line_rev = false ->
  Hold (step T true s 10) [] (L + 1) (rev (emit L line_rev) ++ acc).
Proof.
  intros H HW Hi Hh.
  destruct (step_nl_proj T true s (hold_hyphen _ _ _ _ H Hh)) as (P1 & P2 & P3 & P4 & P5 & P6 & P7).
  rewrite (hold_cur_lb _ _ _ _ H HW) in P6, P7. rewrite (h_line _ _ _ _ H) in P3, P6, P7.
  destruct (hold_line_out L line_rev HW Hi) as [Q1 Q2]. rewrite Q1 in P6. rewrite Q2 in P7.
  constructor; cbn [hold_ob hold_lb]; try assumption.
  - rewrite P4. apply (h_e _ _ _ _ H).
  - rewrite P5. apply (h_w _ _ _ _ H).
  - rewrite P6, (h_toks _ _ _ _ H). reflexivity.
  - rewrite P7, (h_ms _ _ _ _ H). reflexivity.
Qed.

Lemma hold_finish s line_rev L acc :
  Hold s line_rev L acc -> WordsOK line_rev -> line_ign_ok T (rev line_rev) = true ->
  toks_rev (finish T true s) = rev (emit L line_rev) ++ acc /\ matches_rev (finish T true s) = [].
Proof.
  intros H HW Hi. destruct (finish_proj T true s) as [P1 P2].
  rewrite (hold_cur_lb _ _ _ _ H HW), (h_line _ _ _ _ H) in P1, P2.
  destruct (hold_line_out L line_rev HW Hi) as [Q1 Q2]. rewrite Q1 in P1. rewrite Q2 in P2.
  rewrite P1, P2, (h_toks _ _ _ _ H), (h_ms _ _ _ _ H). split; reflexivity.
Qed.

Lemma hold_feed_first s L acc w :
  Hold s [] L acc -> word_ok T w = true -> Hold (fold_left (step T true) w s) [w] L acc.
Proof.
  intros H Hw. apply word_ok_inv in Hw. destruct Hw as [Hs _].
  rewrite (feed_word w s Hs (h_ob _ _ _ _ H) (h_e _ _ _ _ H)).
  destruct H as [A1 A2 A3 A4 A5 A6 A7].
  constructor; fields; cbn [hold_ob hold_lb] in *; try reflexivity; assumption.
Qed.

Lemma hold_feed_next s L acc w0 r w :
  Hold s (w0 :: r) L acc -> WordsOK (w0 :: r) -> word_ok T w = true ->
  Hold (fold_left (step T true) (32 :: w) s) (w :: w0 :: r) L acc.
Proof.
  intros H HW Hw. inversion HW as [|? ? Hw0 _]; subst. cbn [fold_left].
  assert (H32 : (32 : N) <> 10) by discriminate.
  assert (Hob : obuf_rev s <> []).
  { rewrite (h_ob _ _ _ _ H). cbn [hold_ob]. apply lw_nonempty. apply word_ok_inv in Hw0. tauto. }
  destruct (step_space_proj T true s 32 H32 Hob (tk_space T TK) (h_e _ _ _ _ H) (h_w _ _ _ _ H))
    as (P1 & P2 & P3 & P4 & P5 & P6 & P7).
  apply word_ok_inv in Hw. destruct Hw as [Hs _].
  rewrite (feed_word w _ Hs P1 P4).
  rewrite (h_ob _ _ _ _ H) in P2. cbn [hold_ob] in P2. rewrite (flush_lw w0 Hw0) in P2.
  destruct H as [A1 A2 A3 A4 A5 A6 A7].
  constructor; fields; cbn [hold_ob hold_lb map]; try congruence.
  rewrite P2, A2. reflexivity.
Qed.

Lemma emit_cons L w line_rev : emit L (w :: line_rev) = emit L line_rev ++ [(norm_word T w, L)].
Proof. unfold emit. cbn [rev]. rewrite map_app. reflexivity. Qed.

Lemma ign_ok_nil : line_ign_ok T (rev []) = true.
Proof. unfold line_ign_ok. cbn [rev map stringify]. rewrite ignorable_nil. reflexivity. Qed.

Lemma Hold_line s line_rev L L' acc : L = L' -> Hold s line_rev L acc -> Hold s line_rev L' acc.
Proof. intros ->. exact (fun H => H). Qed.

(* empty lines *)
Lemma hold_nls k : forall s L acc,
  Hold s [] L acc -> Hold (fold_left (step T true) (repeat 10 k) s) [] (L + N.of_nat k) acc.
Proof.
  induction k as [|k IH]; intros s L acc H.
  - cbn [repeat fold_left]. apply (Hold_line s [] L); [cbn; lia|exact H].
  - cbn [repeat fold_left].
    pose proof (hold_nl s [] L acc H (Forall_nil _) ign_ok_nil eq_refl) as H1.
    apply IH in H1. eapply Hold_line; [|exact H1]. lia.
Qed.

Lemma breaks_same p : breaks p p = [].
Proof. unfold breaks. rewrite N.sub_diag. reflexivity. Qed.

(* the line [prev] is complete and the writer moves to line [l > prev] *)
Lemma hold_breaks s line_rev prev l acc :
  Hold s line_rev prev acc -> WordsOK line_rev -> prev < l ->
  line_ign_ok T (rev line_rev) = true -> line_hyphen line_rev = false ->
  Hold (fold_left (step T true) (breaks prev l) s) [] l (rev (emit prev line_rev) ++ acc).
Proof.
  intros H HW Hl Hi Hh. unfold breaks.
  destruct (N.to_nat (l - prev)) as [|k] eqn:Ek; [lia|].
  cbn [repeat fold_left].
  pose proof (hold_nl s line_rev prev acc H HW Hi Hh) as H1.
  apply (hold_nls k) in H1. eapply Hold_line; [|exact H1]. lia.
Qed.

Lemma hold_space_empty s L acc : Hold s [] L acc -> step T true s 32 = s.
Proof.
  intro H. rewrite (step_start T true s 32 ltac:(discriminate) (h_ob _ _ _ _ H)).
  rewrite (tk_space_nostart T TK). reflexivity.
Qed.

(* a word written after [line_rev] on the same line *)
Lemma hold_feed s L acc line_rev w :
  Hold s line_rev L acc -> WordsOK line_rev -> word_ok T w = true ->
  Hold (fold_left (step T true) (32 :: w) s) (w :: line_rev) L acc.
Proof.
  intros H HW Hw. destruct line_rev as [|w0 lr].
  - cbn [fold_left]. rewrite (hold_space_empty s L acc H). apply hold_feed_first; assumption.
  - apply hold_feed_next; assumption.
Qed.

Lemma write_rest_run r : forall prev line_rev acc s,
  Hold s line_rev prev acc -> WordsOK line_rev ->
  canon_go T prev line_rev r = true ->
  let f := finish T true (fold_left (step T true) (write_rest r prev) s) in
  toks_rev f = rev (emit prev line_rev ++ map (normtok T) (filter non_eol r)) ++ acc /\
  matches_rev f = [].
Proof.
  induction r as [|[w l] r' IH]; intros prev line_rev acc s H HW Hc; cbv zeta.
  - cbn [write_rest fold_left filter map]. rewrite app_nil_r.
    apply hold_finish; assumption.
  - cbn [write_rest canon_go] in *. cbn [filter]. unfold non_eol at 1. cbn [fst].
    destruct (N.eqb_spec l prev) as [->|Hne].
    + rewrite breaks_same. cbn [app].
      destruct (is_eol w) eqn:Ew; cbn [negb].
      * cbn [app]. apply IH; assumption.
      * apply andb_true_iff in Hc. destruct Hc as [Hw Hc].
        cbn [app]. change (32 :: w ++ write_rest r' prev) with ((32 :: w) ++ write_rest r' prev).
        rewrite fold_left_app.
        pose proof (hold_feed _ _ _ _ w H HW Hw) as H2.
        destruct (IH prev (w :: line_rev) _ _ H2 (Forall_cons _ Hw HW) Hc) as [R1 R2].
        split; [|exact R2]. etransitivity; [exact R1|]. rewrite (emit_cons prev w line_rev).
        cbn [map]. unfold normtok at 2. cbn [fst snd]. rewrite <- app_assoc. reflexivity.
    + apply andb_true_iff in Hc. destruct Hc as [Hc Hc4].
      apply andb_true_iff in Hc. destruct Hc as [Hc Hc3].
      apply andb_true_iff in Hc. destruct Hc as [Hc1 Hc2].
      apply N.ltb_lt in Hc1. apply negb_true_iff in Hc3.
      rewrite fold_left_app.
      pose proof (hold_breaks s line_rev prev l acc H HW Hc1 Hc2 Hc3) as H1.
      destruct (is_eol w) eqn:Ew; cbn [negb].
      * cbn [app].
        destruct (IH l [] _ _ H1 (Forall_nil _) Hc4) as [R1 R2].
        split; [|exact R2]. etransitivity; [exact R1|]. unfold emit at 1. cbn [rev map app].
        rewrite rev_app_distr, app_assoc. reflexivity.
      * apply andb_true_iff in Hc4. destruct Hc4 as [Hw Hc4].
        cbn [app]. rewrite fold_left_app.
        pose proof (hold_feed_first _ _ _ w H1 Hw) as H2.
        destruct (IH l [w] _ _ H2 (Forall_cons _ Hw (Forall_nil _)) Hc4) as [R1 R2].
        split; [|exact R2]. etransitivity; [exact R1|]. cbn [map]. unfold normtok at 2. cbn [fst snd].
        unfold emit at 1. cbn [rev map app].
        rewrite !rev_app_distr, <- !app_assoc. cbn [rev app]. rewrite <- !app_assoc. reflexivity.
Qed.

Lemma Hold_init : Hold init_state [] 1 [].
Proof. constructor; reflexivity. Qed.

(* Part A *)
Theorem retokenize_normalized toks :
  canon T toks = true ->
  d_toks (tokenize_runes T true (normalize_out toks)) = map (normtok T) (filter non_eol toks) /\
  d_matches (tokenize_runes T true (normalize_out toks)) = [].
Proof.
  intro Hc. unfold tokenize_runes, doc_of. cbn [d_toks d_matches].
  enough (E : toks_rev (finish T true (fold_left (step T true) (normalize_out toks) init_state))
              = rev (map (normtok T) (filter non_eol toks)) /\
              matches_rev (finish T true (fold_left (step T true) (normalize_out toks) init_state)) = []).
  { destruct E as [-> ->]. rewrite rev_involutive. split; reflexivity. }
  unfold canon in Hc. destruct toks as [|[w l] r].
  - cbn [normalize_out fold_left filter map rev]. cbn [canon_go] in Hc.
    destruct (hold_finish _ _ _ _ Hold_init (Forall_nil _) Hc) as [R1 R2]. split; assumption.
  - (* the leading line breaks *)
    assert (H0 : Hold (fold_left (step T true) (breaks 1 l) init_state) [] l [] /\ 1 <= l /\
                 (if is_eol w then canon_go T l [] r else word_ok T w && canon_go T l [w] r) = true).
    { cbn [canon_go] in Hc. destruct (N.eqb_spec l 1) as [->|Hne].
      - rewrite breaks_same. cbn [fold_left]. split; [exact Hold_init|]. split; [lia|exact Hc].
      - apply andb_true_iff in Hc. destruct Hc as [Hc Hc4].
        apply andb_true_iff in Hc. destruct Hc as [Hc Hc3].
        apply andb_true_iff in Hc. destruct Hc as [Hc1 Hc2].
        apply N.ltb_lt in Hc1. split; [|split; [lia|exact Hc4]].
        exact (hold_breaks _ [] 1 l [] Hold_init (Forall_nil _) Hc1 ign_ok_nil eq_refl). }
    destruct H0 as (H0 & Hl1 & Hc0).
    cbn [filter]. unfold non_eol at 1. cbn [fst].
    assert (Hgen : normalize_out ((w, l) :: r) =
                   breaks 1 l ++ (if is_eol w then match r with [] => w | _ => [] end else w) ++ write_rest r l).
    { cbn [normalize_out]. destruct r as [|t r'].
      - cbn [write_rest]. rewrite app_nil_r. destruct (is_eol w); reflexivity.
      - rewrite (N.max_r 1 l Hl1). reflexivity. }
    rewrite Hgen, fold_left_app. clear Hgen.
    destruct (is_eol w) eqn:Ew; cbn [negb].
    + destruct r as [|t r'].
      * (* a single EOL token is written as "\n" *)
        destruct w as [|c [|c' w']]; try discriminate. cbn [is_eol] in Ew. apply N.eqb_eq in Ew. subst c.
        cbn [write_rest app fold_left filter map rev].
        pose proof (hold_nl _ _ _ _ H0 (Forall_nil _) ign_ok_nil eq_refl) as H1.
        destruct (hold_finish _ _ _ _ H1 (Forall_nil _) ign_ok_nil) as [R1 R2]. split; assumption.
      * cbn [app].
        destruct (write_rest_run (t :: r') l [] [] _ H0 (Forall_nil _) Hc0) as [R1 R2].
        split; [|exact R2]. etransitivity; [exact R1|]. cbn [emit rev map app]. rewrite app_nil_r. reflexivity.
    + apply andb_true_iff in Hc0. destruct Hc0 as [Hw Hc0]. rewrite fold_left_app.
      pose proof (hold_feed_first _ _ _ w H0 Hw) as H1.
      destruct (write_rest_run r l [w] [] _ H1 (Forall_cons _ Hw (Forall_nil _)) Hc0) as [R1 R2].
      split; [|exact R2]. etransitivity; [exact R1|]. cbn [emit rev map app]. unfold normtok at 2. cbn [fst snd].
      rewrite app_nil_r. reflexivity.
Qed.

(* ================================================================== *)
(* 4. Part B: the two modes on the same input                          *)
(* ================================================================== *)

Definition lowfix (c : rune) : Prop := to_lower T c = c.

(* the word buffers (reversed) of the two runs: same runes, except that the
   first rune of the word keeps its case in raw mode *)
Inductive Orel : list rune -> list rune -> Prop :=
| Orel_nil : Orel [] []
| Orel_cons X c : Forall lowfix X -> Orel (X ++ [c]) (X ++ [to_lower T c]).

(* all the runes of the (?i) literals of the three ignorableTexts expressions *)
Definition ci_lits : list rune := COPYRIGHT_SP ++ PAREN_C_SP ++ YYYY ++ DATES_FIRST_PUB.
(* ToLower does not change how the three expressions see the rune [c]: the
   same literal runes match it, and it is in (?i)[a-z] or not, before and
   after.  True of every rune fixed by ToLower and of every ASCII letter;
   false for U+0130 (ToLower gives 'i', but (?i)i does not match U+0130). *)
Definition ci_same (c : rune) : bool :=
  forallb (fun p => Bool.eqb (ci_eq p (to_lower T c)) (ci_eq p c)) ci_lits &&
  Bool.eqb (ci_az (to_lower T c)) (ci_az c).

(* the flushed words of the two runs: the normalising run has the lower-cased
   word of the raw run, and lower-casing is invisible to the ignorable
   expressions except possibly on the first rune of the word *)
Definition Wrel (wr wn : word) : Prop :=
  wn = lw T wr /\ Forall (fun c => ci_same c = true) (tl wr).

(* exception (c), at its source: the first rune is changed by ToLower and the
   lower-cased word starts with "https" ("Https://..", "HTTPS") *)
Definition cap_https (o : list rune) : bool :=
  match o with
  | c :: Y => negb (N.eqb (to_lower T c) c) &&
              match prefix_rest HTTPS (to_lower T c :: Y) with Some _ => true | None => false end
  | [] => false
  end.
Definition lowerfirst (o : list rune) : list rune :=
  match o with c :: Y => to_lower T c :: Y | [] => [] end.
(* html.UnescapeString leaves the word alone (true of every word without '&':
   [tk_unescape]).  NOT required any more; kept to state that the condition
   below is weaker than the one used before the lower-casing "fix:" of
   flushBuf ([word_flush_ok_old]) *)
Definition unesc_fix (o : list rune) : bool := word_eqb (unescape T o) o.

(* A raw-mode word buffer [o] that may be flushed.  The normalising run holds
   [lowerfirst o].
   (1) [unesc_first]: up to case, html.UnescapeString gives the same word
       whether or not the first rune of the buffer was lower-cased (true of
       the real function, which copies everything before the first '&' and
       resolves what follows independently of it);
   (2) [https_stable]: lower-casing the unescaped word creates no "https"
       (normalizeToken commutes with the lower-casing);
   (3) [ci_tail]: the non-initial runes of the flushed word look the same to
       the ignorable expressions before and after lower-casing.
   Nothing is asked of what html.UnescapeString produces beyond (2), (3):
   "&#65;bc" -> "Abc" and "x&#65;y" -> "xAy" are fine. *)
Definition unesc_first (o : list rune) : bool :=
  word_eqb (lw T (unescape T (lowerfirst o))) (lw T (unescape T o)).
Definition https_stable (u : word) : bool :=
  word_eqb (normalize_token (lw T u)) (lw T (normalize_token u)).
Definition ci_tail (w : word) : bool := forallb ci_same (tl w).
Definition word_flush_ok (o : list rune) : bool :=
  unesc_first o && https_stable (unescape T o) && ci_tail (normalize_token (unescape T o)).
Definition flush_ok (ob_rev : list rune) : bool :=
  match ob_rev with [] => true | _ => word_flush_ok (rev ob_rev) end.
(* the raw-mode run flushes only good word buffers.  A newline met with a
   hyphen at the end of the buffer, and a space while a line break is
   deferred, do not flush. *)
Definition step_ok (s : tstate) (r : rune) : bool :=
  if N.eqb r 10 then hd_hyphen (obuf_rev s) || flush_ok (obuf_rev s)
  else if is_space T r then dEOL s || flush_ok (obuf_rev s) else true.
Fixpoint flushes_ok (s : tstate) (rs : list rune) : bool :=
  match rs with
  | [] => flush_ok (obuf_rev s)
  | r :: rs' => step_ok s r && flushes_ok (step T false s r) rs'
  end.

Lemma lowfix_lower c : lowfix (to_lower T c).
Proof. apply (tk_lower_idem T TK). Qed.

Lemma map_lowfix l : Forall lowfix l -> map (to_lower T) l = l.
Proof. induction 1 as [|c l Hc _ IH]; [reflexivity|]. cbn [map]. rewrite Hc, IH. reflexivity. Qed.

Lemma Forall_filter {A} (P : A -> Prop) f l : Forall P l -> Forall P (filter f l).
Proof.
  induction 1 as [|x l Hx _ IH]; [constructor|]. cbn [filter]. destruct (f x); [constructor|]; assumption.
Qed.

Lemma lowfix_replace Y : Forall lowfix Y -> forall k, Forall lowfix (replace_https_aux Y k).
Proof.
  destruct (tk_lower_http T TK) as (Hh & Ht & Hp).
  induction 1 as [|c Y Hc HY IH]; intros k; [constructor|].
  destruct k as [|k]; [|rewrite replace_consS; apply IH].
  rewrite replace_cons0. destruct (prefix_rest HTTPS (c :: Y)).
  - unfold HTTP. cbn [app]. repeat (constructor; [assumption|]). apply IH.
  - constructor; [exact Hc|apply IH].
Qed.

Lemma lower_eqb c k : In k [10; 38; 41; 45; 46; 58] -> N.eqb (to_lower T c) k = N.eqb c k.
Proof.
  intro Hk. pose proof (tk_lower_mark T TK c k Hk) as [H1 H2].
  destruct (N.eqb_spec (to_lower T c) k) as [E|E]; destruct (N.eqb_spec c k) as [E'|E'];
    try reflexivity; exfalso; auto.
Qed.

Lemma prefix_https_hd c Y r : prefix_rest HTTPS (c :: Y) = Some r -> c = 104.
Proof.
  unfold HTTPS. cbn [prefix_rest]. destruct (N.eqb_spec 104 c) as [E|E]; [intros _; symmetry; exact E|discriminate].
Qed.

Lemma word_eqb_eq a : forall b, word_eqb a b = true -> a = b.
Proof.
  induction a as [|x a IH]; intros [|y b] H; try discriminate; [reflexivity|].
  cbn [word_eqb] in H. apply andb_true_iff in H. destruct H as [H1 H2].
  apply N.eqb_eq in H1. subst y. f_equal. apply IH, H2.
Qed.

Lemma word_eqb_refl a : word_eqb a a = true.
Proof. induction a as [|x a IH]; [reflexivity|]. cbn [word_eqb]. rewrite N.eqb_refl, IH. reflexivity. Qed.

Lemma no_amp_unesc_fix o : existsb (N.eqb 38) o = false -> unesc_fix o = true.
Proof. intro H. unfold unesc_fix. rewrite (tk_unescape T TK o H). apply word_eqb_refl. Qed.

Lemma lowfix_ci_same c : lowfix c -> ci_same c = true.
Proof.
  intro H. unfold ci_same. rewrite H, Bool.eqb_reflx, andb_true_r.
  apply forallb_forall. intros p _. apply Bool.eqb_reflx.
Qed.

(* the two runs flush related words *)
Lemma flush_rel X c :
  Forall lowfix X -> flush_ok (X ++ [c]) = true ->
  Wrel (flush_buf T false (X ++ [c])) (flush_buf T true (X ++ [to_lower T c])).
Proof.
  intros _ Hok.
  assert (Hok' : word_flush_ok (rev (X ++ [c])) = true) by (destruct X; exact Hok).
  clear Hok. rename Hok' into Hok. unfold word_flush_ok in Hok. rewrite rev_unit in Hok.
  apply andb_true_iff in Hok. destruct Hok as [Ha Hc]. apply andb_true_iff in Ha. destruct Ha as [Ha Hb].
  unfold unesc_first in Ha. unfold https_stable in Hb. apply word_eqb_eq in Ha, Hb. cbn [lowerfirst] in Ha.
  unfold flush_buf. rewrite !rev_unit. cbv zeta iota. split.
  - unfold lw in *. rewrite Ha. exact Hb.
  - unfold ci_tail in Hc. apply Forall_forall. rewrite forallb_forall in Hc. exact Hc.
Qed.

(* ---------- the condition used before the "fix:" implies the present one ---------- *)

(* one word, its first rune lower-cased or not, through normalizeToken *)
Lemma normalize_token_first c Y :
  Forall lowfix Y -> cap_https (c :: Y) = false ->
  exists c' Z, normalize_token (c :: Y) = c' :: Z /\ normalize_token (to_lower T c :: Y) = to_lower T c' :: Z /\
               Forall lowfix Z.
Proof.
  intros HY Hc. unfold normalize_token. rewrite !replace_cons0.
  destruct (tk_lower_http T TK) as (Hh & Ht & Hp).
  destruct (N.eqb_spec (to_lower T c) c) as [Efix|Ene].
  - rewrite Efix. destruct (prefix_rest HTTPS (c :: Y)) as [rest|] eqn:E.
    + exists 104, (116 :: 116 :: 112 :: replace_https_aux Y 4). rewrite Hh.
      repeat split. repeat (constructor; [assumption|]). apply lowfix_replace, HY.
    + exists c, (replace_https_aux Y 0). rewrite Efix. repeat split. apply lowfix_replace, HY.
  - assert (Eb : N.eqb (to_lower T c) c = false) by (apply N.eqb_neq; exact Ene).
    unfold cap_https in Hc. rewrite ?Eb in Hc. cbn [negb andb] in Hc.
    destruct (prefix_rest HTTPS (to_lower T c :: Y)) as [rest|] eqn:E;
      [try rewrite E in Hc; discriminate Hc|].
    destruct (prefix_rest HTTPS (c :: Y)) as [rest|] eqn:E'.
    + exfalso. apply prefix_https_hd in E'. subst c. apply Ene. exact Hh.
    + exists c, (replace_https_aux Y 0). repeat split. apply lowfix_replace, HY.
Qed.

(* a word whose non-initial runes are fixed by ToLower (as in every word buffer)
   and that is not a capitalised "Https.." passes (2) and (3) *)
Lemma cap_https_stable u :
  Forall lowfix (tl u) -> cap_https u = false ->
  https_stable u = true /\ ci_tail (normalize_token u) = true.
Proof.
  intros HY Hc. destruct u as [|c Y]; [split; reflexivity|]. cbn [tl] in HY.
  destruct (normalize_token_first c Y HY Hc) as (c' & Z & E1 & E2 & HZ).
  unfold https_stable, ci_tail, lw. cbn [map]. rewrite (map_lowfix Y HY), E1, E2. cbn [map tl].
  rewrite (map_lowfix Z HZ). split; [apply word_eqb_refl|].
  apply forallb_forall. rewrite Forall_forall in HZ. intros x Hx. apply lowfix_ci_same, HZ, Hx.
Qed.

(* [word_flush_ok] is implied by the condition this file used before flushBuf
   lower-cased what html.UnescapeString produced (unescaping had to leave the
   word alone) *)
Lemma word_flush_ok_old o :
  Forall lowfix (tl o) ->
  unesc_fix o = true -> unesc_fix (lowerfirst o) = true -> cap_https o = false ->
  word_flush_ok o = true.
Proof.
  intros HY H1 H2 Hc. apply word_eqb_eq in H1, H2.
  unfold word_flush_ok, unesc_first. rewrite H1, H2.
  destruct (cap_https_stable o HY Hc) as [-> ->]. rewrite !andb_true_r.
  destruct o as [|c Y]; [reflexivity|]. unfold lw. cbn [lowerfirst map].
  rewrite (tk_lower_idem T TK). apply word_eqb_refl.
Qed.

(* ... and so is the run predicate: [flushes_ok_v1] is [flushes_ok] as it was
   before the "fix:" (html.UnescapeString had to leave every flushed word
   alone).  Every raw-mode word buffer has all its runes but the first fixed
   by ToLower ([step_tail_low]). *)
Definition word_flush_ok_v1 (o : list rune) : bool :=
  unesc_fix o && unesc_fix (lowerfirst o) && negb (cap_https o).
Definition flush_ok_v1 (ob_rev : list rune) : bool :=
  match ob_rev with [] => true | _ => word_flush_ok_v1 (rev ob_rev) end.
Definition step_ok_v1 (s : tstate) (r : rune) : bool :=
  if N.eqb r 10 then hd_hyphen (obuf_rev s) || flush_ok_v1 (obuf_rev s)
  else if is_space T r then dEOL s || flush_ok_v1 (obuf_rev s) else true.
Fixpoint flushes_ok_v1 (s : tstate) (rs : list rune) : bool :=
  match rs with
  | [] => flush_ok_v1 (obuf_rev s)
  | r :: rs' => step_ok_v1 s r && flushes_ok_v1 (step T false s r) rs'
  end.

Definition ob_tail_low (ob_rev : list rune) : Prop := Forall lowfix (tl (rev ob_rev)).

Lemma flush_ok_old ob : ob_tail_low ob -> flush_ok_v1 ob = true -> flush_ok ob = true.
Proof.
  intros HI H. destruct ob as [|c ob']; [reflexivity|].
  unfold flush_ok_v1, word_flush_ok_v1 in H. unfold flush_ok.
  apply andb_true_iff in H. destruct H as [H H3]. apply andb_true_iff in H. destruct H as [H1 H2].
  apply negb_true_iff in H3. apply word_flush_ok_old; assumption.
Qed.

Lemma tail_low_app L ob : ob <> [] -> Forall lowfix L -> ob_tail_low ob -> ob_tail_low (L ++ ob).
Proof.
  unfold ob_tail_low. intros Hne HL HI. rewrite rev_app_distr. destruct (rev ob) as [|x l] eqn:E.
  - exfalso. apply Hne. apply (f_equal (@rev _)) in E. rewrite rev_involutive in E. exact E.
  - cbn [app tl] in *. apply Forall_app. split; [exact HI|apply Forall_rev, HL].
Qed.

Lemma tail_low_tl ob : ob_tail_low ob -> ob_tail_low (tl ob).
Proof.
  destruct ob as [|c ob']; [trivial|]. unfold ob_tail_low. cbn [tl rev].
  destruct (rev ob') as [|x l]; [constructor|]. cbn [app tl]. intro H. apply Forall_app in H. tauto.
Qed.

Lemma step_tail_low s r : ob_tail_low (obuf_rev s) -> ob_tail_low (obuf_rev (step T false s r)).
Proof.
  intro HI. destruct (N.eqb_spec r 10) as [->|Hr].
  - destruct (hd_hyphen (obuf_rev s)) eqn:Hh.
    + rewrite (step_nl_hyph T false s Hh). fields. apply tail_low_tl, HI.
    + destruct (step_nl_proj T false s Hh) as (P1 & _). rewrite P1. exact (Forall_nil _).
  - destruct (obuf_rev s) as [|a o] eqn:Eo.
    + rewrite (step_start T false s r Hr Eo).
      destruct (starts_word T r); fields; [|rewrite Eo]; exact (Forall_nil _).
    + assert (N1 : obuf_rev s <> []) by (rewrite Eo; discriminate). rewrite <- Eo in HI.
      destruct (is_space T r) eqn:Hsp.
      * destruct (dEOL s) eqn:He; [rewrite (step_space_deol T false s r Hr N1 Hsp He); exact HI|].
        destruct (dWord s) eqn:Hw.
        -- destruct (step_space_dword T false s r Hr N1 Hsp He Hw) as (P1 & _). rewrite P1. exact (Forall_nil _).
        -- destruct (step_space_proj T false s r Hr N1 Hsp He Hw) as (P1 & _). rewrite P1. exact (Forall_nil _).
      * rewrite (step_char_gen T false s r Hr N1 Hsp). fields.
        apply tail_low_app; [exact N1| |exact HI].
        destruct (punct_map T r) as [rep|].
        -- apply Forall_rev. apply Forall_map. apply Forall_forall. intros x _. apply lowfix_lower.
        -- constructor; [apply lowfix_lower|constructor].
Qed.

Theorem flushes_ok_old rs : forall s,
  ob_tail_low (obuf_rev s) -> flushes_ok_v1 s rs = true -> flushes_ok s rs = true.
Proof.
  induction rs as [|r rs IH]; intros s HI H; cbn [flushes_ok flushes_ok_v1] in *.
  - apply flush_ok_old; assumption.
  - apply andb_true_iff in H. destruct H as [H1 H2]. apply andb_true_iff. split.
    + unfold step_ok_v1 in H1. unfold step_ok. destruct (r =? 10).
      * apply orb_true_iff in H1. apply orb_true_iff. destruct H1 as [H1|H1]; [left; exact H1|right].
        apply flush_ok_old; assumption.
      * destruct (is_space T r); [|reflexivity].
        apply orb_true_iff in H1. apply orb_true_iff. destruct H1 as [H1|H1]; [left; exact H1|right].
        apply flush_ok_old; assumption.
    + apply IH; [apply step_tail_low, HI|exact H2].
Qed.

Lemma lower_letter_map w : filter (is_letter T) (lw T w) = lw T (filter (is_letter T) w).
Proof.
  unfold lw. induction w as [|c w IH]; [reflexivity|]. cbn [map filter].
  rewrite (tk_lower_letter T TK). destruct (is_letter T c); cbn [map]; rewrite IH; reflexivity.
Qed.

Lemma nchar_lower c : nchar T (to_lower T c) = nchar T c.
Proof.
  unfold nchar. change DOT with 46. change HYPHEN with 45.
  rewrite (tk_lower_digit T TK), (lower_eqb c 46), (lower_eqb c 45) by (cbn; tauto). reflexivity.
Qed.

Lemma lower_nchar_map w : filter (nchar T) (lw T w) = filter (nchar T) w.
Proof.
  unfold lw. induction w as [|c w IH]; [reflexivity|]. cbn [map filter].
  rewrite nchar_lower. destruct (nchar T c) eqn:E; [|exact IH].
  rewrite (nchar_fix c E), IH. reflexivity.
Qed.

Lemma forallb_lw (f : rune -> bool) w :
  (forall c, f (to_lower T c) = f c) -> forallb f (lw T w) = forallb f w.
Proof.
  intro Hf. unfold lw. induction w as [|c w IH]; [reflexivity|]. cbn [map forallb]. rewrite Hf, IH. reflexivity.
Qed.

Lemma header_lw w : header T (lw T w) = header T w.
Proof.
  unfold header, lw. rewrite <- map_rev. destruct (rev w) as [|e p]; [reflexivity|]. cbn [map].
  change DOT with 46.
  rewrite (lower_eqb e 46), (lower_eqb e 58), (lower_eqb e 41) by (cbn; tauto).
  destruct ((e =? 46) || (e =? 58) || (e =? 41)); [|reflexivity].
  rewrite <- map_rev. change (map (to_lower T) (map (to_lower T) (rev p))) with (lw T (lw T (rev p))).
  rewrite lw_idem. change (map (to_lower T) p) with (lw T p).
  rewrite (forallb_lw (fun r => is_digit T r || (r =? 46)) p).
  - reflexivity.
  - intro c. rewrite (tk_lower_digit T TK), (lower_eqb c 46) by (cbn; tauto). reflexivity.
Qed.

Lemma header_rel wr wn : Wrel wr wn -> header T wn = header T wr.
Proof. intros [-> _]. apply header_lw. Qed.

Lemma strip_snoc l c :
  strip_trailing_dots_rev (l ++ [c]) = [] \/ exists X, strip_trailing_dots_rev (l ++ [c]) = X ++ [c].
Proof.
  induction l as [|x l IH]; cbn [app strip_trailing_dots_rev].
  - destruct (c =? DOT); [left; reflexivity|right; exists []; reflexivity].
  - destruct (x =? DOT); [exact IH|]. right. exists (x :: l). reflexivity.
Qed.

Lemma letter_not_nl c : is_letter T c = true -> c <> 10.
Proof. intro H. apply (tk_letter_ok T TK), wchar_ok_inv in H. tauto. Qed.
Lemma digit_not_nl c : is_digit T c = true -> c <> 10.
Proof. intro H. apply (tk_digit_ok T TK), wchar_ok_inv in H. tauto. Qed.

Lemma is_eol_cons_false c l : c <> 10 -> is_eol (c :: l) = false.
Proof. intro H. cbn [is_eol]. destruct l; [apply N.eqb_neq, H|reflexivity]. Qed.

Lemma first_is_number_lw w : first_is_number T (lw T w) = first_is_number T w.
Proof.
  destruct w as [|c Z]; [reflexivity|]. unfold lw. cbn [map first_is_number].
  rewrite (tk_lower_letter T TK), (tk_lower_digit T TK). reflexivity.
Qed.

(* the heart of Part B: one flushed word, cleaned in both modes *)
Lemma cleanup_rel first wr wn :
  Wrel wr wn ->
  (cleanup_token T first wr false = [] /\ cleanup_token T first wn true = []) \/
  (cleanup_token T first wr false <> [] /\ is_eol (cleanup_token T first wr false) = false /\
   cleanup_token T first wn true = norm_word T (cleanup_token T first wr false)).
Proof.
  intros [-> _]. unfold cleanup_token. rewrite header_lw.
  destruct (first && header T wr); [left; split; reflexivity|].
  change (filter (fun c => is_digit T c || (c =? DOT) || (c =? HYPHEN)) (lw T wr))
    with (filter (nchar T) (lw T wr)).
  change (filter (fun c => is_digit T c || (c =? DOT) || (c =? HYPHEN)) wr) with (filter (nchar T) wr).
  rewrite lower_nchar_map, lower_letter_map.
  change (match lw T wr with r :: _ => negb (is_letter T r) && is_digit T r | [] => false end)
    with (first_is_number T (lw T wr)).
  change (match wr with r :: _ => negb (is_letter T r) && is_digit T r | [] => false end)
    with (first_is_number T wr).
  rewrite first_is_number_lw.
  fold (ichg T (lw T (filter (is_letter T) wr))).
  destruct (first_is_number T wr) eqn:Hn.
  - destruct wr as [|c Z]; [discriminate|]. cbn [first_is_number] in Hn.
    apply andb_true_iff in Hn. destruct Hn as [Hnl Hd].
    assert (Hc : nchar T c = true) by (unfold nchar; rewrite Hd; reflexivity).
    cbn [filter]. rewrite Hc. cbn [rev].
    destruct (strip_snoc (rev (filter (nchar T) Z)) c) as [E|[X E]]; rewrite E.
    + left. split; reflexivity.
    + right. rewrite rev_unit. split; [discriminate|]. split.
      * apply is_eol_cons_false, digit_not_nl, Hd.
      * unfold norm_word. cbn [first_is_number]. rewrite Hnl, Hd. reflexivity.
  - assert (HL : Forall (fun x => is_letter T x = true) (filter (is_letter T) wr)).
    { apply Forall_forall. intros x Hx. apply filter_In in Hx. tauto. }
    destruct (filter (is_letter T) wr) as [|f F'].
    + left. split; [reflexivity|]. unfold ichg. cbn [lw map]. rewrite (tk_ichg_nil T TK). reflexivity.
    + right. inversion HL as [|? ? Hf _]; subst. split; [discriminate|].
      split; [apply is_eol_cons_false, letter_not_nl, Hf|].
      unfold norm_word. cbn [first_is_number]. rewrite Hf. reflexivity.
Qed.

Lemma clean_go_rel ws1 ws2 :
  Forall2 Wrel ws1 ws2 -> forall first,
  clean_go T true first ws2 = map (norm_word T) (clean_go T false first ws1) /\
  Forall (fun w => is_eol w = false) (clean_go T false first ws1).
Proof.
  induction 1 as [|w1 w2 r1 r2 Hw _ IH]; intros first; [split; [reflexivity|constructor]|].
  cbn [clean_go]. destruct (IH false) as [IH1 IH2].
  destruct (cleanup_rel first w1 w2 Hw) as [[E1 E2]|(N1 & N2 & E2)].
  - rewrite E1, E2. split; assumption.
  - rewrite E2. destruct (cleanup_token T first w1 false) as [|a l] eqn:E1; [congruence|].
    assert (Hne : norm_word T (a :: l) <> []).
    { unfold norm_word. destruct (first_is_number T (a :: l)); [discriminate|].
      apply ichg_nonempty. discriminate. }
    destruct (norm_word T (a :: l)) eqn:E3; [congruence|].
    cbn [map]. rewrite IH1, E3. split; [reflexivity|]. constructor; assumption.
Qed.

Lemma Forall2_rev {A B} (R : A -> B -> Prop) l1 l2 : Forall2 R l1 l2 -> Forall2 R (rev l1) (rev l2).
Proof.
  induction 1 as [|a b l1 l2 Hab _ IH]; [constructor|]. cbn [rev].
  apply Forall2_app; [exact IH|]. constructor; [exact Hab|constructor].
Qed.

Lemma filter_rev {A} (f : A -> bool) l : filter f (rev l) = rev (filter f l).
Proof.
  induction l as [|x l IH]; [reflexivity|]. cbn [rev filter]. rewrite filter_app, IH. cbn [filter].
  destruct (f x); [reflexivity|]. cbn [rev]. rewrite app_nil_r. reflexivity.
Qed.

(* ---------- the ignorable-notice decision is the same in both modes ---------- *)

(* the texts the expressions see in the two modes: equal rune for rune, except
   possibly (flag [b] for the first position) right after a blank or at the
   start, where the second text may have the lower-cased rune *)
(* two runes at the same position: equal, or the second is the lower-cased
   first and the position is word-initial ([b]) or the rune is [ci_same] *)
Definition Crel (b : bool) (c1 c2 : rune) : Prop :=
  c2 = c1 \/ ((b = true \/ ci_same c1 = true) /\ c2 = to_lower T c1).

Inductive Trel : bool -> list rune -> list rune -> Prop :=
| Trel_nil b : Trel b [] []
| Trel_cons b c1 c2 r1 r2 :
    Crel b c1 c2 -> Trel (N.eqb c1 32) r1 r2 -> Trel b (c1 :: r1) (c2 :: r2).

Lemma Trel_refl l : forall b, Trel b l l.
Proof. induction l as [|c l IH]; intro b; constructor; [left; reflexivity|apply IH]. Qed.

Lemma Trel_weaken b l1 l2 : Trel b l1 l2 -> Trel true l1 l2.
Proof.
  intros [|b' c1 c2 r1 r2 Hc Hr]; constructor; [|exact Hr].
  destruct Hc as [->|[_ ->]]; [left; reflexivity|right; split; [left; reflexivity|reflexivity]].
Qed.

(* a word all of whose runes are [ci_same], against its lower-casing *)
Lemma Trel_ci_same l : Forall (fun c => ci_same c = true) l -> forall b, Trel b l (lw T l).
Proof.
  induction 1 as [|c l Hc _ IH]; intro b; [constructor|]. unfold lw. cbn [map].
  constructor; [right; split; [right; exact Hc|reflexivity]|apply IH].
Qed.

Lemma Trel_adigit b c1 c2 : Crel b c1 c2 -> ascii_digit c2 = ascii_digit c1.
Proof. intros [->|[_ ->]]; [reflexivity|apply (tk_lower_adigit T TK)]. Qed.
Lemma Trel_eqb k b c1 c2 :
  In k [10; 38; 41; 45; 46; 58] -> Crel b c1 c2 -> N.eqb c2 k = N.eqb c1 k.
Proof. intros Hk [->|[_ ->]]; [reflexivity|apply lower_eqb, Hk]. Qed.
Lemma Crel_az c1 c2 : Crel false c1 c2 -> ci_az c2 = ci_az c1.
Proof.
  intros [->|[[Hb|Hs] ->]]; [reflexivity|discriminate|].
  unfold ci_same in Hs. apply andb_true_iff in Hs. apply Bool.eqb_prop, (proj2 Hs).
Qed.

Definition opt_rel (o1 o2 : option (list rune)) : Prop :=
  match o1, o2 with
  | Some r1, Some r2 => Trel true r1 r2
  | None, None => True
  | _, _ => False
  end.

(* every rune of the literal that stands first (if [a]) or after a blank is in
   [init_runes]; every rune of the literal is in [ci_lits] *)
Fixpoint pat_chk (a : bool) (pat : list rune) : bool :=
  match pat with
  | [] => true
  | p :: q => (if a then existsb (N.eqb p) init_runes else true) && existsb (N.eqb p) ci_lits &&
              pat_chk (N.eqb p 32) q
  end.

Lemma ci_eq_space p : ci_eq p 32 = true -> p = 32.
Proof.
  unfold ci_eq, ascii_lower. destruct ((97 <=? p) && (p <=? 122)) eqn:E.
  - apply andb_true_iff in E. destruct E as [E1 E2]. apply N.leb_le in E1, E2.
    rewrite !orb_true_iff, !andb_true_iff, !N.eqb_eq. intros [[[H|H]|[_ H]]|[_ H]]; lia.
  - intro H. apply N.eqb_eq in H. symmetry. exact H.
Qed.

Lemma ci_prefix_rel pat : forall a b l1 l2,
  pat_chk a pat = true -> (b = true -> a = true) -> Trel b l1 l2 ->
  opt_rel (ci_prefix_rest pat l1) (ci_prefix_rest pat l2).
Proof.
  induction pat as [|p pat IH]; intros a b l1 l2 Hp Hba HL.
  - cbn [ci_prefix_rest opt_rel]. exact (Trel_weaken _ _ _ HL).
  - destruct HL as [|b c1 c2 r1 r2 Hc Hr]; [exact I|]. cbn [ci_prefix_rest pat_chk] in *.
    apply andb_true_iff in Hp. destruct Hp as [Hp1 Hp2].
    apply andb_true_iff in Hp1. destruct Hp1 as [Hp1 Hp3].
    assert (E : ci_eq p c2 = ci_eq p c1).
    { destruct Hc as [->|[[Hb|Hs] ->]]; [reflexivity| |].
      - rewrite (Hba Hb) in Hp1.
        apply (tk_lower_ci T TK). apply existsb_exists in Hp1. destruct Hp1 as (q & Hq & Eq).
        apply N.eqb_eq in Eq. subst q. exact Hq.
      - unfold ci_same in Hs. apply andb_true_iff in Hs. destruct Hs as [Hs _].
        rewrite forallb_forall in Hs. apply Bool.eqb_prop, Hs.
        apply existsb_exists in Hp3. destruct Hp3 as (q & Hq & Eq).
        apply N.eqb_eq in Eq. subst q. exact Hq. }
    rewrite E. destruct (ci_eq p c1) eqn:Ec; [|exact I].
    apply (IH (N.eqb p 32) (N.eqb c1 32)); [exact Hp2| |exact Hr].
    intro H32. apply N.eqb_eq in H32. subst c1. apply ci_eq_space in Ec. subst p. reflexivity.
Qed.

Lemma digits_rel n : forall b l1 l2, Trel b l1 l2 -> opt_rel (digits_rest n l1) (digits_rest n l2).
Proof.
  induction n as [|n IH]; intros b l1 l2 HL; [exact (Trel_weaken _ _ _ HL)|].
  destruct HL as [|b c1 c2 r1 r2 Hc Hr]; [exact I|].
  change (digits_rest (S n) (c1 :: r1)) with (if ascii_digit c1 then digits_rest n r1 else None).
  change (digits_rest (S n) (c2 :: r2)) with (if ascii_digit c2 then digits_rest n r2 else None).
  rewrite (Trel_adigit b c1 c2 Hc). destruct (ascii_digit c1); [|exact I]. exact (IH _ _ _ Hr).
Qed.

Lemma no_nl_rel b l1 l2 : Trel b l1 l2 -> no_nl l1 = no_nl l2.
Proof.
  unfold no_nl. change NLr with 10. induction 1 as [|b c1 c2 r1 r2 Hc _ IH]; [reflexivity|]. cbn [forallb].
  rewrite (Trel_eqb 10 b c1 c2) by (cbn; tauto || exact Hc). rewrite IH. reflexivity.
Qed.

Lemma year_tail_rel b l1 l2 : Trel b l1 l2 -> year_tail l1 = year_tail l2.
Proof.
  intro HL. unfold year_tail.
  pose proof (ci_prefix_rel YYYY true b l1 l2 eq_refl (fun _ => eq_refl) HL) as H1.
  destruct (ci_prefix_rest YYYY l1), (ci_prefix_rest YYYY l2); cbn [opt_rel] in H1; try contradiction.
  - exact (no_nl_rel _ _ _ H1).
  - pose proof (digits_rel 4 b l1 l2 HL) as H2.
    destruct (digits_rest 4 l1), (digits_rest 4 l2); cbn [opt_rel] in H2; try contradiction.
    + exact (no_nl_rel _ _ _ H2).
    + reflexivity.
Qed.

Lemma re1_rel b l1 l2 : Trel b l1 l2 -> re1_body l1 = re1_body l2.
Proof.
  intro HL. unfold re1_body.
  pose proof (ci_prefix_rel COPYRIGHT_SP true b l1 l2 eq_refl (fun _ => eq_refl) HL) as H1.
  destruct (ci_prefix_rest COPYRIGHT_SP l1) as [r1|], (ci_prefix_rest COPYRIGHT_SP l2) as [r2|];
    cbn [opt_rel] in H1; try contradiction; [|reflexivity].
  rewrite (year_tail_rel true r1 r2 H1). f_equal.
  pose proof (ci_prefix_rel PAREN_C_SP true true r1 r2 eq_refl (fun _ => eq_refl) H1) as H2.
  destruct (ci_prefix_rest PAREN_C_SP r1), (ci_prefix_rest PAREN_C_SP r2);
    cbn [opt_rel] in H2; try contradiction; [|reflexivity].
  exact (year_tail_rel _ _ _ H2).
Qed.

Lemma re2_rel b l1 l2 : Trel b l1 l2 -> re2_body l1 = re2_body l2.
Proof.
  intro HL. unfold re2_body.
  pose proof (ci_prefix_rel DATES_FIRST_PUB true b l1 l2 eq_refl (fun _ => eq_refl) HL) as H1.
  destruct (ci_prefix_rest DATES_FIRST_PUB l1), (ci_prefix_rest DATES_FIRST_PUB l2);
    cbn [opt_rel] in H1; try contradiction; [|reflexivity].
  exact (no_nl_rel _ _ _ H1).
Qed.

Lemma with_prefix_rel body :
  (forall b l1 l2, Trel b l1 l2 -> body l1 = body l2) ->
  forall k b l1 l2, Trel b l1 l2 -> with_prefix body k l1 = with_prefix body k l2.
Proof.
  intros Hb. induction k as [|k IH]; intros b l1 l2 HL; cbn [with_prefix]; rewrite (Hb b l1 l2 HL);
    [reflexivity|].
  f_equal. destruct HL as [|b c1 c2 r1 r2 Hc Hr]; [reflexivity|].
  change NLr with 10. rewrite (Trel_eqb 10 b c1 c2) by (cbn; tauto || exact Hc).
  rewrite (IH _ r1 r2 Hr). reflexivity.
Qed.

(* the date expression, staged *)
Definition re3_mid (r : list rune) : option (list rune) :=
  match digits_rest 2 r with
  | Some r' => Some r'
  | None => match r with
            | a :: b :: c :: r' => if ci_az a && ci_az b && ci_az c then Some r' else None
            | _ => None
            end
  end.
Definition re3_end (o : option (list rune)) : bool :=
  match o with
  | Some (h2 :: r2) => if N.eqb h2 HYPHEN
                       then match digits_rest 2 r2 with Some [] => true | _ => false end
                       else false
  | _ => false
  end.
Lemma re3_staged l :
  re3 l = match digits_rest 4 l with
          | Some (h :: r) => if N.eqb h HYPHEN then re3_end (re3_mid r) else false
          | _ => false
          end.
Proof. reflexivity. Qed.

(* after the '-' the month letters are not word-initial: they are equal *)
Lemma re3_mid_rel r1 r2 : Trel false r1 r2 -> opt_rel (re3_mid r1) (re3_mid r2).
Proof.
  intro HL. unfold re3_mid. pose proof (digits_rel 2 false r1 r2 HL) as H1.
  destruct (digits_rest 2 r1), (digits_rest 2 r2); cbn [opt_rel] in H1; try contradiction; [exact H1|].
  inversion HL as [|b0 a1 a2 t1 t2 Ha HL1]; subst; [exact I|].
  rewrite (Crel_az a1 a2 Ha).
  inversion HL1 as [|b1 b1' b2' u1 u2 Hb HL2]; subst; [exact I|].
  inversion HL2 as [|b2 c1' c2' v1 v2 Hc HL3]; subst; [exact I|].
  destruct (N.eqb_spec a1 32) as [->|_]; [exact I|].
  rewrite (Crel_az b1' b2' Hb).
  destruct (N.eqb_spec b1' 32) as [->|_]; [rewrite !andb_false_r; exact I|].
  rewrite (Crel_az c1' c2' Hc).
  destruct (ci_az a1 && ci_az b1' && ci_az c1'); [exact (Trel_weaken _ _ _ HL3)|exact I].
Qed.

Lemma re3_end_rel o1 o2 : opt_rel o1 o2 -> re3_end o1 = re3_end o2.
Proof.
  unfold re3_end. destruct o1 as [r1|], o2 as [r2|]; cbn [opt_rel]; try contradiction; [|reflexivity].
  intros HL. inversion HL as [|b h1 h2 t1 t2 Hh HL1]; subst; [reflexivity|].
  change HYPHEN with 45. rewrite (Trel_eqb 45 true h1 h2) by (cbn; tauto || exact Hh).
  destruct (h1 =? 45); [|reflexivity].
  pose proof (digits_rel 2 _ _ _ HL1) as H1.
  destruct (digits_rest 2 t1) as [x|], (digits_rest 2 t2) as [y|]; cbn [opt_rel] in H1; try contradiction;
    [|reflexivity].
  destruct H1; reflexivity.
Qed.

Lemma re3_rel b l1 l2 : Trel b l1 l2 -> re3 l1 = re3 l2.
Proof.
  intro HL. rewrite !re3_staged. pose proof (digits_rel 4 b l1 l2 HL) as H1.
  destruct (digits_rest 4 l1) as [r1|], (digits_rest 4 l2) as [r2|]; cbn [opt_rel] in H1;
    try contradiction; [|reflexivity].
  inversion H1 as [|b0 h1 h2 t1 t2 Hh HR]; subst; [reflexivity|].
  change HYPHEN with 45. rewrite (Trel_eqb 45 true h1 h2) by (cbn; tauto || exact Hh).
  destruct (N.eqb_spec h1 45) as [->|_]; [|reflexivity].
  apply re3_end_rel, re3_mid_rel. exact HR.
Qed.

Lemma ignorable_rel b l1 l2 : Trel b l1 l2 -> ignorable l1 = ignorable l2.
Proof.
  intro HL. unfold ignorable.
  rewrite (with_prefix_rel re1_body re1_rel 5 b l1 l2 HL), (with_prefix_rel re2_body re2_rel 5 b l1 l2 HL),
    (re3_rel b l1 l2 HL). reflexivity.
Qed.

Lemma Wrel_Trel w1 w2 : Wrel w1 w2 -> Trel true w1 w2.
Proof.
  intros [-> HZ]. destruct w1 as [|c Z]; [constructor|]. unfold lw. cbn [map tl] in *.
  constructor; [right; split; [left; reflexivity|reflexivity]|apply Trel_ci_same, HZ].
Qed.

Lemma Trel_app_space b a1 a2 x y :
  Trel b a1 a2 -> Trel true x y -> Trel b (a1 ++ 32 :: x) (a2 ++ 32 :: y).
Proof.
  intros Ha Hx. induction Ha as [b|b c1 c2 r1 r2 Hc Hr IH]; cbn [app].
  - constructor; [left; reflexivity|exact Hx].
  - constructor; [exact Hc|exact IH].
Qed.

Lemma stringify_rel ws1 ws2 : Forall2 Wrel ws1 ws2 -> Trel true (stringify ws1) (stringify ws2).
Proof.
  induction 1 as [|w1 w2 r1 r2 Hw Hr IH]; [constructor|].
  pose proof (Wrel_Trel _ _ Hw) as Hc.
  destruct Hr as [|w1' w2' r1' r2' Hw' Hr'].
  - exact Hc.
  - change (stringify (w1 :: w1' :: r1')) with
        (match w1 with [] => stringify (w1' :: r1') | _ => w1 ++ [32] ++ stringify (w1' :: r1') end).
    change (stringify (w2 :: w2' :: r2')) with
        (match w2 with [] => stringify (w2' :: r2') | _ => w2 ++ [32] ++ stringify (w2' :: r2') end).
    destruct Hw as [-> HZ]. destruct w1 as [|c Z]; [exact IH|]. unfold lw in *. cbn [map app] in *.
    change (c :: Z ++ 32 :: stringify (w1' :: r1')) with ((c :: Z) ++ 32 :: stringify (w1' :: r1')).
    change (to_lower T c :: map (to_lower T) Z ++ 32 :: stringify (w2' :: r2'))
      with ((to_lower T c :: map (to_lower T) Z) ++ 32 :: stringify (w2' :: r2')).
    apply Trel_app_space; [exact Hc|exact IH].
Qed.

(* one line handed to appendToDoc in both modes *)
Lemma line_rel L lb1 lb2 :
  Forall2 Wrel lb1 lb2 ->
  line_toks T true L lb2 = map (normtok T) (filter non_eol (line_toks T false L lb1)) /\
  line_ms T true L lb2 = line_ms T false L lb1.
Proof.
  intros HR. unfold line_toks, line_ms in *.
  destruct HR as [|w1 w2 r1 r2 Hw Hr]; [split; reflexivity|].
  pose proof (Forall2_rev _ _ _ (Forall2_cons _ _ Hw Hr)) as HR'.
  unfold stringify_line_buf in *.
  rewrite <- (ignorable_rel _ _ _ (stringify_rel _ _ HR')).
  destruct (ignorable (stringify (rev (w1 :: r1)))); [split; reflexivity|].
  split; [|reflexivity].
  rewrite !clean_line_go. destruct (clean_go_rel _ _ HR' true) as [E HE]. rewrite E.
  rewrite filter_all.
  - rewrite (map_rev (normtok T)), !map_map. reflexivity.
  - apply Forall_rev. apply Forall_map. eapply Forall_impl; [|exact HE].
    cbv beta. intros a Ha. unfold non_eol. cbn [fst]. rewrite Ha. reflexivity.
Qed.

Record Sim (s1 s2 : tstate) : Prop := {
  sim_e : dEOL s1 = dEOL s2;
  sim_w : dWord s1 = dWord s2;
  sim_line : line s1 = line s2;
  sim_ob : Orel (obuf_rev s1) (obuf_rev s2);
  sim_lb : Forall2 Wrel (linebuf_rev s1) (linebuf_rev s2);
  sim_toks : toks_rev s2 = map (normtok T) (filter non_eol (toks_rev s1));
  sim_ms : matches_rev s2 = matches_rev s1 }.

Lemma Sim_init : Sim init_state init_state.
Proof. constructor; try reflexivity; constructor. Qed.

Lemma orel_hyphen o1 o2 : Orel o1 o2 -> hd_hyphen o2 = hd_hyphen o1.
Proof.
  intros [|X c HX]; [reflexivity|]. destruct X as [|x X']; cbn [app hd_hyphen]; [|reflexivity].
  apply lower_eqb. cbn. tauto.
Qed.

Lemma orel_tl o1 o2 : Orel o1 o2 -> Orel (tl o1) (tl o2).
Proof.
  intros [|X c HX]; [constructor|]. destruct X as [|x X']; cbn [app tl]; [constructor|].
  inversion HX; subst. constructor. assumption.
Qed.

Lemma curlb_rel s1 s2 :
  Orel (obuf_rev s1) (obuf_rev s2) -> flush_ok (obuf_rev s1) = true ->
  Forall2 Wrel (linebuf_rev s1) (linebuf_rev s2) ->
  Forall2 Wrel (cur_lb T false s1) (cur_lb T true s2).
Proof.
  intros HO Hok HL. unfold cur_lb. inversion HO as [E1 E2|X c HX E1 E2].
  - exact HL.
  - rewrite <- E1 in Hok.
    destruct (X ++ [c]) as [|a l] eqn:Ea; [destruct X; discriminate|].
    destruct (X ++ [to_lower T c]) as [|a' l'] eqn:Ea'; [destruct X; discriminate|].
    constructor; [|exact HL]. rewrite <- Ea, <- Ea'. apply flush_rel; [exact HX|].
    rewrite Ea. exact Hok.
Qed.

Lemma sim_step s1 s2 r :
  Sim s1 s2 -> step_ok s1 r = true -> Sim (step T false s1 r) (step T true s2 r).
Proof.
  intros [E W HLn HO HL HT HM] Hok. unfold step_ok in Hok.
  destruct (N.eqb_spec r 10) as [->|Hr].
  - destruct (hd_hyphen (obuf_rev s1)) eqn:Hh.
    + (* hyphen before the line break: deferral, in both runs *)
      pose proof (orel_hyphen _ _ HO) as Hh2. rewrite Hh in Hh2.
      rewrite (step_nl_hyph T false s1 Hh), (step_nl_hyph T true s2 Hh2).
      constructor; fields; try assumption; try reflexivity. apply orel_tl, HO.
    + cbn [orb] in Hok.
      pose proof (orel_hyphen _ _ HO) as Hh2. rewrite Hh in Hh2.
      destruct (step_nl_proj T false s1 Hh) as (P1 & P2 & P3 & P4 & P5 & P6 & P7).
      destruct (step_nl_proj T true s2 Hh2) as (Q1 & Q2 & Q3 & Q4 & Q5 & Q6 & Q7).
      destruct (line_rel (line s1) _ _ (curlb_rel s1 s2 HO Hok HL)) as [LR1 LR2].
      constructor; try congruence.
      * rewrite P1, Q1. constructor.
      * rewrite P2, Q2. constructor.
      * rewrite P6, Q6. cbn [app filter]. unfold non_eol at 1. cbn [fst is_eol N.eqb Pos.eqb negb].
        rewrite filter_app, map_app, <- HT, <- HLn, LR1. reflexivity.
  - destruct (obuf_rev s1) as [|a1 o1] eqn:Eo1.
    + inversion HO as [E0 Eo2|X c HX E0 Eo2]; [|destruct X; discriminate].
      symmetry in Eo2.
      rewrite (step_start T false s1 r Hr Eo1), (step_start T true s2 r Hr Eo2).
      destruct (starts_word T r).
      * constructor; fields; try assumption. apply (Orel_cons [] r). constructor.
      * constructor; try assumption. rewrite Eo1, Eo2. constructor.
    + assert (N1 : obuf_rev s1 <> []) by (rewrite Eo1; discriminate).
      assert (N2 : obuf_rev s2 <> []).
      { inversion HO as [E0 Eo2|X c HX E0 Eo2]; destruct X; discriminate. }
      rewrite <- Eo1 in HO, Hok.
      destruct (is_space T r) eqn:Hsp.
      * destruct (dEOL s1) eqn:He1.
        -- (* spaces after a deferred line break are skipped *)
           rewrite (step_space_deol T false s1 r Hr N1 Hsp He1).
           rewrite (step_space_deol T true s2 r Hr N2 Hsp (eq_sym E)).
           constructor; try assumption. congruence.
        -- cbn [orb] in Hok. symmetry in E.
           destruct (dWord s1) eqn:Hw1; symmetry in W.
           ++ (* the joined word is flushed: its line ends here *)
              destruct (step_space_dword T false s1 r Hr N1 Hsp He1 Hw1) as (P1 & P2 & P3 & P4 & P5 & P6 & P7).
              destruct (step_space_dword T true s2 r Hr N2 Hsp E W) as (Q1 & Q2 & Q3 & Q4 & Q5 & Q6 & Q7).
              destruct (line_rel (line s1) _ _ (curlb_rel s1 s2 HO Hok HL)) as [LR1 LR2].
              constructor; try congruence.
              ** rewrite P1, Q1. constructor.
              ** rewrite P2, Q2. constructor.
              ** rewrite P6, Q6, filter_app, map_app, <- HT, <- HLn, LR1. reflexivity.
           ++ destruct (step_space_proj T false s1 r Hr N1 Hsp He1 Hw1) as (P1 & P2 & P3 & P4 & P5 & P6 & P7).
              destruct (step_space_proj T true s2 r Hr N2 Hsp E W) as (Q1 & Q2 & Q3 & Q4 & Q5 & Q6 & Q7).
              constructor; try congruence.
              ** rewrite P1, Q1. constructor.
              ** rewrite P2, Q2. constructor; [|exact HL].
                 inversion HO as [E0 Eo2|X c HX E0 Eo2]; [congruence|].
                 apply flush_rel; [exact HX|]. rewrite E0. exact Hok.
      * rewrite (step_char_gen T false s1 r Hr N1 Hsp), (step_char_gen T true s2 r Hr N2 Hsp).
        rewrite <- E.
        assert (HO' : Orel ((match punct_map T r with
                             | Some rep => rev (map (to_lower T) rep)
                             | None => [to_lower T r] end) ++ obuf_rev s1)
                           ((match punct_map T r with
                             | Some rep => rev (map (to_lower T) rep)
                             | None => [to_lower T r] end) ++ obuf_rev s2)).
        { inversion HO as [E0 Eo2|X c HX E0 Eo2]; [congruence|].
          rewrite !app_assoc. apply Orel_cons. apply Forall_app. split; [|exact HX].
          destruct (punct_map T r) as [rep|].
          - apply Forall_rev. apply Forall_map. apply Forall_forall. intros x _. apply lowfix_lower.
          - constructor; [apply lowfix_lower|constructor]. }
        destruct (dEOL s1) eqn:He1; constructor; fields; try assumption; try reflexivity; congruence.
Qed.

Lemma sim_finish s1 s2 :
  Sim s1 s2 -> flush_ok (obuf_rev s1) = true ->
  toks_rev (finish T true s2) = map (normtok T) (filter non_eol (toks_rev (finish T false s1))) /\
  matches_rev (finish T true s2) = matches_rev (finish T false s1).
Proof.
  intros [E W HLn HO HL HT HM] Hok.
  destruct (finish_proj T false s1) as [P1 P2]. destruct (finish_proj T true s2) as [Q1 Q2].
  destruct (line_rel (line s1) _ _ (curlb_rel s1 s2 HO Hok HL)) as [LR1 LR2].
  rewrite P1, P2, Q1, Q2, filter_app, map_app, <- HT, <- HLn, LR1, LR2, HM. split; reflexivity.
Qed.

Lemma sim_fold rs : forall s1 s2,
  Sim s1 s2 -> flushes_ok s1 rs = true ->
  toks_rev (finish T true (fold_left (step T true) rs s2)) =
  map (normtok T) (filter non_eol (toks_rev (finish T false (fold_left (step T false) rs s1)))) /\
  matches_rev (finish T true (fold_left (step T true) rs s2)) =
  matches_rev (finish T false (fold_left (step T false) rs s1)).
Proof.
  induction rs as [|r rs IH]; intros s1 s2 HS Hok.
  - cbn [fold_left flushes_ok] in *. apply sim_finish; assumption.
  - cbn [fold_left flushes_ok] in *. apply andb_true_iff in Hok. destruct Hok as [Hok1 Hok2].
    apply IH; [|assumption]. apply sim_step; assumption.
Qed.

(* Part B *)
Theorem raw_vs_norm rs :
  flushes_ok init_state rs = true ->
  d_toks (tokenize_runes T true rs) =
  map (normtok T) (filter non_eol (d_toks (tokenize_runes T false rs))) /\
  d_matches (tokenize_runes T true rs) = d_matches (tokenize_runes T false rs).
Proof.
  unfold tokenize_runes, doc_of. cbn [d_toks d_matches]. intros Hok.
  destruct (sim_fold rs _ _ Sim_init Hok) as [E1 E2].
  rewrite E1, E2, filter_rev, map_rev. split; reflexivity.
Qed.

(* ---------- the raw-mode token list is canonical, up to the residual
              conditions; for EVERY input ---------- *)

Lemma strip_hd l :
  match strip_trailing_dots_rev l with [] => True | e :: _ => N.eqb e 46 = false end.
Proof.
  induction l as [|c l IH]; [exact I|]. cbn [strip_trailing_dots_rev]. change DOT with 46.
  destruct (c =? 46) eqn:E; [exact IH|exact E].
Qed.

(* a cleaned raw-mode word is empty (dropped) or has the canonical shape *)
Lemma cleanup_raw_shape first w :
  cleanup_token T first w false = [] \/
  (shape_ok T (cleanup_token T first w false) = true /\ is_eol (cleanup_token T first w false) = false).
Proof.
  unfold cleanup_token. destruct (first && header T w); [left; reflexivity|].
  destruct w as [|c Z]; [left; reflexivity|].
  destruct (negb (is_letter T c) && is_digit T c) eqn:Hn.
  - set (f := fun c0 => is_digit T c0 || (c0 =? DOT) || (c0 =? HYPHEN)).
    assert (Hsub : forall x, In x (strip_trailing_dots_rev (rev (filter f (c :: Z)))) -> nchar T x = true).
    { intros x Hx. apply TokInv.strip_incl, in_rev, filter_In in Hx. exact (proj2 Hx). }
    pose proof (strip_hd (rev (filter f (c :: Z)))) as Hhd.
    apply andb_true_iff in Hn. destruct Hn as [Hnl Hd].
    assert (Hfc : f c = true) by (unfold f; rewrite Hd; reflexivity).
    cbn [filter] in *. rewrite Hfc in *. cbn [rev] in *.
    destruct (strip_snoc (rev (filter f Z)) c) as [E|[X E]]; rewrite E in *.
    + left. reflexivity.
    + right. rewrite rev_unit. split; [|apply is_eol_cons_false, digit_not_nl, Hd].
      unfold shape_ok. apply orb_true_iff. right. unfold number_word.
      cbn [first_is_number]. rewrite Hnl, Hd. cbn [andb].
      apply andb_true_iff. split.
      * apply forallb_forall. intros x Hx. apply Hsub. apply in_rev. rewrite rev_unit. exact Hx.
      * unfold ends_dot. change (c :: rev X) with ([c] ++ rev X).
        rewrite rev_app_distr, rev_involutive. cbn [rev app].
        destruct (X ++ [c]) as [|e l]; [reflexivity|]. rewrite Hhd. reflexivity.
  - destruct (filter (is_letter T) (c :: Z)) as [|a F] eqn:EF; [left; reflexivity|].
    right. assert (HL : Forall (fun x => is_letter T x = true) (a :: F)).
    { rewrite <- EF. apply Forall_forall. intros x Hx. apply filter_In in Hx. tauto. }
    split.
    + unfold shape_ok. apply orb_true_iff. left. apply forallb_forall. apply Forall_forall. exact HL.
    + inversion HL; subst. apply is_eol_cons_false, letter_not_nl. assumption.
Qed.

Definition tok_good (t : word * N) : Prop := non_eol t = true -> shape_ok T (fst t) = true.

(* every raw-mode word token has the canonical shape *)
Theorem raw_tok_good rs : Forall tok_good (d_toks (tokenize_runes T false rs)).
Proof.
  eapply Forall_impl; [|apply (TokInv.doc_words_emitted T false rs)]. cbv beta.
  intros [w l] [Hne [(first & w0 & E)|[_ E]]]; cbn [fst] in *; unfold tok_good, non_eol; cbn [fst].
  - intros _. destruct (cleanup_raw_shape first w0) as [E0|[H1 _]]; [congruence|]. rewrite E. exact H1.
  - rewrite E. cbn. discriminate.
Qed.

Lemma mono_snoc a : forall p x,
  mono p a -> p <= snd x -> Forall (fun t : word * N => snd t <= snd x) a -> mono p (a ++ [x]).
Proof.
  induction a as [|[w l] a IH]; intros p [wx lx] Hm Hp Ha; cbn [app mono snd] in *.
  - split; [exact Hp|exact I].
  - destruct Hm as [H1 H2]. inversion Ha as [|? ? Hl Ha']; subst. cbn [snd] in Hl.
    split; [exact H1|]. apply IH; assumption.
Qed.

Lemma mono_rev l : forall p,
  Sorted.StronglySorted (fun a b => b <= a) (map snd l) -> Forall (fun x => p <= x) (map snd l) ->
  mono p (rev l).
Proof.
  induction l as [|x l IH]; intros p HS HF; [exact I|].
  cbn [map rev] in *. apply Sorted.StronglySorted_inv in HS. destruct HS as [HS Hx].
  inversion HF as [|? ? Hp HF']; subst.
  apply mono_snoc; [apply IH; assumption|exact Hp|].
  apply Forall_rev. rewrite Forall_forall in Hx. apply Forall_forall. intros t Ht.
  apply Hx. apply in_map. exact Ht.
Qed.

(* the lines of the tokens start at 1 or later and never decrease (from TokInv) *)
Theorem raw_mono n rs : mono 1 (d_toks (tokenize_runes T n rs)).
Proof.
  rewrite TokInv.tokenize_fin. cbn [d_toks doc_of].
  destruct (TokInv.inv_toks _ _ (TokInv.fin_inv T n rs)) as [HB HS].
  apply mono_rev; [exact HS|]. eapply Forall_impl; [|exact HB]. cbv beta. intros a Ha. lia.
Qed.

End WithT.

Lemma canon_split T toks : forall prev line_rev,
  mono prev toks -> Forall (tok_good T) toks ->
  canon_go T prev line_rev toks = canon_resid T prev line_rev toks.
Proof.
  induction toks as [|[w l] r IH]; intros prev line_rev HM HG; [reflexivity|].
  cbn [mono canon_go canon_resid] in *. destruct HM as [Hpl HM]. inversion HG as [|? ? Hg HG']; subst.
  unfold tok_good, non_eol in Hg. cbn [fst] in Hg. unfold word_ok.
  destruct (N.eqb_spec l prev) as [->|Hne].
  - destruct (is_eol w) eqn:Ew.
    + apply IH; assumption.
    + rewrite (Hg eq_refl), (IH _ (w :: line_rev) HM HG'). reflexivity.
  - assert (Hlt : N.ltb prev l = true) by (apply N.ltb_lt; lia). rewrite Hlt. cbn [andb].
    destruct (is_eol w) eqn:Ew.
    + rewrite (IH _ [] HM HG'). reflexivity.
    + rewrite (Hg eq_refl), (IH _ [w] HM HG'). reflexivity.
Qed.

(* ================================================================== *)
(* 5. The restricted C11                                               *)
(* ================================================================== *)

Section Final.
Variable T : tables.
Hypothesis TK : tables_ok T.

(* hypotheses: the run predicate and the whole of [canon] *)
Theorem C11_restricted_canon rs :
  flushes_ok T init_state rs = true ->
  canon T (d_toks (tokenize_runes T false rs)) = true ->
  d_toks (tokenize_runes T true (normalize_out (d_toks (tokenize_runes T false rs)))) =
  d_toks (tokenize_runes T true rs).
Proof.
  intros Hok Hc. destruct (retokenize_normalized T TK _ Hc) as [A1 _].
  destruct (raw_vs_norm T TK rs Hok) as [B1 _]. rewrite A1, B1. reflexivity.
Qed.

(* hypotheses: the run predicate and the residual conditions only *)
Theorem C11_restricted rs :
  flushes_ok T init_state rs = true ->
  canon_resid T 1 [] (d_toks (tokenize_runes T false rs)) = true ->
  d_toks (tokenize_runes T true (normalize_out (d_toks (tokenize_runes T false rs)))) =
  d_toks (tokenize_runes T true rs) /\
  d_matches (tokenize_runes T true (normalize_out (d_toks (tokenize_runes T false rs)))) = [].
Proof.
  intros Hok Hc.
  assert (Hcanon : canon T (d_toks (tokenize_runes T false rs)) = true).
  { unfold canon. rewrite (canon_split T _ 1 [] (raw_mono T false rs) (raw_tok_good T TK rs)). exact Hc. }
  split; [apply C11_restricted_canon; assumption|].
  apply (retokenize_normalized T TK _ Hcanon).
Qed.

End Final.

(* ================================================================== *)
(* 6. The statements in the requested form, non-vacuity, exceptions    *)
(* ================================================================== *)

Corollary retokenize_normalized_spelled T toks :
  tables_ok T -> canon T toks = true ->
  d_toks (tokenize_runes T true (normalize_out toks)) =
  map (fun '(w, l) => (norm_word T w, l)) (filter (fun t => negb (is_eol (fst t))) toks) /\
  d_matches (tokenize_runes T true (normalize_out toks)) = [].
Proof.
  intros TK Hc. destruct (retokenize_normalized T TK toks Hc) as [H1 H2]. split; [|exact H2].
  rewrite H1. apply map_ext. intros [w l]. reflexivity.
Qed.

(* words without '&' (html.UnescapeString is not even called on them) that
   are not a capitalised "Https.." may be flushed; [Forall lowfix (tl o)] holds
   for every word buffer (all runes but the first are lower-cased on entry) *)
Lemma word_flush_ok_no_amp T o :
  tables_ok T -> Forall (lowfix T) (tl o) ->
  existsb (N.eqb 38) o = false -> cap_https T o = false -> word_flush_ok T o = true.
Proof.
  intros TK HY Ha Hc. apply (word_flush_ok_old T TK o HY); [| |exact Hc].
  - apply (no_amp_unesc_fix T TK o Ha).
  - apply (no_amp_unesc_fix T TK). destruct o as [|c Y]; [reflexivity|].
    cbn [lowerfirst existsb] in *. apply orb_false_iff in Ha. destruct Ha as [Ha1 Ha2].
    rewrite Ha2, orb_false_r. rewrite N.eqb_sym, (lower_eqb T TK c 38) by (cbn; tauto).
    rewrite N.eqb_sym. exact Ha1.
Qed.

Import String.
Definition NLs : string := String (Ascii.ascii_of_nat 10) EmptyString.

Definition c11_lhs (T : tables) (rs : list rune) : list (word * N) :=
  d_toks (tokenize_runes T true (normalize_out (d_toks (tokenize_runes T false rs)))).
Definition c11_rhs (T : tables) (rs : list rune) : list (word * N) := d_toks (tokenize_runes T true rs).
Definition c11_hyps (T : tables) (rs : list rune) : bool * bool :=
  (flushes_ok T init_state rs, canon_resid T 1 [] (d_toks (tokenize_runes T false rs))).

(* non-vacuity: three lines, a Copyright notice line (a pseudo match), upper
   case, an interchangeable spelling, a number, a hyphenated line break *)
Definition ex_ok : list rune :=
  runes_of ("Copyright (c) 2020 Foo Inc." ++ NLs ++ "Permission is HEREBY granted, non-" ++ NLs
            ++ "exclusive Licence free of charge 2.0" ++ NLs).

Example ex_ok_hyps : c11_hyps TokWF.T1 ex_ok = (true, true).
Proof. vm_compute. reflexivity. Qed.

Example ex_ok_concl :
  c11_lhs TokWF.T1 ex_ok = c11_rhs TokWF.T1 ex_ok /\
  d_matches (tokenize_runes TokWF.T1 true ex_ok) = [1] /\
  map snd (c11_rhs TokWF.T1 ex_ok) = [2; 2; 2; 2; 2; 3; 3; 3; 3; 3] /\
  In (runes_of "license", 3) (c11_rhs TokWF.T1 ex_ok) /\
  In (runes_of "nonexclusive", 2) (c11_rhs TokWF.T1 ex_ok).
Proof.
  split.
  - destruct ex_ok_hyps. apply (C11_restricted TokWF.T1 tables_ok_T1 ex_ok).
    + vm_compute. reflexivity.
    + vm_compute. reflexivity.
  - vm_compute. repeat split; auto 20.
Qed.

(* the same on T0 (two lines) *)
Definition ex_ok0 : list rune :=
  runes_of ("Permission is HEREBY granted," ++ NLs ++ "free of charge 2.0" ++ NLs).
Example ex_ok0_hyps : c11_hyps TokInv.T0 ex_ok0 = (true, true).
Proof. vm_compute. reflexivity. Qed.
Example ex_ok0_concl : c11_lhs TokInv.T0 ex_ok0 = c11_rhs TokInv.T0 ex_ok0.
Proof.
  apply (C11_restricted TokInv.T0 tables_ok_T0 ex_ok0); vm_compute; reflexivity.
Qed.

(* each residual condition is needed: the known exception classes violate
   exactly that hypothesis and the conclusion fails *)
Definition differs (T : tables) (rs : list rune) : Prop := c11_lhs T rs <> c11_rhs T rs.

(* (a) a line that only becomes an ignorable notice after cleaning *)
Example exc_a :
  let rs := runes_of ("Copyright: 2020, foo" ++ NLs) in
  c11_hyps TokWF.T1 rs = (true, false) /\ differs TokWF.T1 rs.
Proof. vm_compute. split; [reflexivity|discriminate]. Qed.

(* (c) a cleaned word containing "https" *)
Example exc_c :
  let rs := runes_of "see httpss now" in
  c11_hyps TokWF.T1 rs = (true, false) /\ differs TokWF.T1 rs.
Proof. vm_compute. split; [reflexivity|discriminate]. Qed.

(* (d) a number token ending in '-' at the end of a line *)
Example exc_d :
  let rs := runes_of ("version 1-," ++ NLs ++ "foo") in
  c11_hyps TokWF.T1 rs = (true, false) /\ differs TokWF.T1 rs.
Proof. vm_compute. split; [reflexivity|discriminate]. Qed.
(* ... but not at the end of the text, where no line break is written *)
Example exc_d_end :
  let rs := runes_of "version 1-," in
  c11_hyps TokWF.T1 rs = (true, true) /\ c11_lhs TokWF.T1 rs = c11_rhs TokWF.T1 rs.
Proof. vm_compute. split; reflexivity. Qed.

(* (b) a hyphen before a line break is harmless for letter words (the writer
   now emits one newline per line step) ... *)
Example exc_b_ok :
  let rs := runes_of ("x" ++ NLs ++ "(-" ++ NLs ++ ") y non-" ++ NLs ++ "exclusive z") in
  c11_hyps TokWF.T1 rs = (true, true) /\ c11_lhs TokWF.T1 rs = c11_rhs TokWF.T1 rs.
Proof. vm_compute. split; reflexivity. Qed.
(* ... and only bites through (d): "1-\n- a" joins to the number word "1-",
   which ends the written line 1 *)
Example exc_b :
  let rs := runes_of ("1-" ++ NLs ++ "- a") in
  c11_hyps TokWF.T1 rs = (true, false) /\ differs TokWF.T1 rs.
Proof. vm_compute. split; [reflexivity|discriminate]. Qed.

(* (c') "HTTPS://x.y": Part B fails (raw "Httpsxy", matching "httpxy") and so
   does (c), but the property itself holds for this input *)
Example exc_cap_https :
  let rs := runes_of "see HTTPS://x.y now" in
  c11_hyps TokWF.T1 rs = (false, false) /\ c11_lhs TokWF.T1 rs = c11_rhs TokWF.T1 rs /\
  c11_rhs TokWF.T1 rs <> map (normtok TokWF.T1) (filter non_eol (d_toks (tokenize_runes TokWF.T1 false rs))).
Proof. vm_compute. repeat split; try reflexivity; discriminate. Qed.

(* (e) FIXED in the code (flushBuf lower-cases what html.UnescapeString
   produced when normalising): a numeric character reference producing an
   upper-case letter.  Before the "fix:" Match saw "Abc" while the
   re-tokenised Normalize output gave "abc"; now both give "abc", and the
   hypotheses of [C11_restricted] hold for such inputs.  T1 with a small
   unescape table (what html.UnescapeString returns for these words). *)
Definition assoc_unescape (tbl : list (word * word)) (w : word) : word :=
  match find (fun kv => word_eqb w (fst kv)) tbl with Some kv => snd kv | None => w end.
Definition T1_entity : tables :=
  {| is_letter := is_letter TokWF.T1; is_digit := is_digit TokWF.T1; is_space := is_space TokWF.T1;
     to_lower := to_lower TokWF.T1; punct_map := punct_map TokWF.T1;
     is_list_marker := is_list_marker TokWF.T1; interchangeable := interchangeable TokWF.T1;
     unescape := assoc_unescape [(runes_of "&#65;bc", runes_of "Abc"); (runes_of "x&#65;y", runes_of "xAy");
                                 (runes_of "&#72;ttps", runes_of "Https")] |}.

Theorem tables_ok_T1_entity : tables_ok T1_entity.
Proof.
  destruct tables_ok_T1 as [F1 F2 F3 F4 F5 F6 F7 F8 F9 F10 F11 F12 F13 F14 F15 F16 F17 F18 F19].
  constructor;
    [exact F1|exact F2|exact F3|exact F4|exact F5|exact F6|exact F7|exact F8|exact F9|exact F10|exact F11
    |exact F12|exact F13|exact F14|exact F15|exact F16| |exact F18|exact F19].
  intros w Hw. unfold T1_entity. cbn [unescape]. unfold assoc_unescape. cbn [find fst snd].
  repeat match goal with
         | |- context [word_eqb w ?k] =>
           destruct (word_eqb w k) eqn:E;
             [apply word_eqb_eq in E; subst w; vm_compute in Hw; discriminate Hw|clear E]
         end.
  reflexivity.
Qed.

Example exc_e :
  let rs := runes_of "&#65;bc x" in
  c11_hyps T1_entity rs = (true, true) /\
  c11_lhs T1_entity rs = [(runes_of "abc", 1); (runes_of "x", 1)] /\
  c11_rhs T1_entity rs = [(runes_of "abc", 1); (runes_of "x", 1)] /\
  (* raw mode keeps the upper-case letter: Normalize writes "Abc x" *)
  d_toks (tokenize_runes T1_entity false rs) = [(runes_of "Abc", 1); (runes_of "x", 1)] /\
  (* the condition used before the "fix:" rejected this word *)
  unesc_fix T1_entity (runes_of "&#65;bc") = false.
Proof. vm_compute. repeat split; reflexivity. Qed.
(* ... and the theorem applies to it *)
Example exc_e_concl :
  let rs := runes_of "&#65;bc x" in c11_lhs T1_entity rs = c11_rhs T1_entity rs.
Proof. apply (C11_restricted T1_entity tables_ok_T1_entity); vm_compute; reflexivity. Qed.
(* an upper-case letter produced INSIDE a word is fine as well (condition (3)
   of [word_flush_ok] asks only that it looks the same to the ignorable
   expressions before and after lower-casing, true of every ASCII letter) *)
Example ent_inside_ok :
  let rs := runes_of "a x&#65;y z" in
  c11_hyps T1_entity rs = (true, true) /\ c11_lhs T1_entity rs = c11_rhs T1_entity rs /\
  d_toks (tokenize_runes T1_entity false rs) = [(runes_of "a", 1); (runes_of "xAy", 1); (runes_of "z", 1)].
Proof. vm_compute. repeat split; reflexivity. Qed.
(* (c') through an entity: "&#72;ttps" -> "Https" is a capitalised "https",
   condition (2) of [word_flush_ok] fails, Part B fails, the property holds *)
Example exc_cap_https_entity :
  let rs := runes_of "a &#72;ttps z" in
  c11_hyps T1_entity rs = (false, false) /\ c11_lhs T1_entity rs = c11_rhs T1_entity rs /\
  https_stable T1_entity (runes_of "Https") = false /\
  c11_rhs T1_entity rs <> map (normtok T1_entity) (filter non_eol (d_toks (tokenize_runes T1_entity false rs))).
Proof. vm_compute. repeat split; try reflexivity; discriminate. Qed.

(* (e') what is left of (e): html.UnescapeString produces, inside a word, a
   rune whose lower-casing the ignorable expressions can see.  T1 extended by
   U+0130 (a letter, ToLower gives 'i', but (?i)i does not match U+0130):
   "copyr&#304;ght 2020 foo" is a Copyright notice for Match (normalising
   mode) but three ordinary words in raw mode.  Condition (3) of
   [word_flush_ok] fails and so does the conclusion of Part B (the pseudo
   matches differ); the property itself holds, through exception (a). *)
Definition T1_dotted_I : tables :=
  {| is_letter := fun r => (r =? 304) || is_letter TokWF.T1 r; is_digit := is_digit TokWF.T1;
     is_space := is_space TokWF.T1;
     to_lower := fun r => if r =? 304 then 105 else to_lower TokWF.T1 r; punct_map := punct_map TokWF.T1;
     is_list_marker := is_list_marker TokWF.T1; interchangeable := interchangeable TokWF.T1;
     unescape := assoc_unescape [(runes_of "copyr&#304;ght", runes_of "copyr" ++ [304] ++ runes_of "ght")] |}.
Example exc_e_ci :
  let rs := runes_of "copyr&#304;ght 2020 foo" in
  c11_hyps T1_dotted_I rs = (false, false) /\
  ci_same T1_dotted_I 304 = false /\
  unesc_first T1_dotted_I (runes_of "copyr&#304;ght") = true /\
  https_stable T1_dotted_I (unescape T1_dotted_I (runes_of "copyr&#304;ght")) = true /\
  d_matches (tokenize_runes T1_dotted_I false rs) = [] /\
  d_matches (tokenize_runes T1_dotted_I true rs) = [1] /\
  c11_lhs T1_dotted_I rs = c11_rhs T1_dotted_I rs.
Proof. vm_compute. repeat split; reflexivity. Qed.

(* a '&' that html.UnescapeString leaves alone is fine *)
Example amp_ok :
  let rs := runes_of "R&D AT&T x" in
  c11_hyps TokWF.T1 rs = (true, true) /\ c11_lhs TokWF.T1 rs = c11_rhs TokWF.T1 rs.
Proof. vm_compute. split; reflexivity. Qed.

Print Assumptions tables_ok_T0.
Print Assumptions tables_ok_T1.
Print Assumptions retokenize_normalized.
Print Assumptions raw_vs_norm.
Print Assumptions flushes_ok_old.
Print Assumptions word_flush_ok_no_amp.
Print Assumptions tables_ok_T1_entity.
Print Assumptions exc_e_concl.
Print Assumptions raw_tok_good.
Print Assumptions raw_mono.
Print Assumptions canon_split.
Print Assumptions C11_restricted_canon.
Print Assumptions C11_restricted.
Print Assumptions ex_ok_concl.
