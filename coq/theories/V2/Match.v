(* Executable model of v2/diff.go (diffRange, textLength, wordLen),
   v2/scoring.go (score, scoreDiffs, diffLevenshteinWord, confidencePercentage),
   v2/frequencies.go (tokenSimilarity) and v2/classifier.go (match: candidate
   assembly, Matches.Less, the overlap/containment filter, name splitting).
   Inputs are at token level: the target's (id, line) tokens and Copyright
   pseudo-match lines come from the tokenizer (V2/Tok.v + dictionary), each
   corpus document is its key, its token ids and its search set.  The word
   diff of go-diff is an oracle (DESIGN 3.3): [diff_oracle key s e] is the edit
   script go-diff returned for target[s:e] against the document.  Every Go
   panic site is [Err]. *)
From Coq Require Import List NArith ZArith Bool FMapPositive.
Import ListNotations.
From LC.Base Require Import Float64 Sort.
From LC.V2 Require Import SSet.
Local Open Scope N_scope.

Definition str := list N.                     (* strings as rune lists *)

Inductive dop := DEqual | DInsert | DDelete.
Definition diff := (dop * list N)%type.       (* operation, token ids *)

Record cdoc := {
  cd_key : str;                               (* "category/name/variant" *)
  cd_ids : list N;
  cd_set : sset
}.

Record config := {
  cf_thr : f64;
  cf_word : N -> str;                         (* dictionary: id -> word; 0 and unknown ids -> "UNKNOWN" *)
  cf_is_digit : N -> bool;                    (* unicode.IsDigit *)
  cf_total_less : bool;                       (* Matches.Less with the total tie-break (repaired) *)
  cf_diff : str -> N -> N -> option (list diff)
}.

Inductive res (A : Type) := Ok (a : A) | Err (site : nat).
Arguments Ok {A}. Arguments Err {A}.

(* ---------- strings ---------- *)
Definition SP : N := 32.

Fixpoint str_eqb (a b : str) : bool :=
  match a, b with
  | [], [] => true
  | x :: a', y :: b' => (x =? y) && str_eqb a' b'
  | _, _ => false
  end.

Fixpoint is_prefix (p l : str) : bool :=
  match p, l with
  | [], _ => true
  | x :: p', y :: l' => (x =? y) && is_prefix p' l'
  | _ :: _, [] => false
  end.

Fixpoint contains (p l : str) : bool :=
  is_prefix p l || match l with [] => false | _ :: l' => contains p l' end.

Definition has_suffix (l p : str) : bool := is_prefix (rev p) (rev l).

(* lexicographic < on strings (Go compares bytes; UTF-8 preserves rune order) *)
Fixpoint str_ltb (a b : str) : bool :=
  match a, b with
  | _, [] => false
  | [], _ :: _ => true
  | x :: a', y :: b' => (x <? y) || ((x =? y) && str_ltb a' b')
  end.

Fixpoint join_words (word : N -> str) (ids : list N) : str :=
  match ids with
  | [] => []
  | [i] => word i
  | i :: r => word i ++ SP :: join_words word r
  end.

Definition word_len (t : str) : Z :=
  match t with [] => 0%Z | _ => Z.of_nat (length (filter (N.eqb SP) t)) + 1 end.

Fixpoint split_on (sep : N) (l : str) (cur_rev : str) : list str :=
  match l with
  | [] => [rev cur_rev]
  | c :: r => if c =? sep then rev cur_rev :: split_on sep r [] else split_on sep r (c :: cur_rev)
  end.

Definition SEP : N := 47.
Definition key_part (k : str) (i : nat) : option str := nth_error (split_on SEP k []) i.

(* ---------- diffRange / textLength ---------- *)
Definition tdiff := (dop * str)%type.        (* hydrated: text *)

Definition hydrate (word : N -> str) (d : diff) : tdiff := (fst d, join_words word (snd d)).

(* returns (start, end) as positions in the diff list *)
Fixpoint diff_range_loop (known_rev : str) (ds : list tdiff) (endi : nat) (start : nat) (found : bool)
         (seen_rev : str) : nat * nat :=
  match ds with
  | [] => (start, endi)
  | (op, text) :: r =>
    let stop := match seen_rev with
                | _ :: ((_ :: _) as rest) => str_eqb rest known_rev
                | _ => false
                end in
    if stop then (start, endi)
    else
      match op with
      | DDelete => diff_range_loop known_rev r (S endi) start found seen_rev
      | _ =>
        let start' := if found then start else endi in
        diff_range_loop known_rev r (S endi) start' true (SP :: rev text ++ seen_rev)
      end
  end.

Definition diff_range (known : str) (ds : list tdiff) : nat * nat :=
  diff_range_loop (rev known) ds 0 0 false [].

Definition text_length (ds : list tdiff) : Z := fold_left (fun a d => (a + word_len (snd d))%Z) ds 0%Z.

(* ---------- scoreDiffs ---------- *)
Definition S_ (l : list N) : str := l.
Definition s_version : str := [118;101;114;115;105;111;110].
Definition s_std_version : str := [116;104;101;32;115;116;97;110;100;97;114;100;32;118;101;114;115;105;111;110].
Definition s_contrib_version : str :=
  [116;104;101;32;99;111;110;116;114;105;98;117;116;111;114;32;118;101;114;115;105;111;110].
Definition s_lesser : str := [108;101;115;115;101;114].
Definition s_library : str := [108;105;98;114;97;114;121].
Definition s_gnu : str := [103;110;117].
Definition s_warranty : str := [119;97;114;114;97;110;116;121].
Definition s_covered : str := [105;115;32;99;111;118;101;114;101;100;32;98;121;32;116;104;101;32;103;110;117].

(* the inducedPhrases table of scoreDiffs (a local literal in the Go function) *)
Definition induced_phrases : list (str * list str) :=
  [ ([65;71;80;76], [[97;102;102;101;114;111]]);                                           (* AGPL: affero *)
    ([65;116;109;101;108], [[97;116;109;101;108]]);                                        (* Atmel: atmel *)
    ([65;112;97;99;104;101], [[97;112;97;99;104;101]]);                                    (* Apache: apache *)
    ([66;83;68], [[98;115;100]]);                                                          (* BSD: bsd *)
    ([66;83;68;45;51;45;67;108;97;117;115;101;45;65;116;116;114;105;98;117;116;105;111;110],
     [[97;99;107;110;111;119;108;101;100;103;109;101;110;116]]);                           (* BSD-3-Clause-Attribution: acknowledgment *)
    ([98;122;105;112;50], [[115;101;119;97;114;100]]);                                     (* bzip2: seward *)
    ([71;80;76;45;50;46;48;45;119;105;116;104;45;71;67;67;45;101;120;99;101;112;116;105;111;110],
     [[103;99;99;32;108;105;110;107;105;110;103;32;101;120;99;101;112;116;105;111;110]]);  (* gcc linking exception *)
    ([71;80;76;45;50;46;48;45;119;105;116;104;45;97;117;116;111;99;111;110;102;45;101;120;99;101;112;116;105;111;110],
     [[97;117;116;111;99;111;110;102;32;101;120;99;101;112;116;105;111;110]]);             (* autoconf exception *)
    ([71;80;76;45;50;46;48;45;119;105;116;104;45;98;105;115;111;110;45;101;120;99;101;112;116;105;111;110],
     [[98;105;115;111;110;32;101;120;99;101;112;116;105;111;110]]);                        (* bison exception *)
    ([71;80;76;45;50;46;48;45;119;105;116;104;45;99;108;97;115;115;112;97;116;104;45;101;120;99;101;112;116;105;111;110],
     [[99;108;97;115;115;32;112;97;116;104;32;101;120;99;101;112;116;105;111;110]]);       (* class path exception *)
    ([71;80;76;45;50;46;48;45;119;105;116;104;45;102;111;110;116;45;101;120;99;101;112;116;105;111;110],
     [[102;111;110;116;32;101;120;99;101;112;116;105;111;110]]);                           (* font exception *)
    ([76;71;80;76;45;50;46;48], [[108;105;98;114;97;114;121]]);                            (* LGPL-2.0: library *)
    ([73;109;97;103;101;77;97;103;105;99;107], [[105;109;97;103;101;109;97;103;105;99;107]]);  (* ImageMagick *)
    ([80;72;80], [[112;104;112]]);                                                         (* PHP: php *)
    ([83;73;83;83;76], [[115;117;110;32;115;116;97;110;100;97;114;100;115]]);              (* SISSL: sun standards *)
    ([83;71;73;45;66], [[115;105;108;105;99;111;110;32;103;114;97;112;104;105;99;115]]);   (* SGI-B: silicon graphics *)
    ([83;117;110;80;114;111], [[115;117;110;112;114;111]]);                                (* SunPro: sunpro *)
    ([88;49;49], [[120;32;99;111;110;115;111;114;116;105;117;109]]) ].                     (* X11: x consortium *)

Definition DOTr : N := 46.
Definition is_version_number (is_digit : N -> bool) (s : str) : bool :=
  forallb (fun r => is_digit r || (r =? DOTr)) s.

Fixpoint upto_space (s : str) : str :=
  match s with [] => [] | c :: r => if c =? SP then [] else c :: upto_space r end.

Definition versionChange : Z := (-1)%Z.
Definition introducedPhraseChange : Z := (-2)%Z.
Definition lesserGPLChange : Z := (-3)%Z.

Definition lev_word (ds : list tdiff) : Z :=
  let '(lev, ins, del) :=
      fold_left (fun '(lev, ins, del) d =>
                   match fst d with
                   | DInsert => (lev, ins + word_len (snd d), del)%Z
                   | DDelete => (lev, ins, del + word_len (snd d))%Z
                   | DEqual => (lev + Z.max ins del, 0, 0)%Z
                   end) ds (0, 0, 0)%Z in
  (lev + Z.max ins del)%Z.

Definition gnu_guard (prev : str) : bool :=
  negb (contains s_warranty prev) && negb (contains s_covered prev).

Fixpoint score_scan (is_digit : N -> bool) (lname : str) (ds : list tdiff) (prev_text prev_delete : str)
  : option Z :=                                   (* Some negative code, or None to go on to the distance *)
  match ds with
  | [] => None
  | (op, text) :: rest =>
    match op with
    | DInsert =>
      let num := upto_space text in
      if is_version_number is_digit num && has_suffix prev_text s_version
         && negb (has_suffix prev_text s_std_version) && negb (has_suffix prev_text s_contrib_version)
      then Some versionChange
      else
        let next_text := match rest with (_, t) :: _ => Some t | [] => None end in
        let induced :=
            existsb (fun kp => is_prefix (fst kp) lname &&
                               existsb (fun p => contains p text &&
                                                 negb (match next_text with Some t => contains p t | None => false end))
                                       (snd kp)) induced_phrases in
        if induced then Some introducedPhraseChange
        else if str_eqb text s_lesser && has_suffix prev_text s_gnu && negb (str_eqb prev_delete s_library)
                && gnu_guard prev_text
        then Some lesserGPLChange
        else score_scan is_digit lname rest prev_text prev_delete
    | DEqual => score_scan is_digit lname rest text []
    | DDelete =>
      if (str_eqb text s_lesser || str_eqb text s_library) && has_suffix prev_text s_gnu && gnu_guard prev_text
      then Some lesserGPLChange
      else score_scan is_digit lname rest prev_text text
    end
  end.

Definition score_diffs (is_digit : N -> bool) (lname : str) (ds : list tdiff) : Z :=
  match score_scan is_digit lname ds [] [] with
  | Some code => code
  | None => lev_word ds
  end.

(* score: (confidence, startOffset, endOffset) *)
Definition score (C : config) (d : cdoc) (s e : N) : res (f64 * Z * Z) :=
  match C.(cf_diff) d.(cd_key) s e with
  | None => Err 90                                        (* diff oracle has no entry: correspondence broken *)
  | Some raw =>
    match key_part d.(cd_key) 1 with
    | None => Err 1                                       (* LicenseName: splits[1] *)
    | Some lname =>
      let ds := map (hydrate C.(cf_word)) raw in
      let known := join_words C.(cf_word) d.(cd_ids) in
      let '(st, en) := diff_range known ds in
      let mid := firstn (en - st) (skipn st ds) in
      let dist := score_diffs C.(cf_is_digit) lname mid in
      if (dist <? 0)%Z then Ok (fzero, 0%Z, 0%Z)
      else Ok (confidence (Z.of_nat (length d.(cd_ids))) dist,
               text_length (firstn st ds), text_length (skipn en ds))
    end
  end.

(* ---------- tokenSimilarity ---------- *)
Fixpoint count_ids (ids : list N) (m : PositiveMap.t N) : PositiveMap.t N :=
  match ids with
  | [] => m
  | i :: r => let k := pos_of_N i in
              count_ids r (PositiveMap.add k (1 + match PositiveMap.find k m with Some c => c | None => 0 end) m)
  end.

Definition token_similarity (tgt_counts : PositiveMap.t N) (known_ids : list N) : f64 :=
  let kc := count_ids known_ids (PositiveMap.empty _) in
  let hits := PositiveMap.fold (fun k c acc =>
                                  if c <=? match PositiveMap.find k tgt_counts with Some x => x | None => 0 end
                                  then acc + 1 else acc) kc 0 in
  fdiv (of_Z (Z.of_N hits)) (of_Z (Z.of_nat (PositiveMap.cardinal kc))).

(* ---------- Match records, Less, filter ---------- *)
Record mtch := {
  m_name : str; m_type : str; m_variant : str;
  m_conf : f64;
  m_sl : Z; m_el : Z; m_st : Z; m_et : Z
}.

Definition COPYRIGHT : str := [67;111;112;121;114;105;103;104;116].

Definition less (total : bool) (a b : mtch) : bool :=
  if negb (feq (m_conf a) (m_conf b)) then flt (m_conf b) (m_conf a)
  else if negb (m_st a =? m_st b)%Z then (m_st a <? m_st b)%Z
  else if negb total then (m_et b <? m_et a)%Z
  else if negb (m_et a =? m_et b)%Z then (m_et b <? m_et a)%Z
  else if negb (m_sl a =? m_sl b)%Z then (m_sl a <? m_sl b)%Z
  else if negb (m_el a =? m_el b)%Z then (m_el a <? m_el b)%Z
  else if negb (str_eqb (m_type a) (m_type b)) then str_ltb (m_type a) (m_type b)
  else if negb (str_eqb (m_name a) (m_name b)) then str_ltb (m_name a) (m_name b)
  else str_ltb (m_variant a) (m_variant b).

Definition mcontains (a b : mtch) : bool := (m_sl a <=? m_sl b)%Z && (m_el b <=? m_el a)%Z.
Definition between (a b c : Z) : bool := (b <=? a)%Z && (a <=? c)%Z.
Definition overlaps (a b : mtch) : bool :=
  between (m_sl a) (m_sl b) (m_el b) || between (m_el a) (m_sl b) (m_el b).

(* inner loop of the retain filter for candidate c against the earlier
   candidates [(o, retained?)]; returns (keep, indices j whose retain is to be cleared) *)
Fixpoint retain_inner (c : mtch) (prev : list (mtch * bool)) (j : nat) (props : list nat) : bool * list nat :=
  match prev with
  | [] => (true, props)
  | (o, ret) :: rest =>
    if mcontains c o && ret then
      let ctoks := of_Z (m_et c - m_st c) in
      let otoks := of_Z (m_et o - m_st o) in
      let cconf := fmul ctoks (m_conf c) in
      let oconf := fmul otoks (m_conf o) in
      if flt oconf cconf then retain_inner c rest (S j) (j :: props)
      else if flt cconf oconf then (false, props)
      else retain_inner c rest (S j) props
    else if overlaps c o && ret then
      if negb (m_sl c =? m_el o)%Z then (false, props)
      else retain_inner c rest (S j) props
    else retain_inner c rest (S j) props
  end.

Fixpoint clear_at (l : list (mtch * bool)) (i : nat) (js : list nat) : list (mtch * bool) :=
  match l with
  | [] => []
  | (m, r) :: rest => (m, if existsb (Nat.eqb i) js then false else r) :: clear_at rest (S i) js
  end.

Fixpoint retain_loop (todo : list mtch) (done : list (mtch * bool)) : list (mtch * bool) :=
  match todo with
  | [] => done
  | c :: rest =>
    let '(keep, props) := retain_inner c done 0 [] in
    let done' := if keep then clear_at done 0 props else done in
    retain_loop rest (done' ++ [(c, keep)])
  end.

Definition filter_candidates (sorted : list mtch) : list mtch :=
  map fst (filter snd (retain_loop sorted [])).

(* ---------- match ---------- *)
Record results := { r_matches : list mtch; r_total : Z }.

Definition nthZ {A} (l : list A) (i : Z) : option A :=
  if (i <? 0)%Z then None else nth_error l (Z.to_nat i).

Fixpoint candidates_of (C : config) (tgt_lines : list Z) (tset : sset) (d : cdoc) (ms : list range)
  : res (list mtch) :=
  match ms with
  | [] => Ok []
  | m :: rest =>
    match score C d (tgt_start m) (tgt_end m) with
    | Err e => Err e
    | Ok (conf, so, eo) =>
      let s := Z.of_N (tgt_start m) in
      let e := Z.of_N (tgt_end m) in
      match candidates_of C tgt_lines tset d rest with
      | Err x => Err x
      | Ok tl =>
        if fle C.(cf_thr) conf && (0 <? e - s - so - eo)%Z then
          match nthZ tgt_lines (s + so), nthZ tgt_lines (e - eo - 1),
                key_part d.(cd_key) 1, key_part d.(cd_key) 2, key_part d.(cd_key) 0 with
          | Some sl, Some el, Some nm, Some vr, Some ty =>
            Ok ({| m_name := nm; m_type := ty; m_variant := vr; m_conf := conf;
                   m_sl := sl; m_el := el; m_st := (s + so)%Z; m_et := (e - eo - 1)%Z |} :: tl)
          | None, _, _, _, _ => Err 2              (* id.Tokens[startIndex+startOffset] *)
          | _, None, _, _, _ => Err 3              (* id.Tokens[endIndex-endOffset-1] *)
          | _, _, _, _, _ => Err 4                 (* splits[1] / splits[2] *)
          end
        else Ok tl
      end
    end
  end.

Fixpoint all_candidates (C : config) (tgt_lines : list Z) (tset : sset) (docs : list cdoc) : res (list mtch) :=
  match docs with
  | [] => Ok []
  | d :: rest =>
    match candidates_of C tgt_lines tset d (find_potential_matches d.(cd_set) tset C.(cf_thr)) with
    | Err e => Err e
    | Ok a => match all_candidates C tgt_lines tset rest with
              | Err e => Err e
              | Ok b => Ok (a ++ b)
              end
    end
  end.

(* [tgt_ids]/[tgt_lines]: the target's tokens; [pseudo]: Copyright lines;
   [tset]: the target's search set (q clamp applied by the caller as newSearchSet does) *)
Definition match_tokens (C : config) (docs : list cdoc) (tgt_ids : list N) (tgt_lines : list Z)
           (pseudo : list Z) (tset : sset) : res results :=
  let tc := count_ids tgt_ids (PositiveMap.empty _) in
  let first_pass := filter (fun d => fle C.(cf_thr) (token_similarity tc d.(cd_ids))) docs in
  match first_pass with
  | [] => Ok {| r_matches := []; r_total := 0 |}
  | _ =>
    let pm := map (fun l => {| m_name := COPYRIGHT; m_type := COPYRIGHT; m_variant := []; m_conf := fone;
                               m_sl := l; m_el := l; m_st := 0; m_et := 0 |}) pseudo in
    match all_candidates C tgt_lines tset first_pass with
    | Err e => Err e
    | Ok cs =>
      let sorted := sort (less C.(cf_total_less)) (pm ++ cs) in
      (* TotalInputLines: line of the last token, 0 when there is none (guarded
         since the "fix:" for threshold 0; before it: index -1 panic) *)
      Ok {| r_matches := filter_candidates sorted;
            r_total := match rev tgt_lines with [] => 0%Z | lastl :: _ => lastl end |}
    end
  end.
