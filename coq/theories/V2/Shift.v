(* Position independence of the hash-join stage (targetMatchedRanges) for
   ARBITRARY content: if the target's checksum list is SA ++ SX ++ SB and no
   checksum of SA or SB occurs in the source, the matched ranges of the
   embedded target are exactly the matched ranges of the stand-alone target
   SX, with target offsets shifted by |SA|.  Equality of lists (after the
   sort), not only permutation. *)
From Coq Require Import List NArith ZArith Bool FMapPositive Lia.
Import ListNotations.
From LC.Base Require Import Sort.
From LC.V2 Require Import SSet.
From LC.V2 Require Planted MatchWF.
Local Open Scope N_scope.

Definition shift (d : N) (r : range) : range :=
  {| src_start := src_start r; src_end := src_end r;
     tgt_start := tgt_start r + d; tgt_end := tgt_end r + d;
     claimed := claimed r |}.

(* ---------------------------------------------------------------------- *)
(* sort commutes with an order-preserving map                              *)
(* ---------------------------------------------------------------------- *)
Section SortMap.
  Context {A B : Type} (ltA : A -> A -> bool) (ltB : B -> B -> bool) (f : A -> B).
  Hypothesis Hlt : forall a b, ltB (f a) (f b) = ltA a b.

  Lemma merge_map fuel : forall a b,
    merge ltB fuel (map f a) (map f b) = map f (merge ltA fuel a b).
  Proof.
    induction fuel as [|n IH]; intros a b; cbn [merge].
    - symmetry. apply map_app.
    - destruct a as [|x a'], b as [|y b']; cbn [map]; try reflexivity.
      rewrite Hlt. destruct (ltA y x); cbn [map]; f_equal.
      + apply (IH (x :: a') b').
      + apply (IH a' (y :: b')).
  Qed.

  Lemma msort_map fuel : forall l,
    msort ltB fuel (map f l) = map f (msort ltA fuel l).
  Proof.
    induction fuel as [|n IH]; intros l; cbn [msort]; [reflexivity|].
    destruct l as [|x [|y r]]; try reflexivity.
    change (map f (x :: y :: r)) with (f x :: f y :: map f r).
    cbv iota beta.
    change (f x :: f y :: map f r) with (map f (x :: y :: r)).
    rewrite map_length, firstn_map, skipn_map, !IH. apply merge_map.
  Qed.

  Lemma sort_map l : sort ltB (map f l) = map f (sort ltA l).
  Proof. unfold sort. rewrite map_length. apply msort_map. Qed.
End SortMap.

Lemma range_lt_shift d a b : range_lt (shift d a) (shift d b) = range_lt a b.
Proof.
  unfold range_lt, shift; cbn [claimed tgt_start src_start].
  destruct (negb (claimed a =? claimed b)); [reflexivity|].
  replace (tgt_start a + d =? tgt_start b + d) with (tgt_start a =? tgt_start b)
    by (destruct (N.eqb_spec (tgt_start a) (tgt_start b)), (N.eqb_spec (tgt_start a + d) (tgt_start b + d)); lia).
  destruct (negb (tgt_start a =? tgt_start b)); [|reflexivity].
  destruct (N.ltb_spec (tgt_start a) (tgt_start b)), (N.ltb_spec (tgt_start a + d) (tgt_start b + d)); lia.
Qed.

Lemma set_claimed_shift d r : set_claimed (shift d r) = shift d (set_claimed r).
Proof.
  unfold set_claimed, shift; cbn [src_start src_end tgt_start tgt_end claimed].
  f_equal. lia.
Qed.

(* ---------------------------------------------------------------------- *)
(* relabelling of diagonals                                                *)
(* ---------------------------------------------------------------------- *)
Definition z_of_pos (p : positive) : Z :=
  match p with xH => 0%Z | xO p => Zpos p | xI p => Zneg p end.

Lemma z_of_pos_of_Z z : z_of_pos (pos_of_Z z) = z.
Proof. destruct z; reflexivity. Qed.

Lemma pos_of_z_of_pos p : pos_of_Z (z_of_pos p) = p.
Proof. destruct p; reflexivity. Qed.

Definition kshift (d : N) (k : positive) : positive := pos_of_Z (z_of_pos k + Z.of_N d).

Lemma kshift_inj d k k' : kshift d k = kshift d k' -> k = k'.
Proof.
  unfold kshift. intros E. apply Planted.pos_of_Z_inj in E.
  assert (E' : z_of_pos k = z_of_pos k') by lia.
  rewrite <- (pos_of_z_of_pos k), <- (pos_of_z_of_pos k'), E'. reflexivity.
Qed.

Lemma kshift_dkey d t s :
  pos_of_Z (Z.of_N (t + d) - Z.of_N s) = kshift d (pos_of_Z (Z.of_N t - Z.of_N s)).
Proof. unfold kshift. rewrite z_of_pos_of_Z. f_equal. lia. Qed.

(* ---------------------------------------------------------------------- *)
(* simulation between the embedded and the stand-alone join                *)
(* ---------------------------------------------------------------------- *)
Definition state := (PositiveMap.t (list range) * list positive)%type.

Definition sim (d : N) (stE stX : state) : Prop :=
  snd stE = map (kshift d) (snd stX) /\
  forall k, PositiveMap.find (kshift d k) (fst stE) =
            option_map (map (shift d)) (PositiveMap.find k (fst stX)).

Lemma sim_add d omE omX keysE keysX k0 LX :
  sim d (omE, keysE) (omX, keysX) ->
  forall keysE' keysX', keysE' = map (kshift d) keysX' ->
  sim d (PositiveMap.add (kshift d k0) (map (shift d) LX) omE, keysE')
        (PositiveMap.add k0 LX omX, keysX').
Proof.
  intros [_ Hf] keysE' keysX' Hk. split; [exact Hk|]. cbn [fst] in *. intros k.
  destruct (Pos.eq_dec k k0) as [->|Hne].
  - rewrite !PositiveMap.gss. reflexivity.
  - rewrite !PositiveMap.gso; [apply Hf|assumption|].
    intros E. apply kshift_inj in E. contradiction.
Qed.

Lemma join1_sim d qs qt omE keysE omX keysX t s :
  sim d (omE, keysE) (omX, keysX) ->
  sim d (join1 qs qt omE keysE (t + d) s) (join1 qs qt omX keysX t s).
Proof.
  intros Hs. pose proof Hs as [Hk Hf]. cbn [fst snd] in Hk, Hf.
  unfold join1. rewrite kshift_dkey.
  set (k0 := pos_of_Z (Z.of_N t - Z.of_N s)).
  rewrite Hf.
  assert (Hfresh :
    [{| src_start := s; src_end := s + qs; tgt_start := t + d; tgt_end := t + d + qt; claimed := 0 |}] =
    map (shift d) [{| src_start := s; src_end := s + qs; tgt_start := t; tgt_end := t + qt; claimed := 0 |}]).
  { unfold shift; cbn. do 2 f_equal. lia. }
  destruct (PositiveMap.find k0 omX) as [[|h rest]|]; cbn [option_map map].
  - rewrite Hfresh. apply (sim_add d omE omX keysE keysX); assumption.
  - replace (tgt_end (shift d h) + 1 =? t + d + qt) with (tgt_end h + 1 =? t + qt)
      by (unfold shift; cbn [tgt_end];
          destruct (N.eqb_spec (tgt_end h + 1) (t + qt)), (N.eqb_spec (tgt_end h + d + 1) (t + d + qt)); lia).
    destruct (tgt_end h + 1 =? t + qt).
    + match goal with |- sim d (PositiveMap.add _ ?L _, _) (PositiveMap.add _ ?L' _, _) =>
        replace L with (map (shift d) L') end.
      * apply (sim_add d omE omX keysE keysX); assumption.
      * cbn [map]. f_equal. unfold shift; cbn. f_equal. lia.
    + match goal with |- sim d (PositiveMap.add _ ?L _, _) (PositiveMap.add _ ?L' _, _) =>
        replace L with (map (shift d) L') end.
      * apply (sim_add d omE omX keysE keysX); assumption.
      * cbn [map]. f_equal. unfold shift; cbn. f_equal. lia.
  - rewrite Hfresh. apply (sim_add d omE omX keysE keysX); [assumption|]. cbn [map]. f_equal. assumption.
Qed.

Lemma join_offs_sim d qs qt t offs : forall stE stX,
  sim d stE stX ->
  sim d (Planted.join_offs qs qt (t + d) offs stE) (Planted.join_offs qs qt t offs stX).
Proof.
  induction offs as [|s r IH]; intros [omE keysE] [omX keysX] Hs; [exact Hs|].
  rewrite !Planted.join_offs_cons. cbn [fst snd].
  destruct (join1 qs qt omE keysE (t + d) s) as [omE' keysE'] eqn:EE.
  destruct (join1 qs qt omX keysX t s) as [omX' keysX'] eqn:EX.
  apply IH. rewrite <- EE, <- EX. apply join1_sim. assumption.
Qed.

Lemma join_nodes_skip qs qt h l r : forall toff om keys,
  (forall c, In c l -> PositiveMap.find (pos_of_N c) h = None) ->
  join_nodes qs qt h (l ++ r) toff om keys =
  join_nodes qs qt h r (toff + N.of_nat (length l)) om keys.
Proof.
  induction l as [|c l IH]; intros toff om keys Hm.
  - cbn [app length]. f_equal. lia.
  - cbn [app join_nodes length]. rewrite (Hm c (or_introl eq_refl)).
    rewrite IH by (intros c' Hc'; apply Hm; right; assumption). f_equal. lia.
Qed.

Lemma join_nodes_sim d qs qt h SB :
  (forall c, In c SB -> PositiveMap.find (pos_of_N c) h = None) ->
  forall ts t omE keysE omX keysX,
  sim d (omE, keysE) (omX, keysX) ->
  sim d (join_nodes qs qt h (ts ++ SB) (t + d) omE keysE) (join_nodes qs qt h ts t omX keysX).
Proof.
  intros HB. induction ts as [|c r IH]; intros t omE keysE omX keysX Hs.
  - cbn [app]. rewrite <- (app_nil_r SB), join_nodes_skip by assumption. cbn [join_nodes]. assumption.
  - cbn [app]. rewrite !Planted.join_nodes_cons.
    replace (t + d + 1) with (t + 1 + d) by lia.
    apply IH. rewrite <- !surjective_pairing. unfold Planted.node_step.
    apply join_offs_sim. assumption.
Qed.

Lemma flat_map_map_out {K X Y} (g : X -> Y) (f : K -> list X) l :
  flat_map (fun k => map g (f k)) l = map g (flat_map f l).
Proof.
  induction l as [|k l IH]; cbn [flat_map map]; [reflexivity|]. rewrite map_app, IH. reflexivity.
Qed.

Lemma flat_map_map_in {K K' X} (g : K -> K') (f : K' -> list X) l :
  flat_map f (map g l) = flat_map (fun k => f (g k)) l.
Proof.
  induction l as [|k l IH]; cbn [flat_map map]; [reflexivity|]. rewrite IH. reflexivity.
Qed.

(* ---------------------------------------------------------------------- *)
(* main theorem                                                            *)
(* ---------------------------------------------------------------------- *)
Theorem matched_ranges_shift (src : sset) (q la lx lb : N) (SA SX SB : list N) :
  (forall c, In c SA -> PositiveMap.find (pos_of_N c) (hashes src) = None) ->
  (forall c, In c SB -> PositiveMap.find (pos_of_N c) (hashes src) = None) ->
  0 < lx ->
  let tX := {| ss_len := lx; ss_q := q; ss_sums := SX |} in
  let tE := {| ss_len := la + lx + lb; ss_q := q; ss_sums := SA ++ SX ++ SB |} in
  target_matched_ranges src tE =
  map (shift (N.of_nat (length SA))) (target_matched_ranges src tX).
Proof.
  intros HA HB Hlx tX tE. unfold target_matched_ranges, tX, tE. cbn [ss_len ss_q ss_sums].
  replace (la + lx + lb =? 0) with false by (symmetry; apply N.eqb_neq; lia).
  replace (lx =? 0) with false by (symmetry; apply N.eqb_neq; lia).
  destruct (q =? 0); [reflexivity|].
  set (d := N.of_nat (length SA)).
  rewrite join_nodes_skip by assumption.
  assert (Hs : sim d (join_nodes (ss_q src) q (hashes src) (SX ++ SB) (0 + d) (PositiveMap.empty _) [])
                     (join_nodes (ss_q src) q (hashes src) SX 0 (PositiveMap.empty _) [])).
  { apply join_nodes_sim; [assumption|]. split; [reflexivity|]. intros k. cbn [fst].
    rewrite !PositiveMap.gempty. reflexivity. }
  fold d.
  destruct (join_nodes (ss_q src) q (hashes src) (SX ++ SB) (0 + d) (PositiveMap.empty _) []) as [omE keysE].
  destruct (join_nodes (ss_q src) q (hashes src) SX 0 (PositiveMap.empty _) []) as [omX keysX].
  destruct Hs as [Hk Hf]. cbn [fst snd] in Hk, Hf. subst keysE.
  rewrite <- (sort_map range_lt range_lt (shift d) (range_lt_shift d)). f_equal.
  rewrite flat_map_map_in, <- flat_map_map_out.
  apply flat_map_ext. intros k. rewrite Hf.
  destruct (PositiveMap.find k omX) as [l|]; cbn [option_map map]; [|reflexivity].
  rewrite !map_map. apply map_ext. intros r. apply set_claimed_shift.
Qed.

Print Assumptions matched_ranges_shift.

(* ---------------------------------------------------------------------- *)
(* corollary: the hit bitmap of the embedded target                        *)
(* ---------------------------------------------------------------------- *)
Section Hits.
Import Planted.

Definition hitbit (rs : list range) (j : nat) : N :=
  if (0 <? covlt rs (N.of_nat j + 1))%Z then 1 else 0.

Lemma hits_scan_map rs m : (forall k, getz (pos_of_N k) m = delta rs k) ->
  forall fuel i,
  hits_scan fuel i (covlt rs i) m =
  map (fun j => if (0 <? covlt rs (i + N.of_nat j + 1))%Z then 1 else 0) (seq 0 fuel).
Proof.
  intros Hm. induction fuel as [|f IH]; intros i; [reflexivity|].
  cbn [hits_scan seq map]. fold (getz (pos_of_N i) m). rewrite Hm, <- covlt_succ.
  f_equal.
  - rewrite N.add_0_r. reflexivity.
  - rewrite IH, <- seq_shift, map_map. apply map_ext. intros j.
    replace (i + 1 + N.of_nat j + 1) with (i + N.of_nat (S j) + 1) by lia. reflexivity.
Qed.

Lemma hits_of_map rs n : hits_of rs n = map (hitbit rs) (seq 0 (N.to_nat n)).
Proof.
  unfold hits_of. rewrite <- (covlt_0 rs).
  rewrite (hits_scan_map rs)
    by (intros k; rewrite mark_deltas_getz; unfold getz; rewrite PositiveMap.gempty; lia).
  apply map_ext. intros j. unfold hitbit. rewrite N.add_0_l. reflexivity.
Qed.

Lemma covlt_shift d rs i : covlt (map (shift d) rs) i = covlt rs (i - d).
Proof.
  induction rs as [|r rs IH]; cbn [map covlt]; [reflexivity|]. rewrite IH.
  unfold shift; cbn [tgt_start tgt_end]. unfold b2z.
  destruct (N.ltb_spec (tgt_start r + d) i), (N.ltb_spec (tgt_start r) (i - d)); try lia;
  destruct (N.ltb_spec (tgt_end r + d) i), (N.ltb_spec (tgt_end r) (i - d)); lia.
Qed.

Lemma covlt_beyond rs lx i :
  (forall r, In r rs -> tgt_start r <= tgt_end r /\ tgt_end r <= lx) -> lx < i -> covlt rs i = 0%Z.
Proof.
  induction rs as [|r rs IH]; intros Hb Hi; cbn [covlt]; [reflexivity|].
  rewrite IH by (try assumption; intros r' Hr'; apply Hb; right; assumption).
  destruct (Hb r (or_introl eq_refl)). unfold b2z.
  destruct (N.ltb_spec (tgt_start r) i), (N.ltb_spec (tgt_end r) i); lia.
Qed.

Lemma map_zero {X} (g : X -> N) l : (forall x, In x l -> g x = 0) -> map g l = repeat 0 (length l).
Proof.
  induction l as [|x l IH]; intros H; cbn [map length repeat]; [reflexivity|].
  rewrite H by (left; reflexivity). rewrite IH by (intros; apply H; right; assumption). reflexivity.
Qed.

Lemma seq_add_map a b : forall s, seq (a + s) b = map (Nat.add a) (seq s b).
Proof.
  induction b as [|b IH]; intros s; cbn [seq map]; [reflexivity|].
  f_equal. rewrite <- IH. f_equal. lia.
Qed.

Theorem hits_shift rs d lx lb :
  (forall r, In r rs -> tgt_start r <= tgt_end r /\ tgt_end r <= lx) ->
  hits_of (map (shift d) rs) (d + lx + lb) =
  repeat 0 (N.to_nat d) ++ hits_of rs lx ++ repeat 0 (N.to_nat lb).
Proof.
  intros Hb. rewrite !hits_of_map.
  replace (N.to_nat (d + lx + lb)) with (N.to_nat d + (N.to_nat lx + N.to_nat lb))%nat by lia.
  rewrite !seq_app, !map_app. cbn [Nat.add]. f_equal; [|f_equal].
  - rewrite map_zero; [rewrite seq_length; reflexivity|].
    intros j Hj. apply in_seq in Hj. unfold hitbit. rewrite covlt_shift.
    replace (N.of_nat j + 1 - d) with 0 by lia. rewrite covlt_0. reflexivity.
  - rewrite <- (Nat.add_0_r (N.to_nat d)), seq_add_map, map_map. apply map_ext. intros j.
    unfold hitbit. rewrite covlt_shift.
    replace (N.of_nat (N.to_nat d + j) + 1 - d) with (N.of_nat j + 1) by lia. reflexivity.
  - rewrite map_zero; [rewrite seq_length; reflexivity|].
    intros j Hj. apply in_seq in Hj. unfold hitbit. rewrite covlt_shift.
    rewrite (covlt_beyond rs lx) by (try assumption; lia). reflexivity.
Qed.

Corollary hits_of_embedded (src : sset) (q lx lb : N) (SA SX SB : list N) :
  (forall c, In c SA -> PositiveMap.find (pos_of_N c) (hashes src) = None) ->
  (forall c, In c SB -> PositiveMap.find (pos_of_N c) (hashes src) = None) ->
  0 < lx ->
  let tX := {| ss_len := lx; ss_q := q; ss_sums := SX |} in
  let tE := {| ss_len := N.of_nat (length SA) + lx + lb; ss_q := q; ss_sums := SA ++ SX ++ SB |} in
  MatchWF.ss_wf src -> MatchWF.ss_wf tX ->
  hits_of (target_matched_ranges src tE) (N.of_nat (length SA) + lx + lb) =
  repeat 0 (length SA) ++ hits_of (target_matched_ranges src tX) lx ++ repeat 0 (N.to_nat lb).
Proof.
  intros HA HB Hlx tX tE Hsrc HtX. unfold tE.
  rewrite (matched_ranges_shift src q (N.of_nat (length SA)) lx lb SA SX SB HA HB Hlx).
  fold tX. rewrite hits_shift.
  - rewrite Nat2N.id. reflexivity.
  - intros r Hr. pose proof (MatchWF.tmr_in_bounds src tX Hsrc HtX) as Hall.
    rewrite Forall_forall in Hall. destruct (Hall r Hr) as (H1 & H2 & _).
    cbn [ss_len tX] in H2. lia.
Qed.
End Hits.

Print Assumptions hits_shift.
Print Assumptions hits_of_embedded.

(* ---------------------------------------------------------------------- *)
(* non-vacuity                                                             *)
(* ---------------------------------------------------------------------- *)
Section Example.
Definition ex_src : sset := {| ss_len := 6; ss_q := 2; ss_sums := [1;2;3;1;2] |}.
Definition ex_SA : list N := [7;8].
Definition ex_SX : list N := [1;2;9;3].
Definition ex_SB : list N := [6].
Definition ex_tX : sset := {| ss_len := 5; ss_q := 2; ss_sums := ex_SX |}.
Definition ex_tE : sset := {| ss_len := 2 + 5 + 1; ss_q := 2; ss_sums := ex_SA ++ ex_SX ++ ex_SB |}.

Example ex_hyps :
  (forall c, In c ex_SA -> PositiveMap.find (pos_of_N c) (hashes ex_src) = None) /\
  (forall c, In c ex_SB -> PositiveMap.find (pos_of_N c) (hashes ex_src) = None) /\
  0 < 5 /\ MatchWF.ss_wf ex_src /\ MatchWF.ss_wf ex_tX.
Proof.
  split; [|split; [|split; [|split]]].
  - intros c [<-|[<-|[]]]; vm_compute; reflexivity.
  - intros c [<-|[]]; vm_compute; reflexivity.
  - reflexivity.
  - split; cbn; [discriminate|reflexivity].
  - split; cbn; [discriminate|reflexivity].
Qed.

Example ex_tX_ranges :
  target_matched_ranges ex_src ex_tX =
  [ {| src_start := 0; src_end := 3; tgt_start := 0; tgt_end := 3; claimed := 3 |};
    {| src_start := 3; src_end := 6; tgt_start := 0; tgt_end := 3; claimed := 3 |};
    {| src_start := 2; src_end := 4; tgt_start := 3; tgt_end := 5; claimed := 2 |} ].
Proof. vm_compute. reflexivity. Qed.

Example ex_shift :
  target_matched_ranges ex_src ex_tE = map (shift 2) (target_matched_ranges ex_src ex_tX) /\
  length (target_matched_ranges ex_src ex_tX) = 3%nat.
Proof.
  destruct ex_hyps as (HA & HB & Hlx & _).
  split; [|vm_compute; reflexivity].
  exact (matched_ranges_shift ex_src 2 2 5 1 ex_SA ex_SX ex_SB HA HB Hlx).
Qed.

(* the same equation, checked by computation *)
Example ex_shift_computed :
  target_matched_ranges ex_src ex_tE =
  [ {| src_start := 0; src_end := 3; tgt_start := 2; tgt_end := 5; claimed := 3 |};
    {| src_start := 3; src_end := 6; tgt_start := 2; tgt_end := 5; claimed := 3 |};
    {| src_start := 2; src_end := 4; tgt_start := 5; tgt_end := 7; claimed := 2 |} ].
Proof. vm_compute. reflexivity. Qed.

Example ex_hits :
  hits_of (target_matched_ranges ex_src ex_tE) 8 = [0;0; 1;1;1;1;1; 0].
Proof.
  destruct ex_hyps as (HA & HB & Hlx & Hs & Ht).
  etransitivity; [exact (hits_of_embedded ex_src 2 5 1 ex_SA ex_SX ex_SB HA HB Hlx Hs Ht)|].
  vm_compute. reflexivity.
Qed.
End Example.

Print Assumptions ex_shift.
Print Assumptions ex_hits.
