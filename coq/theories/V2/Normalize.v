(* Executable model of Classifier.Normalize (v2/classifier.go): tokenisation
   in non-normalising mode (end-of-line tokens are the word [10]) followed by
   the writer that re-emits newlines from the line numbers of consecutive
   tokens.  The dictionary is the identity on words here (updateDict = true). *)
From Coq Require Import List NArith Bool.
Import ListNotations.
From LC.Base Require Import Utf8.
From LC.V2 Require Import Tok.
Local Open Scope N_scope.

Definition is_eol (w : word) : bool := match w with [c] => N.eqb c 10 | _ => false end.

(* one line break per line step ("fix:": the line number can advance without
   an end-of-line token after a word hyphenated across a line break) *)
Definition breaks (prev l : N) : list rune := repeat 10 (N.to_nat (l - prev)).

Fixpoint write_rest (toks : list (word * N)) (prev : N) : list rune :=
  match toks with
  | [] => []
  | (w, l) :: r =>
    breaks prev l
      ++ (if is_eol w then [] else (if N.eqb l prev then [32] else []) ++ w)
      ++ write_rest r l
  end.

Definition normalize_out (toks : list (word * N)) : list rune :=
  match toks with
  | [] => []
  | [(w, l)] => breaks 1 l ++ w
  | (w, l) :: r => breaks 1 l ++ (if is_eol w then [] else w) ++ write_rest r (N.max 1 l)   (* a leading EOL token is not written ("fix:") *)
  end.

Definition normalize (T : tables) (bs : list byte) : list byte :=
  encode_all (normalize_out (d_toks (tokenize_whole T false bs))).
