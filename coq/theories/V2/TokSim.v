(* Presentation-invariance theorems for the v2 tokenizer model (V2/Tok.v).

   Everything here is proved for ALL tables [T] (Unicode classes, ToLower,
   punctuation map, list markers, interchangeable words, unescape are
   arbitrary functions), under explicitly stated hypotheses on T where they
   are needed, for ALL states / inputs, in the matching mode
   [normalize = true].

   A. rune level : case folding, runs of horizontal spaces, skipped
                   decoration, typographic dashes
   B. line level : newline on a clean state, trailing blanks / CRLF, line
                   shifting (blank line insertion), ignorable notice lines
   C. word level : list-marker headers, interchangeable spellings,
                   https/http
   C4            : a small concrete table T0 showing that the hypotheses are
                   satisfiable and the expected tokens are produced.

   No axioms, no admits; stdlib only. *)
From Coq Require Import List NArith Bool Lia ZArith.
From Coq Require String Ascii.
Import String.StringSyntax.
Delimit Scope string_scope with string.
Import ListNotations.
From LC.Base Require Import Utf8.
From LC.V2 Require Import Tok.
Local Open Scope N_scope.

(* ------------------------------------------------------------------ *)
(* Comparison of documents / states modulo the ghost field             *)
(* ------------------------------------------------------------------ *)
(* Almost every result below is a FULL equality of states / documents
   (ghost field [amps] included), which implies [st_eq] / [doc_eq]
   ([eq_doc_eq]).  Only [notice_line] / [notice_insert] are modulo the ghost
   field, since the inserted notice may contain '&'. *)

Definition doc_eq (d1 d2 : doc) : Prop :=
  d_toks d1 = d_toks d2 /\ d_matches d1 = d_matches d2.

Definition st_eq (s1 s2 : tstate) : Prop :=
  obuf_rev s1 = obuf_rev s2 /\ linebuf_rev s1 = linebuf_rev s2 /\ line s1 = line s2 /\
  dEOL s1 = dEOL s2 /\ dWord s1 = dWord s2 /\
  toks_rev s1 = toks_rev s2 /\ matches_rev s1 = matches_rev s2.

Lemma tstate_ext s1 s2 :
  obuf_rev s1 = obuf_rev s2 -> linebuf_rev s1 = linebuf_rev s2 -> line s1 = line s2 ->
  dEOL s1 = dEOL s2 -> dWord s1 = dWord s2 ->
  toks_rev s1 = toks_rev s2 -> matches_rev s1 = matches_rev s2 -> amps_rev s1 = amps_rev s2 ->
  s1 = s2.
Proof. destruct s1, s2; cbn; intros; subst; reflexivity. Qed.

Lemma doc_eq_refl d : doc_eq d d.
Proof. split; reflexivity. Qed.

Lemma eq_doc_eq d1 d2 : d1 = d2 -> doc_eq d1 d2.
Proof. intros ->; apply doc_eq_refl. Qed.

(* ------------------------------------------------------------------ *)
(* Unfolding the state machine (normalize = true)                      *)
(* ------------------------------------------------------------------ *)

Definition inc_line (s : tstate) : tstate := set_line s (line s + 1).

Ltac fields :=
  cbn [obuf_rev linebuf_rev line dEOL dWord toks_rev matches_rev amps_rev
       set_bufs set_line set_flags push_tok inc_line] in *.

Lemma note_amp_obuf s : obuf_rev (note_amp s) = obuf_rev s.
Proof. unfold note_amp; destruct (existsb _ _); reflexivity. Qed.
Lemma note_amp_linebuf s : linebuf_rev (note_amp s) = linebuf_rev s.
Proof. unfold note_amp; destruct (existsb _ _); reflexivity. Qed.
Lemma note_amp_line s : line (note_amp s) = line s.
Proof. unfold note_amp; destruct (existsb _ _); reflexivity. Qed.
Lemma note_amp_dEOL s : dEOL (note_amp s) = dEOL s.
Proof. unfold note_amp; destruct (existsb _ _); reflexivity. Qed.
Lemma note_amp_dWord s : dWord (note_amp s) = dWord s.
Proof. unfold note_amp; destruct (existsb _ _); reflexivity. Qed.
Lemma note_amp_toks s : toks_rev (note_amp s) = toks_rev s.
Proof. unfold note_amp; destruct (existsb _ _); reflexivity. Qed.
Lemma note_amp_matches s : matches_rev (note_amp s) = matches_rev s.
Proof. unfold note_amp; destruct (existsb _ _); reflexivity. Qed.

Lemma atd_obuf T n s lb : obuf_rev (append_to_doc T n s lb) = obuf_rev s.
Proof. unfold append_to_doc; destruct lb; [reflexivity|]; destruct (stringify_line_buf _ _ _); reflexivity. Qed.
Lemma atd_linebuf T n s lb : linebuf_rev (append_to_doc T n s lb) = linebuf_rev s.
Proof. unfold append_to_doc; destruct lb; [reflexivity|]; destruct (stringify_line_buf _ _ _); reflexivity. Qed.
Lemma atd_line T n s lb : line (append_to_doc T n s lb) = line s.
Proof. unfold append_to_doc; destruct lb; [reflexivity|]; destruct (stringify_line_buf _ _ _); reflexivity. Qed.
Lemma atd_dEOL T n s lb : dEOL (append_to_doc T n s lb) = dEOL s.
Proof. unfold append_to_doc; destruct lb; [reflexivity|]; destruct (stringify_line_buf _ _ _); reflexivity. Qed.
Lemma atd_dWord T n s lb : dWord (append_to_doc T n s lb) = dWord s.
Proof. unfold append_to_doc; destruct lb; [reflexivity|]; destruct (stringify_line_buf _ _ _); reflexivity. Qed.
Lemma atd_amps T n s lb : amps_rev (append_to_doc T n s lb) = amps_rev s.
Proof. unfold append_to_doc; destruct lb; [reflexivity|]; destruct (stringify_line_buf _ _ _); reflexivity. Qed.

#[local] Hint Rewrite note_amp_obuf note_amp_linebuf note_amp_line note_amp_dEOL note_amp_dWord
     note_amp_toks note_amp_matches
     atd_obuf atd_linebuf atd_line atd_dEOL atd_dWord atd_amps : tokf.

(* [step] on a newline *)
Lemma step_nl T s :
  step T true s 10 =
  match obuf_rev s with
  | c :: ob' =>
    if c =? 45 then set_flags (set_bufs s ob' (linebuf_rev s)) true (dWord s)
    else inc_line (set_bufs (append_to_doc T true (note_amp s)
                                           (flush_buf T true (obuf_rev s) :: linebuf_rev s)) [] [])
  | [] => inc_line (set_bufs (append_to_doc T true s (linebuf_rev s)) [] [])
  end.
Proof.
  unfold step. change (10 =? NLr) with true. cbv iota.
  destruct (obuf_rev s) as [|c ob'] eqn:Hob.
  - destruct (linebuf_rev s) as [|w lb] eqn:Hlb.
    + cbn [append_to_doc]. unfold inc_line. fields.
      apply tstate_ext; fields; auto.
    + unfold inc_line. fields. reflexivity.
  - change HYPHEN with 45. destruct (c =? 45); [reflexivity|].
    unfold inc_line. fields. rewrite note_amp_obuf, note_amp_linebuf, Hob. reflexivity.
Qed.

(* [step] on any other rune *)
Lemma step_not_nl T s r :
  r <> 10 ->
  step T true s r =
  match obuf_rev s with
  | [] => if starts_word T r then set_bufs s [to_lower T r] (linebuf_rev s) else s
  | _ :: _ =>
    if is_space T r then
      if dEOL s then s
      else if dWord s then
             inc_line (set_flags (set_bufs (append_to_doc T true (note_amp s)
                                    (flush_buf T true (obuf_rev s) :: linebuf_rev s)) [] []) false false)
           else set_bufs (note_amp s) [] (flush_buf T true (obuf_rev s) :: linebuf_rev s)
    else
      let s1 := if dEOL s then set_flags s false true else s in
      match punct_map T r with
      | Some rep => set_bufs s1 (rev (map (to_lower T) rep) ++ obuf_rev s) (linebuf_rev s)
      | None => set_bufs s1 (to_lower T r :: obuf_rev s) (linebuf_rev s)
      end
  end.
Proof.
  intros Hr. unfold step.
  destruct (N.eqb_spec r NLr) as [E|_]; [exfalso; apply Hr; exact E|].
  destruct (obuf_rev s) as [|c ob'] eqn:Hob; [reflexivity|].
  destruct (is_space T r).
  - destruct (dEOL s) eqn:HE; [reflexivity|].
    rewrite note_amp_dWord, note_amp_obuf, note_amp_linebuf, Hob.
    destruct (dWord s); [|reflexivity].
    unfold inc_line. fields. autorewrite with tokf. rewrite HE. reflexivity.
  - destruct (dEOL s); cbv zeta; fields; rewrite ?Hob; reflexivity.
Qed.

(* ================================================================== *)
(* A. Rune-level facts                                                 *)
(* ================================================================== *)

(* A1.  Two runes that have the same lower-case image, the same class bits,
   no punctuation mapping, are not the newline and agree on being '&' / '('
   are indistinguishable for the state machine: upper and lower case letters
   (and any other case variants) drive it identically, from every state. *)
Theorem step_case_insensitive T s r r' :
  to_lower T r = to_lower T r' ->
  is_letter T r = is_letter T r' -> is_digit T r = is_digit T r' -> is_space T r = is_space T r' ->
  punct_map T r = None -> punct_map T r' = None ->
  r <> 10 -> r' <> 10 ->
  (r =? 38) = (r' =? 38) -> (r =? 40) = (r' =? 40) ->
  step T true s r = step T true s r'.
Proof.
  intros HL Hl Hd Hs Hp Hp' Hn Hn' H38 H40.
  rewrite (step_not_nl T s r Hn), (step_not_nl T s r' Hn').
  unfold starts_word. rewrite Hl, Hd, Hs, Hp, Hp', H38, H40, HL. reflexivity.
Qed.

(* two runes are "the same up to case": equal, or related as in A1 *)
Definition case_equiv (T : tables) (r r' : rune) : Prop :=
  r = r' \/
  (to_lower T r = to_lower T r' /\
   is_letter T r = is_letter T r' /\ is_digit T r = is_digit T r' /\ is_space T r = is_space T r' /\
   punct_map T r = None /\ punct_map T r' = None /\
   r <> 10 /\ r' <> 10 /\
   (r =? 38) = (r' =? 38) /\ (r =? 40) = (r' =? 40)).

Lemma step_case_equiv T s r r' : case_equiv T r r' -> step T true s r = step T true s r'.
Proof.
  intros [->|H]; [reflexivity|].
  destruct H as (?&?&?&?&?&?&?&?&?&?). now apply step_case_insensitive.
Qed.

Lemma fold_case_equiv T rs rs' :
  Forall2 (case_equiv T) rs rs' ->
  forall s, fold_left (step T true) rs s = fold_left (step T true) rs' s.
Proof.
  induction 1 as [|r r' rs rs' H _ IH]; intros s; [reflexivity|].
  cbn [fold_left]. rewrite (step_case_equiv T s r r' H). apply IH.
Qed.

(* A1, whole inputs.  Changing the case of any characters of the input (in
   the sense of [case_equiv], position by position) does not change the
   tokenization at all (tokens, lines, pseudo matches, even the ghost field). *)
Theorem tokenize_case_insensitive T rs rs' :
  Forall2 (case_equiv T) rs rs' -> tokenize_runes T true rs = tokenize_runes T true rs'.
Proof. intros H. unfold tokenize_runes. now rewrite (fold_case_equiv T rs rs' H). Qed.

(* ---------- A3 (stated first: A2 uses it) ---------- *)

(* A3.  With an empty word buffer, any rune that is not the newline and cannot
   start a word (not a letter, digit, '&' or '(') is invisible: comment and
   quote decoration such as // # * ; -- > | % and leading blanks. *)
Theorem step_skip_decoration T s r :
  obuf_rev s = [] -> r <> 10 -> starts_word T r = false -> step T true s r = s.
Proof.
  intros Hob Hr Hsw. rewrite (step_not_nl T s r Hr), Hob, Hsw. reflexivity.
Qed.

Definition decoration (T : tables) (r : rune) : Prop := r <> 10 /\ starts_word T r = false.

Lemma fold_skip_decoration T ds :
  Forall (decoration T) ds ->
  forall s, obuf_rev s = [] -> fold_left (step T true) ds s = s.
Proof.
  induction 1 as [|d ds [Hd1 Hd2] _ IH]; intros s Hob; [reflexivity|].
  cbn [fold_left]. rewrite (step_skip_decoration T s d Hob Hd1 Hd2). now apply IH.
Qed.

(* A3, whole inputs.  Inserting any list of decoration runes at a point where
   the word buffer is empty does not change the tokenization. *)
Theorem tokenize_skip_decoration T p ds q :
  obuf_rev (fold_left (step T true) p init_state) = [] ->
  Forall (decoration T) ds ->
  tokenize_runes T true (p ++ ds ++ q) = tokenize_runes T true (p ++ q).
Proof.
  intros Hob Hds. unfold tokenize_runes.
  rewrite !fold_left_app. now rewrite (fold_skip_decoration T ds Hds _ Hob).
Qed.

(* ... in particular at the very beginning of the input *)
Corollary tokenize_skip_decoration_start T ds q :
  Forall (decoration T) ds -> tokenize_runes T true (ds ++ q) = tokenize_runes T true q.
Proof. intros H. now apply (tokenize_skip_decoration T [] ds q). Qed.

(* The word buffer after a newline, exactly: it is empty unless the buffer
   ended in a hyphen (then the hyphen is dropped and the word is continued on
   the next line). *)
Theorem obuf_after_newline T s :
  obuf_rev (step T true s 10) =
  match obuf_rev s with
  | c :: ob' => if c =? 45 then ob' else []
  | [] => []
  end.
Proof.
  rewrite step_nl. destruct (obuf_rev s) as [|c ob'] eqn:Hob.
  - reflexivity.
  - destruct (c =? 45); reflexivity.
Qed.

(* the last rune of the word buffer is not a hyphen (vacuous for an empty buffer) *)
Definition no_hyphen_end (s : tstate) : Prop :=
  forall c ob', obuf_rev s = c :: ob' -> c <> 45.

Corollary obuf_after_newline_empty T s :
  no_hyphen_end s -> obuf_rev (step T true s 10) = [].
Proof.
  intros H. rewrite obuf_after_newline. destruct (obuf_rev s) as [|c ob'] eqn:Hob; [reflexivity|].
  destruct (N.eqb_spec c 45) as [E|_]; [|reflexivity]. exfalso. exact (H c ob' Hob E).
Qed.

(* ... and directly after a newline when no hyphen join is pending: decoration
   at the beginning of a line is invisible. *)
Corollary tokenize_skip_decoration_after_newline T p ds q :
  no_hyphen_end (fold_left (step T true) p init_state) ->
  Forall (decoration T) ds ->
  tokenize_runes T true (p ++ [10] ++ ds ++ q) = tokenize_runes T true (p ++ [10] ++ q).
Proof.
  intros Hh Hds.
  replace (p ++ [10] ++ ds ++ q) with ((p ++ [10]) ++ ds ++ q) by now rewrite <- app_assoc.
  replace (p ++ [10] ++ q) with ((p ++ [10]) ++ q) by now rewrite <- app_assoc.
  apply tokenize_skip_decoration; [|exact Hds].
  rewrite fold_left_app. cbn [fold_left]. now apply obuf_after_newline_empty.
Qed.

(* ---------- A2: horizontal spaces ---------- *)

(* a space that is not the newline (and, as for every sane table, is not a
   letter/digit/&/( ): blank, tab, CR, NBSP, ... *)
Definition hspace (T : tables) (x : rune) : Prop :=
  is_space T x = true /\ x <> 10 /\ starts_word T x = false.

(* A2a.  All horizontal spaces act alike, from every state. *)
Theorem step_hspace_same T s a b :
  hspace T a -> hspace T b -> step T true s a = step T true s b.
Proof.
  intros (Ha1&Ha2&Ha3) (Hb1&Hb2&Hb3).
  rewrite (step_not_nl T s a Ha2), (step_not_nl T s b Hb2), Ha1, Hb1, Ha3, Hb3. reflexivity.
Qed.

Lemma step_hspace_obuf T s a :
  hspace T a -> step T true s a = s \/ obuf_rev (step T true s a) = [].
Proof.
  intros (Ha1&Ha2&Ha3). rewrite (step_not_nl T s a Ha2), Ha1, Ha3.
  destruct (obuf_rev s) eqn:Hob; [now left|].
  destruct (dEOL s); [now left|]. right. destruct (dWord s); reflexivity.
Qed.

(* A2b.  A second horizontal space after a first one does nothing: a run of
   spaces acts like a single space. *)
Theorem step_hspace_idem T s a b :
  hspace T a -> hspace T b -> step T true (step T true s a) b = step T true s a.
Proof.
  intros Ha Hb. destruct (step_hspace_obuf T s a Ha) as [E|E].
  - rewrite E. rewrite (step_hspace_same T s b a Hb Ha). exact E.
  - destruct Hb as (_&Hb2&Hb3). now apply step_skip_decoration.
Qed.

Lemma fold_hspace T ws a :
  Forall (hspace T) ws -> hspace T a ->
  forall s, fold_left (step T true) ws (step T true s a) = step T true s a.
Proof.
  induction 1 as [|w ws Hw _ IH]; intros Ha s; [reflexivity|].
  cbn [fold_left]. rewrite (step_hspace_idem T s a w Ha Hw). now apply IH.
Qed.

(* A2c.  Any two non-empty runs of horizontal spaces have the same effect,
   from every state. *)
Theorem fold_hspace_runs T ws ws' s :
  ws <> [] -> ws' <> [] -> Forall (hspace T) ws -> Forall (hspace T) ws' ->
  fold_left (step T true) ws s = fold_left (step T true) ws' s.
Proof.
  intros Hne Hne' H H'.
  destruct ws as [|a ws]; [congruence|]. destruct ws' as [|b ws']; [congruence|].
  inversion H as [|? ? Ha Hws]; subst. inversion H' as [|? ? Hb Hws']; subst.
  cbn [fold_left]. rewrite (fold_hspace T ws a Hws Ha), (fold_hspace T ws' b Hws' Hb).
  now apply step_hspace_same.
Qed.

(* A2, whole inputs.  Replacing a non-empty run of horizontal spaces anywhere
   in the input by any other non-empty run of horizontal spaces (tabs vs
   blanks, any amount of spacing inside a line, CR before LF when CR is such a
   space) does not change the tokenization at all. *)
Theorem tokenize_hspace_runs T p ws ws' q :
  ws <> [] -> ws' <> [] -> Forall (hspace T) ws -> Forall (hspace T) ws' ->
  tokenize_runes T true (p ++ ws ++ q) = tokenize_runes T true (p ++ ws' ++ q).
Proof.
  intros. unfold tokenize_runes. rewrite !fold_left_app.
  now rewrite (fold_hspace_runs T ws ws' _ H H0 H1 H2).
Qed.

(* ---------- A4: dashes ---------- *)

(* General form: two non-newline runes that are in the same classes and have
   the same (defined) punctuation replacement drive the machine identically. *)
Lemma step_same_punct T s r r' rep :
  punct_map T r = Some rep -> punct_map T r' = Some rep ->
  is_space T r = is_space T r' -> starts_word T r = false -> starts_word T r' = false ->
  r <> 10 -> r' <> 10 ->
  step T true s r = step T true s r'.
Proof.
  intros Hp Hp' Hs Hw Hw' Hn Hn'.
  rewrite (step_not_nl T s r Hn), (step_not_nl T s r' Hn'), Hp, Hp', Hs, Hw, Hw'. reflexivity.
Qed.

(* A4.  A typographic dash that the punctuation table maps to "-" is the
   ASCII hyphen for the state machine, from every state (so also for the
   hyphen-newline word joining).  [to_lower T 45 = 45] is not even needed. *)
Theorem step_dash T s r :
  punct_map T r = Some [45] -> punct_map T 45 = Some [45] ->
  is_space T r = false -> is_space T 45 = false ->
  starts_word T r = false -> starts_word T 45 = false ->
  r <> 10 ->
  step T true s r = step T true s 45.
Proof.
  intros Hp Hp' Hs Hs' Hw Hw' Hn.
  apply (step_same_punct T s r 45 [45]); auto; try congruence; discriminate.
Qed.

Corollary tokenize_dash T p r q :
  punct_map T r = Some [45] -> punct_map T 45 = Some [45] ->
  is_space T r = false -> is_space T 45 = false ->
  starts_word T r = false -> starts_word T 45 = false ->
  r <> 10 ->
  tokenize_runes T true (p ++ r :: q) = tokenize_runes T true (p ++ 45 :: q).
Proof.
  intros. unfold tokenize_runes. rewrite !fold_left_app. cbn [fold_left].
  now rewrite (step_dash T _ r).
Qed.

(* ================================================================== *)
(* B. Line-level facts                                                 *)
(* ================================================================== *)

(* the state at the beginning of a line when no hyphen join is pending *)
Definition clean (s : tstate) : Prop :=
  obuf_rev s = [] /\ linebuf_rev s = [] /\ dEOL s = false /\ dWord s = false.

Lemma clean_init : clean init_state.
Proof. repeat split. Qed.

(* B1.  A newline on a clean state only increments the line counter. *)
Theorem newline_on_clean T s : clean s -> step T true s 10 = inc_line s.
Proof.
  intros (Hob&Hlb&_&_). rewrite step_nl, Hob, Hlb. cbn [append_to_doc].
  unfold inc_line. fields. apply tstate_ext; fields; auto.
Qed.

Lemma clean_inc_line s : clean s -> clean (inc_line s).
Proof. intros H; exact H. Qed.

(* [append_to_doc] never looks at the buffers of the state it extends *)
Lemma atd_set_bufs T n s a b lb x y :
  set_bufs (append_to_doc T n (set_bufs s a b) lb) x y = set_bufs (append_to_doc T n s lb) x y.
Proof.
  unfold append_to_doc. destruct lb; [reflexivity|].
  destruct (stringify_line_buf _ _ _); reflexivity.
Qed.

(* B2.  Blanks before a line break change nothing: with no hyphen join
   pending, a non-empty word buffer not ending in a hyphen, a horizontal space
   followed by a newline acts exactly like the newline alone (so CRLF = LF
   whenever CR is a horizontal space).  Full state equality, ghost included. *)
Theorem trailing_space_newline T s w :
  dEOL s = false -> dWord s = false -> obuf_rev s <> [] -> no_hyphen_end s -> hspace T w ->
  step T true (step T true s w) 10 = step T true s 10.
Proof.
  intros HE HW Hne Hh (Hw1&Hw2&Hw3).
  rewrite (step_not_nl T s w Hw2), Hw1, HE, HW.
  destruct (obuf_rev s) as [|c ob'] eqn:Hob; [congruence|].
  rewrite (step_nl T s), Hob.
  destruct (N.eqb_spec c 45) as [E|_]; [exfalso; exact (Hh c ob' Hob E)|].
  rewrite step_nl. fields. unfold inc_line. rewrite atd_set_bufs. reflexivity.
Qed.

(* B2, variant with an empty word buffer (any flags): the space is skipped. *)
Theorem trailing_space_newline_empty T s w :
  obuf_rev s = [] -> hspace T w ->
  step T true (step T true s w) 10 = step T true s 10.
Proof.
  intros Hob (_&Hw2&Hw3). now rewrite (step_skip_decoration T s w Hob Hw2 Hw3).
Qed.

(* B2 for a whole run of trailing blanks *)
Corollary trailing_spaces_newline T s ws :
  dEOL s = false -> dWord s = false -> no_hyphen_end s -> Forall (hspace T) ws ->
  step T true (fold_left (step T true) ws s) 10 = step T true s 10.
Proof.
  intros HE HW Hh Hws. destruct ws as [|w ws]; [reflexivity|].
  inversion Hws as [|? ? Hw Hws']; subst. cbn [fold_left].
  rewrite (fold_hspace T ws w Hws' Hw).
  destruct (obuf_rev s) eqn:Hob.
  - now apply trailing_space_newline_empty.
  - apply trailing_space_newline; auto. congruence.
Qed.

(* B2, exact side condition.  The only situation in which a blank before the
   line break matters (besides a buffer ending in a hyphen) is: non-empty word
   buffer, dEOL = false and dWord = true, i.e. the word being ended is the
   continuation of a hyphen-joined word (see [B2_needs_no_deferred_word] at
   the end of the file for a concrete witness). *)
Theorem trailing_space_newline_gen T s w :
  dEOL s = true \/ dWord s = false \/ obuf_rev s = [] ->
  no_hyphen_end s -> hspace T w ->
  step T true (step T true s w) 10 = step T true s 10.
Proof.
  intros Hc Hh Hw. destruct (obuf_rev s) as [|c ob'] eqn:Hob.
  - now apply trailing_space_newline_empty.
  - destruct (dEOL s) eqn:HE.
    + destruct Hw as (Hw1&Hw2&_). now rewrite (step_not_nl T s w Hw2), Hob, Hw1, HE.
    + destruct Hc as [Hc|[Hc|Hc]]; try discriminate.
      apply trailing_space_newline; auto. congruence.
Qed.

(* B2, whole inputs.  Any run of horizontal spaces directly before a newline
   can be deleted (trailing blanks; CRLF = LF when CR is a horizontal space),
   under the exact side condition on the state reached before the run. *)
Theorem tokenize_trailing_spaces T p ws q :
  let s := fold_left (step T true) p init_state in
  dEOL s = true \/ dWord s = false \/ obuf_rev s = [] ->
  no_hyphen_end s -> Forall (hspace T) ws ->
  tokenize_runes T true (p ++ ws ++ [10] ++ q) = tokenize_runes T true (p ++ [10] ++ q).
Proof.
  intros s Hc Hh Hws. unfold tokenize_runes. rewrite !fold_left_app. fold s.
  cbn [fold_left]. f_equal. f_equal. f_equal.
  destruct ws as [|w ws]; [reflexivity|].
  inversion Hws as [|? ? Hw Hws']; subst. cbn [fold_left].
  rewrite (fold_hspace T ws w Hws' Hw). now apply trailing_space_newline_gen.
Qed.

(* ---------- B3: line shifting ---------- *)

(* [bump k s]: s with its line counter increased by k, nothing else changed *)
Definition bump (k : N) (s : tstate) : tstate := set_line s (line s + k).

(* a token with its line increased by k *)
Definition shift_tok (k : N) : word * N -> word * N := fun '(w, l) => (w, l + k).

(* The simulation relation behind all line-shifting results.  [s'] runs k
   lines ahead of [s]: same buffers and flags, line counter + k; the tokens /
   pseudo matches / ghost entries emitted since the two runs were started
   ([post], [mpost], [a]) are the same except that the lines are shifted by k,
   and what had been emitted before ([pre]/[pre'], [mpre]/[mpre'], [a0]/[a0'])
   is untouched on both sides. *)
Record shifted (k : N) (pre pre' : list (word * N)) (mpre mpre' : list N) (a0 a0' : list word)
       (s s' : tstate) : Prop := {
  sh_obuf : obuf_rev s' = obuf_rev s;
  sh_linebuf : linebuf_rev s' = linebuf_rev s;
  sh_line : line s' = line s + k;
  sh_dEOL : dEOL s' = dEOL s;
  sh_dWord : dWord s' = dWord s;
  sh_toks : exists post, toks_rev s = post ++ pre /\ toks_rev s' = map (shift_tok k) post ++ pre';
  sh_matches : exists mpost, matches_rev s = mpost ++ mpre /\
                             matches_rev s' = map (fun l => l + k) mpost ++ mpre';
  sh_amps : exists a, amps_rev s = a ++ a0 /\ amps_rev s' = a ++ a0' }.

Section Shifted.
Variables (T : tables) (k : N) (pre pre' : list (word * N)) (mpre mpre' : list N) (a0 a0' : list word).
Notation SH := (shifted k pre pre' mpre mpre' a0 a0').

Lemma shifted_set_bufs s s' a b : SH s s' -> SH (set_bufs s a b) (set_bufs s' a b).
Proof. intros []; constructor; fields; auto. Qed.

Lemma shifted_set_flags s s' e w : SH s s' -> SH (set_flags s e w) (set_flags s' e w).
Proof. intros []; constructor; fields; auto. Qed.

Lemma shifted_inc_line s s' : SH s s' -> SH (inc_line s) (inc_line s').
Proof. intros []; constructor; fields; auto. lia. Qed.

Lemma shifted_note_amp s s' : SH s s' -> SH (note_amp s) (note_amp s').
Proof.
  intros H. unfold note_amp. rewrite (sh_obuf _ _ _ _ _ _ _ _ _ H).
  destruct (existsb _ _); [|exact H].
  destruct H as [? ? ? ? ? ? ? (a&Ha&Ha')]; constructor; fields; auto.
  exists (rev (obuf_rev s) :: a). rewrite Ha, Ha'. split; reflexivity.
Qed.

Lemma shifted_append s s' lb :
  SH s s' -> SH (append_to_doc T true s lb) (append_to_doc T true s' lb).
Proof.
  intros H. unfold append_to_doc. destruct lb as [|w lb]; [exact H|].
  destruct (stringify_line_buf T true (rev (w :: lb))) as [|ws].
  - destruct H as [? ? Hl ? ? ? (mpost&Hm&Hm') ?]; constructor; fields; auto.
    exists (line s :: mpost). rewrite Hm, Hm', Hl. split; reflexivity.
  - destruct H as [? ? Hl ? ? (post&Ht&Ht') ? ?]; constructor; fields; auto.
    exists (rev (map (fun w => (w, line s)) ws) ++ post). rewrite Ht, Ht', Hl. split.
    + now rewrite app_assoc.
    + rewrite map_app, app_assoc. f_equal. f_equal.
      rewrite map_rev, map_map. reflexivity.
Qed.

(* one rune preserves the relation *)
Lemma shifted_step s s' r : SH s s' -> SH (step T true s r) (step T true s' r).
Proof.
  intros H.
  pose proof (sh_obuf _ _ _ _ _ _ _ _ _ H) as Eob.
  pose proof (sh_linebuf _ _ _ _ _ _ _ _ _ H) as Elb.
  pose proof (sh_dEOL _ _ _ _ _ _ _ _ _ H) as EE.
  pose proof (sh_dWord _ _ _ _ _ _ _ _ _ H) as EW.
  destruct (N.eq_dec r 10) as [->|Hr].
  - rewrite !step_nl, Eob, Elb, EW.
    destruct (obuf_rev s) as [|c ob'].
    + apply shifted_inc_line, shifted_set_bufs, shifted_append, H.
    + destruct (c =? 45).
      * apply shifted_set_flags, shifted_set_bufs, H.
      * apply shifted_inc_line, shifted_set_bufs, shifted_append, shifted_note_amp, H.
  - rewrite !(step_not_nl T _ r Hr), Eob, Elb, EE, EW.
    destruct (obuf_rev s) as [|c ob'].
    + destruct (starts_word T r); [apply shifted_set_bufs|]; exact H.
    + destruct (is_space T r).
      * destruct (dEOL s); [exact H|]. destruct (dWord s).
        -- apply shifted_inc_line, shifted_set_flags, shifted_set_bufs, shifted_append,
             shifted_note_amp, H.
        -- apply shifted_set_bufs, shifted_note_amp, H.
      * cbv zeta. destruct (dEOL s); destruct (punct_map T r);
          apply shifted_set_bufs; try apply shifted_set_flags; exact H.
Qed.

Lemma shifted_fold rs : forall s s', SH s s' ->
  SH (fold_left (step T true) rs s) (fold_left (step T true) rs s').
Proof.
  induction rs as [|r rs IH]; intros s s' H; [exact H|].
  cbn [fold_left]. apply IH, shifted_step, H.
Qed.

Lemma finish_eq s :
  finish T true s =
  append_to_doc T true (note_amp s)
                (match obuf_rev s with
                 | [] => linebuf_rev s
                 | _ :: _ => flush_buf T true (obuf_rev s) :: linebuf_rev s
                 end).
Proof. unfold finish. rewrite note_amp_obuf, note_amp_linebuf. reflexivity. Qed.

Lemma shifted_finish s s' : SH s s' -> SH (finish T true s) (finish T true s').
Proof.
  intros H. rewrite !finish_eq.
  rewrite (sh_obuf _ _ _ _ _ _ _ _ _ H), (sh_linebuf _ _ _ _ _ _ _ _ _ H).
  apply shifted_append, shifted_note_amp, H.
Qed.

(* reading the relation off the final documents *)
Lemma shifted_docs s s' :
  SH s s' ->
  exists post mpost apost,
    d_toks (doc_of s) = rev pre ++ post /\
    d_toks (doc_of s') = rev pre' ++ map (shift_tok k) post /\
    d_matches (doc_of s) = rev mpre ++ mpost /\
    d_matches (doc_of s') = rev mpre' ++ map (fun l => l + k) mpost /\
    d_amps (doc_of s) = rev a0 ++ apost /\
    d_amps (doc_of s') = rev a0' ++ apost.
Proof.
  intros [_ _ _ _ _ (post&Ht&Ht') (mpost&Hm&Hm') (a&Ha&Ha')].
  exists (rev post), (rev mpost), (rev a). unfold doc_of; cbn [d_toks d_matches d_amps].
  rewrite Ht, Ht', Hm, Hm', Ha, Ha', !rev_app_distr, !map_rev. repeat split; reflexivity.
Qed.
End Shifted.

Lemma shifted_bump k s :
  shifted k (toks_rev s) (toks_rev s) (matches_rev s) (matches_rev s) (amps_rev s) (amps_rev s)
          s (bump k s).
Proof.
  constructor; unfold bump; fields; auto.
  - exists []; split; reflexivity.
  - exists []; split; reflexivity.
  - exists []; split; reflexivity.
Qed.

(* B3, step level.  Running one rune from a state whose line counter is k
   ahead gives the same buffers, flags and ghost, a line counter k ahead, and
   the NEWLY emitted tokens [nt] / pseudo matches [nm] of this step carry
   lines + k, while everything emitted earlier is untouched. *)
Theorem step_bump T k s r :
  let s1 := step T true s r in
  let s1' := step T true (bump k s) r in
  obuf_rev s1' = obuf_rev s1 /\ linebuf_rev s1' = linebuf_rev s1 /\
  dEOL s1' = dEOL s1 /\ dWord s1' = dWord s1 /\ amps_rev s1' = amps_rev s1 /\
  line s1' = line s1 + k /\
  exists nt nm,
    toks_rev s1 = nt ++ toks_rev s /\
    toks_rev s1' = map (shift_tok k) nt ++ toks_rev s /\
    matches_rev s1 = nm ++ matches_rev s /\
    matches_rev s1' = map (fun l => l + k) nm ++ matches_rev s.
Proof.
  intros s1 s1'.
  destruct (shifted_step T k _ _ _ _ _ _ s (bump k s) r (shifted_bump k s))
    as [? ? ? ? ? (nt&?&?) (nm&?&?) (a&Ha&Ha')].
  repeat split; auto.
  - fold s1 in Ha. fold s1' in Ha'. congruence.
  - exists nt, nm. auto.
Qed.

(* what a prefix of the input has emitted *)
Definition state_after (T : tables) (p : list rune) : tstate :=
  fold_left (step T true) p init_state.
Definition emitted_toks (T : tables) (p : list rune) : list (word * N) :=
  rev (toks_rev (state_after T p)).
Definition emitted_matches (T : tables) (p : list rune) : list N :=
  rev (matches_rev (state_after T p)).

Lemma tokenize_app T p q :
  tokenize_runes T true (p ++ q) =
  doc_of (finish T true (fold_left (step T true) q (state_after T p))).
Proof. unfold tokenize_runes, state_after. now rewrite fold_left_app. Qed.

Lemma fold_newlines_clean T n : forall s,
  clean s -> fold_left (step T true) (repeat 10 n) s = bump (N.of_nat n) s.
Proof.
  induction n as [|n IH]; intros s Hc.
  - cbn [repeat fold_left]. unfold bump. apply tstate_ext; fields; auto. lia.
  - cbn [repeat fold_left]. rewrite (newline_on_clean T s Hc), (IH _ (clean_inc_line s Hc)).
    unfold bump, inc_line. fields. apply tstate_ext; fields; auto. lia.
Qed.

(* B3, whole inputs, n blank lines.  If the state after the prefix p is clean
   (p = [] or p ends in a newline with nothing pending), inserting n newlines
   after p changes nothing except that every token and pseudo match emitted
   while processing q (and at the end of input) has its line increased by n.
   [emitted_toks T p] / [emitted_matches T p] are exactly what the prefix p had
   emitted; the ghost field is unchanged. *)
Theorem blank_lines_insert T p q n :
  clean (state_after T p) ->
  exists post mpost,
    d_toks (tokenize_runes T true (p ++ q)) = emitted_toks T p ++ post /\
    d_toks (tokenize_runes T true (p ++ repeat 10 n ++ q)) =
      emitted_toks T p ++ map (fun '(w, l) => (w, l + N.of_nat n)) post /\
    d_matches (tokenize_runes T true (p ++ q)) = emitted_matches T p ++ mpost /\
    d_matches (tokenize_runes T true (p ++ repeat 10 n ++ q)) =
      emitted_matches T p ++ map (fun l => l + N.of_nat n) mpost /\
    d_amps (tokenize_runes T true (p ++ repeat 10 n ++ q)) = d_amps (tokenize_runes T true (p ++ q)).
Proof.
  intros Hc. rewrite !tokenize_app, fold_left_app.
  pose proof (fold_newlines_clean T n _ Hc) as E. unfold rune in *. rewrite E. clear E.
  set (sp := state_after T p).
  pose proof (shifted_finish T _ _ _ _ _ _ _ _ _
               (shifted_fold T _ _ _ _ _ _ _ q _ _ (shifted_bump (N.of_nat n) sp))) as H.
  destruct (shifted_docs _ _ _ _ _ _ _ _ _ H) as (post&mpost&apost&E1&E2&E3&E4&E5&E6).
  exists post, mpost. unfold emitted_toks, emitted_matches. fold sp. unfold rune in *.
  rewrite E1, E2, E3, E4, E5, E6. repeat split; reflexivity.
Qed.

(* B3, whole inputs, one blank line (the statement asked for). *)
Theorem blank_line_insert T p q :
  clean (state_after T p) ->
  exists post mpost,
    d_toks (tokenize_runes T true (p ++ q)) = emitted_toks T p ++ post /\
    d_toks (tokenize_runes T true (p ++ [10] ++ q)) =
      emitted_toks T p ++ map (fun '(w, l) => (w, l + 1)) post /\
    d_matches (tokenize_runes T true (p ++ q)) = emitted_matches T p ++ mpost /\
    d_matches (tokenize_runes T true (p ++ [10] ++ q)) =
      emitted_matches T p ++ map (fun l => l + 1) mpost /\
    d_amps (tokenize_runes T true (p ++ [10] ++ q)) = d_amps (tokenize_runes T true (p ++ q)).
Proof. intros Hc. exact (blank_lines_insert T p q 1 Hc). Qed.

(* the prefix condition holds for the empty prefix ... *)
Lemma clean_after_nil T : clean (state_after T []).
Proof. exact clean_init. Qed.

(* ... and for a prefix ending in a newline with nothing pending *)
Lemma clean_step_newline T s :
  no_hyphen_end s -> dEOL s = false -> dWord s = false -> clean (step T true s 10).
Proof.
  intros Hh HE HW. rewrite step_nl. destruct (obuf_rev s) as [|c ob'] eqn:Hob.
  - unfold clean, inc_line. fields. autorewrite with tokf. auto.
  - destruct (N.eqb_spec c 45) as [E|_]; [exfalso; exact (Hh c ob' Hob E)|].
    unfold clean, inc_line. fields. autorewrite with tokf. auto.
Qed.

(* ---------- B4: ignorable notice lines ---------- *)

(* the words of the current line as a newline / end of input would flush them *)
Definition line_words (T : tables) (s : tstate) : list word :=
  rev (match obuf_rev s with
       | [] => linebuf_rev s
       | _ :: _ => flush_buf T true (obuf_rev s) :: linebuf_rev s
       end).

Lemma ignorable_nil : ignorable [] = false.
Proof. vm_compute. reflexivity. Qed.

(* B4a.  A line whose text matches one of the ignorable regular expressions
   is turned into a pseudo match, whatever its words are. *)
Theorem stringify_line_buf_ignorable T ws :
  ignorable (stringify ws) = true -> stringify_line_buf T true ws = LRMatch.
Proof. intros H. unfold stringify_line_buf. now rewrite H. Qed.

Lemma note_amp_nil s : obuf_rev s = [] -> note_amp s = s.
Proof. intros H. unfold note_amp. rewrite H. reflexivity. Qed.

(* B4b, step level.  A newline on a buffer that does not end in a hyphen
   flushes the word buffer, hands the whole line buffer to [append_to_doc],
   clears both buffers and increments the line. *)
Theorem step_nl_flush T s :
  no_hyphen_end s ->
  step T true s 10 =
  inc_line (set_bufs (append_to_doc T true (note_amp s) (rev (line_words T s))) [] []).
Proof.
  intros Hh. rewrite step_nl. unfold line_words. rewrite rev_involutive.
  destruct (obuf_rev s) as [|c ob'] eqn:Hob.
  - now rewrite (note_amp_nil s Hob).
  - destruct (N.eqb_spec c 45) as [E|_]; [exfalso; exact (Hh c ob' Hob E)|]. reflexivity.
Qed.

(* [append_to_doc] on an ignorable line: exactly one pseudo match on the
   current line, no token *)
Lemma append_to_doc_ignorable T s lb :
  ignorable (stringify (rev lb)) = true ->
  append_to_doc T true s lb =
  {| obuf_rev := obuf_rev s; linebuf_rev := linebuf_rev s; line := line s; dEOL := dEOL s;
     dWord := dWord s; toks_rev := toks_rev s; matches_rev := line s :: matches_rev s;
     amps_rev := amps_rev s |}.
Proof.
  intros H. unfold append_to_doc. destruct lb as [|w lb].
  - cbn [rev stringify] in H. rewrite ignorable_nil in H. discriminate.
  - now rewrite (stringify_line_buf_ignorable T _ H).
Qed.

(* inside a line (no newline seen, no hyphen join pending) nothing is emitted *)
Definition inline (s0 s : tstate) : Prop :=
  line s = line s0 /\ toks_rev s = toks_rev s0 /\ matches_rev s = matches_rev s0 /\
  dEOL s = false /\ dWord s = false.

Lemma inline_step T s0 s r : r <> 10 -> inline s0 s -> inline s0 (step T true s r).
Proof.
  intros Hr (Hl&Ht&Hm&HE&HW). rewrite (step_not_nl T s r Hr), HE, HW.
  destruct (obuf_rev s) as [|c ob'].
  - destruct (starts_word T r); repeat split; fields; auto.
  - destruct (is_space T r).
    + repeat split; fields; autorewrite with tokf; auto.
    + cbv zeta. destruct (punct_map T r); repeat split; fields; auto.
Qed.

Lemma inline_fold T s0 l : Forall (fun r => r <> 10) l ->
  forall s, inline s0 s -> inline s0 (fold_left (step T true) l s).
Proof.
  induction 1 as [|r l Hr _ IH]; intros s H; [exact H|].
  cbn [fold_left]. apply IH, inline_step; auto.
Qed.

(* B4c.  From a clean state, a line [l] (no newline inside) whose flushed
   words form an ignorable notice, followed by a newline, has this net effect:
   one pseudo match on the current line, no token, line + 1, clean again. *)
Theorem notice_line T s l :
  clean s -> Forall (fun r => r <> 10) l ->
  let s1 := fold_left (step T true) l s in
  no_hyphen_end s1 ->
  ignorable (stringify (line_words T s1)) = true ->
  let s2 := step T true s1 10 in
  clean s2 /\ line s2 = line s + 1 /\ toks_rev s2 = toks_rev s /\
  matches_rev s2 = line s :: matches_rev s.
Proof.
  intros (Hob&Hlb&HE&HW) Hl s1 Hh Hig s2.
  assert (Hin : inline s s1) by (apply inline_fold; [exact Hl|repeat split; auto]).
  destruct Hin as (Il&It&Im&IE&IW).
  subst s2. rewrite (step_nl_flush T s1 Hh), append_to_doc_ignorable
    by (now rewrite rev_involutive).
  unfold clean, inc_line. fields. autorewrite with tokf.
  rewrite Il, It, Im. auto 10.
Qed.

(* B4, whole inputs.  Inserting an ignorable notice line [l] + newline at a
   clean boundary (after prefix p) leaves all tokens unchanged up to the +1
   line shift of what follows, and adds exactly one Copyright pseudo match, on
   the inserted line. *)
Theorem notice_insert T p l q :
  clean (state_after T p) -> Forall (fun r => r <> 10) l ->
  no_hyphen_end (state_after T (p ++ l)) ->
  ignorable (stringify (line_words T (state_after T (p ++ l)))) = true ->
  exists post mpost,
    d_toks (tokenize_runes T true (p ++ q)) = emitted_toks T p ++ post /\
    d_toks (tokenize_runes T true (p ++ l ++ [10] ++ q)) =
      emitted_toks T p ++ map (fun '(w, l) => (w, l + 1)) post /\
    d_matches (tokenize_runes T true (p ++ q)) = emitted_matches T p ++ mpost /\
    d_matches (tokenize_runes T true (p ++ l ++ [10] ++ q)) =
      emitted_matches T p ++ [line (state_after T p)] ++ map (fun l => l + 1) mpost.
Proof.
  intros Hc Hl Hh Hig.
  unfold state_after in Hh, Hig. rewrite fold_left_app in Hh, Hig. fold (state_after T p) in Hh, Hig.
  set (sp := state_after T p) in *.
  destruct (notice_line T sp l Hc Hl Hh Hig) as ((Cob&Clb&CE&CW)&Nl&Nt&Nm).
  set (s2 := step T true (fold_left (step T true) l sp) 10) in *.
  destruct Hc as (Hob&Hlb&HE&HW).
  assert (H0 : shifted 1 (toks_rev sp) (toks_rev sp) (matches_rev sp) (line sp :: matches_rev sp)
                       (amps_rev sp) (amps_rev s2) sp s2).
  { constructor; try congruence.
    - exists []; split; [reflexivity|]. now rewrite Nt.
    - exists []; split; [reflexivity|]. now rewrite Nm.
    - exists []; split; reflexivity. }
  pose proof (shifted_finish T _ _ _ _ _ _ _ _ _ (shifted_fold T _ _ _ _ _ _ _ q _ _ H0)) as H.
  destruct (shifted_docs _ _ _ _ _ _ _ _ _ H) as (post&mpost&apost&E1&E2&E3&E4&_&_).
  exists post, mpost.
  replace (p ++ l ++ [10] ++ q) with ((p ++ l ++ [10]) ++ q) by now rewrite <- !app_assoc.
  rewrite !tokenize_app.
  assert (Es : state_after T (p ++ l ++ [10]) = s2).
  { unfold state_after. rewrite !fold_left_app. reflexivity. }
  rewrite Es. fold sp. unfold emitted_toks, emitted_matches. fold sp. unfold rune in *.
  rewrite E1, E2, E3, E4. cbn [rev]. rewrite <- !app_assoc. repeat split; reflexivity.
Qed.

(* ================================================================== *)
(* C. Word-level facts                                                 *)
(* ================================================================== *)

(* ---------- C1: list markers / headers ---------- *)

(* C1a.  A header word ("1.", "a)", "iv:" ...) in first position yields no token. *)
Theorem header_drops_marker T h n : header T h = true -> cleanup_token T true h n = [].
Proof. intros H. unfold cleanup_token. now rewrite H. Qed.

(* the loop of [clean_line] with its [first] flag made explicit *)
Fixpoint clean_go (T : tables) (normalize first : bool) (ws : list word) : list word :=
  match ws with
  | [] => []
  | w :: r => let c := cleanup_token T first w normalize in
              match c with
              | [] => clean_go T normalize false r
              | _ :: _ => c :: clean_go T normalize false r
              end
  end.

Lemma clean_line_go T n ws : clean_line T n ws = clean_go T n true ws.
Proof.
  unfold clean_line. generalize true. induction ws as [|w r IH]; intros first; [reflexivity|].
  cbn [clean_go]. rewrite <- IH. reflexivity.
Qed.

(* cleaning a line none of whose words is in first position *)
Definition clean_line_nofirst (T : tables) (ws : list word) : list word := clean_go T true false ws.

(* [clean_line] and [clean_line_nofirst] differ only in the treatment of the
   first word; the tail is always cleaned with first = false *)
Theorem clean_line_cons T w r :
  clean_line T true (w :: r) =
  match cleanup_token T true w true with
  | [] => clean_line_nofirst T r
  | c => c :: clean_line_nofirst T r
  end.
Proof.
  rewrite clean_line_go. unfold clean_line_nofirst. cbn [clean_go].
  destruct (cleanup_token T true w true); reflexivity.
Qed.

Theorem clean_line_nofirst_cons T w r :
  clean_line_nofirst T (w :: r) =
  match cleanup_token T false w true with
  | [] => clean_line_nofirst T r
  | c => c :: clean_line_nofirst T r
  end.
Proof.
  unfold clean_line_nofirst. cbn [clean_go].
  destruct (cleanup_token T false w true); reflexivity.
Qed.

(* C1b.  The marker contributes no token, and the REST of the line is cleaned
   with first = false. *)
Theorem clean_line_header T h ws :
  header T h = true -> clean_line T true (h :: ws) = clean_line_nofirst T ws.
Proof. intros H. now rewrite clean_line_cons, (header_drops_marker T h true H). Qed.

(* the position flag only matters for header words *)
Lemma cleanup_token_pos T p w n :
  header T w = false -> cleanup_token T p w n = cleanup_token T false w n.
Proof. intros H. unfold cleanup_token. now rewrite H, andb_false_r. Qed.

Lemma clean_line_nofirst_eq T ws :
  match ws with [] => True | w1 :: _ => header T w1 = false end ->
  clean_line_nofirst T ws = clean_line T true ws.
Proof.
  destruct ws as [|w1 r]; [reflexivity|]. intros H.
  now rewrite clean_line_cons, clean_line_nofirst_cons, (cleanup_token_pos T true w1 true H).
Qed.

(* C1c.  If the word after the marker is not itself a header (or there is
   none), dropping the marker does not change the cleaned line. *)
Theorem clean_line_drop_marker T h ws :
  header T h = true ->
  match ws with [] => True | w1 :: _ => header T w1 = false end ->
  clean_line T true (h :: ws) = clean_line T true ws.
Proof. intros Hh Hw. now rewrite (clean_line_header T h ws Hh), clean_line_nofirst_eq. Qed.

(* ---------- C2: interchangeable spellings ---------- *)

Lemma filter_id_hd {A} (f : A -> bool) r l : filter f (r :: l) = r :: l -> f r = true.
Proof.
  intros H. assert (In r (filter f (r :: l))) as HI by (rewrite H; now left).
  apply filter_In in HI. tauto.
Qed.

(* C2.  Two letters-only spellings k, v with k -> v in the interchangeable
   table (and v a normal form) are cleaned to the same token, v, in any
   position.  (That the first rune is a letter follows from letters-only.) *)
Theorem interchangeable_spellings T p k v :
  filter (is_letter T) k = k -> filter (is_letter T) v = v ->
  interchangeable T k = Some v -> interchangeable T v = None ->
  header T k = false -> header T v = false ->
  cleanup_token T p k true = v /\ cleanup_token T p v true = v.
Proof.
  intros Fk Fv Ik Iv Hk Hv. unfold cleanup_token. rewrite Hk, Hv, andb_false_r.
  split.
  - destruct k as [|r k'].
    + cbn [filter]. now rewrite Ik.
    + rewrite (filter_id_hd _ _ _ Fk). cbn [negb andb]. now rewrite Fk, Ik.
  - destruct v as [|r v'].
    + cbn [filter]. now rewrite Iv.
    + rewrite (filter_id_hd _ _ _ Fv). cbn [negb andb]. now rewrite Fv, Iv.
Qed.

Corollary interchangeable_spellings_eq T p k v :
  filter (is_letter T) k = k -> filter (is_letter T) v = v ->
  interchangeable T k = Some v -> interchangeable T v = None ->
  header T k = false -> header T v = false ->
  cleanup_token T p k true = cleanup_token T p v true.
Proof. intros. destruct (interchangeable_spellings T p k v) as [-> ->]; auto. Qed.

(* ---------- C3: https / http ---------- *)

Lemma replace_cons0 c r :
  replace_https_aux (c :: r) 0 =
  match prefix_rest HTTPS (c :: r) with
  | Some _ => HTTP ++ replace_https_aux r 4
  | None => c :: replace_https_aux r 0
  end.
Proof. reflexivity. Qed.

Lemma replace_consS c r k : replace_https_aux (c :: r) (S k) = replace_https_aux r k.
Proof. reflexivity. Qed.

Lemma prefix_rest_sound pat : forall l rest, prefix_rest pat l = Some rest -> l = pat ++ rest.
Proof.
  induction pat as [|p pat IH]; intros l rest H.
  - cbn in H. now inversion H.
  - destruct l as [|c l]; [discriminate|]. cbn [prefix_rest] in H.
    destruct (N.eqb_spec p c) as [->|_]; [|discriminate]. cbn [app]. f_equal. now apply IH.
Qed.

Lemma prefix_rest_complete pat : forall rest, prefix_rest pat (pat ++ rest) = Some rest.
Proof.
  induction pat as [|p pat IH]; intros rest; [reflexivity|].
  cbn [app prefix_rest]. now rewrite N.eqb_refl.
Qed.

Lemma prefix_rest_short pat : forall l, (length l < length pat)%nat -> prefix_rest pat l = None.
Proof.
  induction pat as [|p pat IH]; intros l H; [cbn in H; lia|].
  destruct l as [|c l]; [reflexivity|]. cbn [prefix_rest]. destruct (p =? c); [|reflexivity].
  apply IH. cbn in H. lia.
Qed.

Lemma prefix_rest_app pat : forall l m, (length pat <= length l)%nat ->
  prefix_rest pat (l ++ m) = option_map (fun r => r ++ m) (prefix_rest pat l).
Proof.
  induction pat as [|p pat IH]; intros l m H; [reflexivity|].
  destruct l as [|c l]; [cbn in H; lia|]. cbn [app prefix_rest].
  destruct (p =? c); [|reflexivity]. apply IH. cbn in H. lia.
Qed.

(* C3a.  Words without "https" are left alone. *)
Theorem normalize_token_id w :
  (forall a b, w <> a ++ HTTPS ++ b) -> normalize_token w = w.
Proof.
  unfold normalize_token. induction w as [|c w IH]; intros H; [reflexivity|].
  rewrite replace_cons0. destruct (prefix_rest HTTPS (c :: w)) as [rest|] eqn:E.
  - apply prefix_rest_sound in E. exfalso. exact (H [] rest E).
  - f_equal. apply IH. intros a b E'. apply (H (c :: a) b). cbn [app]. now f_equal.
Qed.

(* "https" has no border: after 1..4 arbitrary runes followed by "http" one is
   never looking at "https" *)
Lemma no_https_straddle a m :
  a <> [] -> (length a < 5)%nat -> prefix_rest HTTPS (a ++ HTTP ++ m) = None.
Proof.
  intros Hne Hlen.
  destruct a as [|c1 [|c2 [|c3 [|c4 [|c5 a]]]]]; [congruence| | | | |cbn in Hlen; lia];
    unfold HTTPS, HTTP; cbn [app prefix_rest];
    repeat match goal with
           | |- context [N.eqb ?x ?y] => destruct (N.eqb_spec x y); try congruence; try subst
           end; reflexivity.
Qed.

(* splitting lemma: if no occurrence of "https" can straddle the boundary
   between a and u, replacement distributes over a ++ u *)
Lemma replace_app u :
  (forall a, a <> [] -> (length a < 5)%nat -> prefix_rest HTTPS (a ++ u) = None) ->
  forall a skip, (skip <= length a)%nat ->
  replace_https_aux (a ++ u) skip = replace_https_aux a skip ++ replace_https_aux u 0.
Proof.
  intros Hu. induction a as [|c a IH]; intros skip Hs.
  - assert (skip = 0%nat) as -> by (cbn in Hs; lia). reflexivity.
  - destruct skip as [|k].
    + cbn [app]. rewrite !replace_cons0.
      destruct (Nat.lt_ge_cases (length (c :: a)) 5) as [Hlt|Hge].
      * change (c :: a ++ u) with ((c :: a) ++ u).
        rewrite (Hu (c :: a)) by (auto; discriminate).
        rewrite (prefix_rest_short HTTPS (c :: a)) by exact Hlt.
        cbn [app]. f_equal. apply IH. lia.
      * change (c :: a ++ u) with ((c :: a) ++ u).
        rewrite (prefix_rest_app HTTPS (c :: a) u) by exact Hge.
        destruct (prefix_rest HTTPS (c :: a)); cbn [option_map].
        -- rewrite <- app_assoc. f_equal. apply IH. cbn in Hge. lia.
        -- cbn [app]. f_equal. apply IH. lia.
    + cbn [app]. rewrite !replace_consS. apply IH. cbn in Hs. lia.
Qed.

(* C3b.  Every occurrence of "https" becomes "http" and the rest of the word is
   normalised independently (unconditional). *)
Theorem normalize_token_https a b :
  normalize_token (a ++ HTTPS ++ b) = normalize_token a ++ HTTP ++ normalize_token b.
Proof.
  unfold normalize_token.
  assert (Hu : forall a', a' <> [] -> (length a' < 5)%nat ->
                          prefix_rest HTTPS (a' ++ HTTPS ++ b) = None).
  { intros a' Hne Hlen. change (HTTPS ++ b) with (HTTP ++ 115 :: b).
    now apply no_https_straddle. }
  rewrite (replace_app (HTTPS ++ b) Hu a 0%nat (Nat.le_0_l _)). reflexivity.
Qed.

(* C3c.  A literal "http" is kept and the rest normalised independently,
   PROVIDED it is not followed by an 's' (else it is an "https"). *)
Theorem normalize_token_http a b :
  hd_error b <> Some 115 ->
  normalize_token (a ++ HTTP ++ b) = normalize_token a ++ HTTP ++ normalize_token b.
Proof.
  intros Hb. unfold normalize_token.
  assert (Hu : forall a', a' <> [] -> (length a' < 5)%nat ->
                          prefix_rest HTTPS (a' ++ HTTP ++ b) = None).
  { intros a' Hne Hlen. now apply no_https_straddle. }
  rewrite (replace_app (HTTP ++ b) Hu a 0%nat (Nat.le_0_l _)). f_equal.
  destruct b as [|c b]; [reflexivity|].
  cbn [hd_error] in Hb. unfold HTTP. cbn [app]. rewrite replace_cons0.
  unfold HTTPS at 1. cbn [prefix_rest]. rewrite !N.eqb_refl.
  destruct (N.eqb_spec 115 c) as [E|_]; [exfalso; apply Hb; now rewrite E|].
  reflexivity.
Qed.

(* C3d.  "https" and "http" spellings of a word are identified, provided the
   "http" spelling is not followed by an 's'.  No condition on the part a
   before the scheme is needed ("https" has no border, so partial overlaps
   such as "hhttps", "hthttps" are harmless). *)
Theorem normalize_token_https_http a b :
  hd_error b <> Some 115 ->
  normalize_token (a ++ HTTPS ++ b) = normalize_token (a ++ HTTP ++ b).
Proof. intros Hb. now rewrite normalize_token_https, normalize_token_http. Qed.

(* The side condition is necessary: "httpss" -> "https" but "https" -> "http". *)
Example normalize_token_https_http_counterexample :
  normalize_token ([] ++ HTTPS ++ [115]) = HTTPS /\
  normalize_token ([] ++ HTTP ++ [115]) = HTTP /\
  normalize_token ([] ++ HTTPS ++ [115]) <> normalize_token ([] ++ HTTP ++ [115]).
Proof. vm_compute. repeat split; discriminate. Qed.

(* ================================================================== *)
(* C4. Non-vacuity: a small concrete table                             *)
(* ================================================================== *)

Definition runes_of (s : String.string) : list rune :=
  map Ascii.N_of_ascii (String.list_ascii_of_string s).

Fixpoint word_eqb (a b : list N) : bool :=
  match a, b with
  | [], [] => true
  | x :: a', y :: b' => (x =? y) && word_eqb a' b'
  | _, _ => false
  end.

Definition is_upper0 (r : rune) : bool := (65 <=? r) && (r <=? 90).
Definition is_lower0 (r : rune) : bool := (97 <=? r) && (r <=? 122).

(* ASCII letters with ToLower, digits, spaces 32/9/13/10, "-" and the em dash
   U+2014 mapped to "-", list marker "a", licence -> license *)
Definition T0 : tables :=
  {| is_letter := fun r => is_upper0 r || is_lower0 r;
     is_digit := fun r => (48 <=? r) && (r <=? 57);
     is_space := fun r => (r =? 32) || (r =? 9) || (r =? 13) || (r =? 10);
     to_lower := fun r => if is_upper0 r then r + 32 else r;
     punct_map := fun r => if (r =? 45) || (r =? 8212) then Some [45] else None;
     is_list_marker := fun w => word_eqb w [97];
     interchangeable := fun w => if word_eqb w (runes_of "licence"%string)
                                 then Some (runes_of "license"%string) else None;
     unescape := fun w => w |}.

(* the runes of "The  LICENCE\r\n\n// 1. is-\nsued" *)
Definition input0 : list rune :=
  runes_of "The  LICENCE"%string ++ [13; 10; 10] ++ runes_of "// 1. is-"%string ++ [10] ++ runes_of "sued"%string.

(* two blanks, upper case, the licence/license spelling, CRLF, an empty line,
   comment decoration, a list marker and a hyphenated line break *)
Example tokenize_input0 :
  tokenize_runes T0 true input0 =
  {| d_toks := [(runes_of "the"%string, 1); (runes_of "license"%string, 1);
                (runes_of "issued"%string, 3)];
     d_matches := []; d_amps := [] |}.
Proof. vm_compute. reflexivity. Qed.

(* A1 is satisfiable non-trivially: 'L' and 'l' are case-equivalent in T0
   (second disjunct), and the whole-input theorem applies to "The LICENCE" /
   "the licence" *)
Example A1_hyps_T0 :
  to_lower T0 76 = to_lower T0 108 /\
  is_letter T0 76 = is_letter T0 108 /\ is_digit T0 76 = is_digit T0 108 /\
  is_space T0 76 = is_space T0 108 /\
  punct_map T0 76 = None /\ punct_map T0 108 = None /\
  76 <> 10 /\ 108 <> 10 /\
  (76 =? 38) = (108 =? 38) /\ (76 =? 40) = (108 =? 40).
Proof. vm_compute. repeat split; discriminate. Qed.

Example A1_instance_T0 :
  tokenize_runes T0 true (runes_of "The LICENCE"%string) =
  tokenize_runes T0 true (runes_of "the licence"%string).
Proof.
  apply tokenize_case_insensitive.
  repeat (constructor; [first [left; reflexivity
                              | right; vm_compute; repeat split; discriminate]|]).
  constructor.
Qed.

(* A2: blank, tab and CR are horizontal spaces of T0 *)
Example A2_hyps_T0 : hspace T0 32 /\ hspace T0 9 /\ hspace T0 13.
Proof. unfold hspace. vm_compute. repeat split; discriminate. Qed.

(* A3: '/', '#', '*', ';', '-', '>', '|', '%', blank are decoration in T0 *)
Example A3_hyps_T0 : Forall (decoration T0) [47; 35; 42; 59; 45; 62; 124; 37; 32].
Proof. repeat constructor; try discriminate. Qed.

(* A3: the hypothesis "word buffer empty" is needed: after a hyphenated line
   break the decoration is glued to the pending word *)
Example A3_needs_empty_buffer :
  d_toks (tokenize_runes T0 true (runes_of "is-"%string ++ [10] ++ runes_of "// sued"%string)) =
    [(runes_of "is"%string, 1); (runes_of "sued"%string, 2)] /\
  d_toks (tokenize_runes T0 true (runes_of "is-"%string ++ [10] ++ runes_of "sued"%string)) =
    [(runes_of "issued"%string, 1)].
Proof. vm_compute. split; reflexivity. Qed.

(* A4: the em dash U+2014 satisfies the hypotheses of [step_dash] in T0 *)
Example A4_hyps_T0 :
  punct_map T0 8212 = Some [45] /\ punct_map T0 45 = Some [45] /\ to_lower T0 45 = 45 /\
  is_space T0 8212 = false /\ is_space T0 45 = false /\
  starts_word T0 8212 = false /\ starts_word T0 45 = false /\ 8212 <> 10.
Proof. vm_compute. repeat split; discriminate. Qed.

(* B: the prefix "The  LICENCE\r\n" leaves a clean state, so blank lines /
   notice lines may be inserted after it *)
Example B_clean_T0 : clean (state_after T0 (runes_of "The  LICENCE"%string ++ [13; 10])).
Proof. vm_compute. repeat split. Qed.

(* B2: the hypothesis dWord = false (or dEOL = true) is needed.  After a
   hyphen-joined word that ends its line, CRLF and LF give different lines:
   with LF the deferred-word flag survives the newline, and the first word of
   the next line is flushed on its own with the old line number. *)
Example B2_needs_no_deferred_word :
  d_toks (tokenize_runes T0 true
            (runes_of "is-"%string ++ [10] ++ runes_of "sued"%string ++ [13; 10] ++
             runes_of "foo bar"%string ++ [10] ++ runes_of "baz"%string)) =
    [(runes_of "issued"%string, 1); (runes_of "foo"%string, 3); (runes_of "bar"%string, 3);
     (runes_of "baz"%string, 4)] /\
  d_toks (tokenize_runes T0 true
            (runes_of "is-"%string ++ [10] ++ runes_of "sued"%string ++ [10] ++
             runes_of "foo bar"%string ++ [10] ++ runes_of "baz"%string)) =
    [(runes_of "issued"%string, 1); (runes_of "foo"%string, 2); (runes_of "bar"%string, 3);
     (runes_of "baz"%string, 4)].
Proof. vm_compute. split; reflexivity. Qed.

(* B4: a commented copyright notice satisfies the hypotheses of
   [notice_insert] (with p = []), and is tokenized as one pseudo match *)
Definition notice0 : list rune := runes_of "// Copyright (c) 2020 Foo Inc."%string.

Example B4_hyps_T0 :
  clean (state_after T0 []) /\ Forall (fun r => r <> 10) notice0 /\
  no_hyphen_end (state_after T0 ([] ++ notice0)) /\
  ignorable (stringify (line_words T0 (state_after T0 ([] ++ notice0)))) = true.
Proof.
  split; [exact clean_init|]. split; [repeat constructor; discriminate|]. split.
  - intros c ob'. vm_compute. intros H; inversion H; discriminate.
  - vm_compute. reflexivity.
Qed.

Example B4_instance_T0 :
  tokenize_runes T0 true (notice0 ++ [10] ++ runes_of "hello"%string) =
  {| d_toks := [(runes_of "hello"%string, 2)]; d_matches := [1]; d_amps := [] |}.
Proof. vm_compute. reflexivity. Qed.

(* C1: "a." and "1." are headers of T0, "is" is not; and the caveat of C1:
   when the word after the marker is itself a header it is cleaned with
   first = false, so dropping the marker does change the line *)
Example C1_hyps_T0 :
  header T0 (runes_of "a."%string) = true /\ header T0 (runes_of "1."%string) = true /\
  header T0 (runes_of "is"%string) = false.
Proof. vm_compute. repeat split. Qed.

Example C1_second_header_T0 :
  clean_line T0 true [runes_of "a."%string; runes_of "1."%string; runes_of "x"%string] =
    [runes_of "1"%string; runes_of "x"%string] /\
  clean_line T0 true [runes_of "1."%string; runes_of "x"%string] = [runes_of "x"%string].
Proof. vm_compute. split; reflexivity. Qed.

(* C2: licence / license satisfy the hypotheses of [interchangeable_spellings] *)
Example C2_hyps_T0 :
  let k := runes_of "licence"%string in
  let v := runes_of "license"%string in
  filter (is_letter T0) k = k /\ filter (is_letter T0) v = v /\
  interchangeable T0 k = Some v /\ interchangeable T0 v = None /\
  header T0 k = false /\ header T0 v = false.
Proof. vm_compute. repeat split. Qed.

(* C3: instances *)
Example C3_instances :
  normalize_token (runes_of "https://www.apache.org/licenses/"%string) =
    runes_of "http://www.apache.org/licenses/"%string /\
  normalize_token (runes_of "hhttps"%string) = runes_of "hhttp"%string /\
  normalize_token (runes_of "httpss"%string) = runes_of "https"%string.
Proof. vm_compute. repeat split. Qed.

(* ================================================================== *)
(* Assumptions: every main theorem is closed under the global context  *)
(* ================================================================== *)
Print Assumptions step_case_insensitive.
Print Assumptions tokenize_case_insensitive.
Print Assumptions step_hspace_same.
Print Assumptions step_hspace_idem.
Print Assumptions fold_hspace_runs.
Print Assumptions tokenize_hspace_runs.
Print Assumptions step_skip_decoration.
Print Assumptions tokenize_skip_decoration.
Print Assumptions tokenize_skip_decoration_start.
Print Assumptions tokenize_skip_decoration_after_newline.
Print Assumptions obuf_after_newline.
Print Assumptions obuf_after_newline_empty.
Print Assumptions step_same_punct.
Print Assumptions step_dash.
Print Assumptions tokenize_dash.
Print Assumptions newline_on_clean.
Print Assumptions trailing_space_newline.
Print Assumptions trailing_space_newline_empty.
Print Assumptions trailing_spaces_newline.
Print Assumptions trailing_space_newline_gen.
Print Assumptions tokenize_trailing_spaces.
Print Assumptions shifted_step.
Print Assumptions step_bump.
Print Assumptions blank_lines_insert.
Print Assumptions blank_line_insert.
Print Assumptions clean_step_newline.
Print Assumptions stringify_line_buf_ignorable.
Print Assumptions step_nl_flush.
Print Assumptions notice_line.
Print Assumptions notice_insert.
Print Assumptions header_drops_marker.
Print Assumptions clean_line_cons.
Print Assumptions clean_line_header.
Print Assumptions clean_line_drop_marker.
Print Assumptions interchangeable_spellings.
Print Assumptions interchangeable_spellings_eq.
Print Assumptions normalize_token_id.
Print Assumptions normalize_token_https.
Print Assumptions normalize_token_http.
Print Assumptions normalize_token_https_http.
Print Assumptions normalize_token_https_http_counterexample.
Print Assumptions tokenize_input0.
