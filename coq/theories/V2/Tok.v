(* Executable model of v2/tokenizer.go: the rune state machine of
   tokenizeStream with flushBuf, appendToDoc/stringifyLineBuf, cleanupToken,
   header, normalizeToken and the three ignorableTexts regular expressions.
   Everything that is data in the Go source or lives in Go's standard library
   is a field of [tables]: Unicode classes and ToLower, punctuationMappings,
   listMarker, interchangeableWords, html.UnescapeString.  Words are rune
   lists; the local interning dictionary [ld] of the Go code is the identity
   on words and is elided; the corpus dictionary is a separate layer
   (V2/Dict.v), so the tokenizer yields (word, line) pairs. *)
From Coq Require Import List NArith Bool.
Import ListNotations.
From LC.Base Require Import Utf8.
Local Open Scope N_scope.

Definition word := list rune.

Record tables := {
  is_letter : rune -> bool;
  is_digit : rune -> bool;
  is_space : rune -> bool;
  to_lower : rune -> rune;
  punct_map : rune -> option (list rune);
  is_list_marker : word -> bool;
  interchangeable : word -> option word;
  unescape : word -> word
}.

Definition NLr : rune := 10.
Definition HYPHEN : rune := 45.
Definition DOT : rune := 46.

(* ---------- small string functions ---------- *)

Fixpoint prefix_rest (pat l : list rune) : option (list rune) :=
  match pat, l with
  | [], _ => Some l
  | p :: pat', c :: l' => if N.eqb p c then prefix_rest pat' l' else None
  | _ :: _, [] => None
  end.

Definition HTTPS : list rune := [104; 116; 116; 112; 115].
Definition HTTP : list rune := [104; 116; 116; 112].

(* strings.ReplaceAll(in, "https", "http"): leftmost, non-overlapping *)
Fixpoint replace_https_aux (l : list rune) (skip : nat) : list rune :=
  match l with
  | [] => []
  | c :: r =>
    match skip with
    | S k => replace_https_aux r k
    | O => match prefix_rest HTTPS l with
           | Some _ => HTTP ++ replace_https_aux r 4
           | None => c :: replace_https_aux r O
           end
    end
  end.
Definition normalize_token (w : word) : word := replace_https_aux w O.

(* flushBuf: html.UnescapeString, then ("fix:") lower-casing of what it produced when
   normalising (the buffer was lower-cased rune by rune before the escape
   sequences were resolved, so "&#65;bc" would otherwise give "Abc"), then normalizeToken *)
Definition flush_buf (T : tables) (normalize : bool) (obuf_rev : list rune) : word :=
  let u := unescape T (rev obuf_rev) in
  normalize_token (if normalize then map (to_lower T) u else u).

(* ---------- the three ignorableTexts regular expressions ---------- *)

Definition ascii_digit (c : rune) : bool := (48 <=? c) && (c <=? 57).
Definition ascii_lower (c : rune) : bool := (97 <=? c) && (c <=? 122).

(* (?i) literal: p is a pattern rune; Go folds case with unicode.SimpleFold,
   so 's' also matches U+017F and 'k' also matches U+212A *)
Definition ci_eq (p c : rune) : bool :=
  if ascii_lower p then
    N.eqb c p || N.eqb c (p - 32) || (N.eqb p 115 && N.eqb c 383) || (N.eqb p 107 && N.eqb c 8490)
  else N.eqb c p.

Fixpoint ci_prefix_rest (pat l : list rune) : option (list rune) :=
  match pat, l with
  | [], _ => Some l
  | p :: pat', c :: l' => if ci_eq p c then ci_prefix_rest pat' l' else None
  | _ :: _, [] => None
  end.

(* (?i)[a-z] *)
Definition ci_az (c : rune) : bool :=
  ascii_lower c || ((65 <=? c) && (c <=? 90)) || N.eqb c 383 || N.eqb c 8490.

Definition no_nl (l : list rune) : bool := forallb (fun c => negb (N.eqb c NLr)) l.

Definition digits_rest (n : nat) (l : list rune) : option (list rune) :=
  (fix go n l := match n with
                 | O => Some l
                 | S k => match l with c :: r => if ascii_digit c then go k r else None | [] => None end
                 end) n l.

Definition COPYRIGHT_SP : list rune := [99;111;112;121;114;105;103;104;116;32].   (* "copyright " *)
Definition PAREN_C_SP : list rune := [40;99;41;32].                                (* "(c) " *)
Definition YYYY : list rune := [91;121;121;121;121;93].                            (* "[yyyy]" *)
Definition DATES_FIRST_PUB : list rune :=                                          (* "copyright (c) [dates of first publication]" *)
  [99;111;112;121;114;105;103;104;116;32;40;99;41;32;91;100;97;116;101;115;32;111;102;32;102;105;114;115;116;32;
   112;117;98;108;105;99;97;116;105;111;110;93].

(* (\[yyyy\]|\d{4})[,.]?.*$  on the rest *)
Definition year_tail (l : list rune) : bool :=
  match ci_prefix_rest YYYY l with
  | Some r => no_nl r
  | None => match digits_rest 4 l with Some r => no_nl r | None => false end
  end.

(* copyright (\(c\) )?(\[yyyy\]|\d{4})[,.]?.*$ *)
Definition re1_body (l : list rune) : bool :=
  match ci_prefix_rest COPYRIGHT_SP l with
  | None => false
  | Some r =>
    (match ci_prefix_rest PAREN_C_SP r with Some r' => year_tail r' | None => false end)
    || year_tail r
  end.

Definition re2_body (l : list rune) : bool :=
  match ci_prefix_rest DATES_FIRST_PUB l with Some r => no_nl r | None => false end.

(* ^(.{1,5})?BODY : BODY after 0..5 leading runes none of which is a newline *)
Fixpoint with_prefix (body : list rune -> bool) (k : nat) (l : list rune) : bool :=
  body l ||
  match k with
  | O => false
  | S k' => match l with
            | c :: r => negb (N.eqb c NLr) && with_prefix body k' r
            | [] => false
            end
  end.

(* ^\d{4}-(\d{2}|[a-z]{3})-\d{2}$ *)
Definition re3 (l : list rune) : bool :=
  match digits_rest 4 l with
  | Some (h :: r) =>
    if N.eqb h HYPHEN then
      let mid :=
          match digits_rest 2 r with
          | Some r' => Some r'
          | None => match r with
                    | a :: b :: c :: r' => if ci_az a && ci_az b && ci_az c then Some r' else None
                    | _ => None
                    end
          end in
      match mid with
      | Some (h2 :: r2) => if N.eqb h2 HYPHEN
                           then match digits_rest 2 r2 with Some [] => true | _ => false end
                           else false
      | _ => false
      end
    else false
  | _ => false
  end.

Definition ignorable (l : list rune) : bool :=
  with_prefix re1_body 5 l || with_prefix re2_body 5 l || re3 l.

(* ---------- header / cleanupToken / stringifyLineBuf ---------- *)

Definition header (T : tables) (w : word) : bool :=
  match rev w with
  | [] => false
  | e :: p_rev =>
    if N.eqb e DOT || N.eqb e 58 || N.eqb e 41 then
      if is_list_marker T (map (to_lower T) (rev p_rev)) && negb (N.eqb e 41) then true   (* case-insensitive since the "fix:" for Normalize *)
      else forallb (fun r => is_digit T r || N.eqb r DOT) p_rev
    else false
  end.

Fixpoint strip_trailing_dots_rev (l_rev : list rune) : list rune :=
  match l_rev with
  | c :: r => if N.eqb c DOT then strip_trailing_dots_rev r else l_rev
  | [] => []
  end.

Definition cleanup_token (T : tables) (pos0 : bool) (w : word) (normalize : bool) : word :=
  if pos0 && header T w then []
  else
    let first_is_number :=
        match w with
        | r :: _ => negb (is_letter T r) && is_digit T r
        | [] => false
        end in
    if first_is_number then
      rev (strip_trailing_dots_rev (rev (filter (fun c => is_digit T c || N.eqb c DOT || N.eqb c HYPHEN) w)))
    else
      let tok := filter (is_letter T) w in
      if normalize then match interchangeable T tok with Some v => v | None => tok end else tok.

(* the text the regular expressions see: words joined by one space, empty
   words skipped but their separators kept as in the Go loop *)
Fixpoint stringify (ws : list word) : list rune :=
  match ws with
  | [] => []
  | [w] => w
  | w :: r => match w with
              | [] => stringify r
              | _ => w ++ [32] ++ stringify r
              end
  end.

Inductive lineres :=
| LRMatch                                 (* the line is an ignorable notice: one Copyright pseudo match *)
| LRTokens (ws : list word).              (* cleaned, non-empty words *)

Definition clean_line (T : tables) (normalize : bool) (ws : list word) : list word :=
  (fix go (first : bool) (ws : list word) :=
     match ws with
     | [] => []
     | w :: r => let c := cleanup_token T first w normalize in
                 match c with [] => go false r | _ => c :: go false r end
     end) true ws.

Definition stringify_line_buf (T : tables) (normalize : bool) (ws : list word) : lineres :=
  if ignorable (stringify ws) then LRMatch else LRTokens (clean_line T normalize ws).

(* ---------- the state machine ---------- *)

Record tstate := {
  obuf_rev : list rune;           (* word being accumulated, reversed *)
  linebuf_rev : list word;        (* flushed words of the current line, reversed *)
  line : N;
  dEOL : bool;                    (* deferredEOL *)
  dWord : bool;                   (* deferredWord *)
  toks_rev : list (word * N);     (* doc.Tokens, reversed; an end-of-line token is the word [10] *)
  matches_rev : list N;           (* lines of the Copyright pseudo matches, reversed *)
  amps_rev : list word            (* ghost: raw tokens containing '&' handed to html.UnescapeString (oracle phase 1) *)
}.

Definition init_state : tstate :=
  {| obuf_rev := []; linebuf_rev := []; line := 1; dEOL := false; dWord := false;
     toks_rev := []; matches_rev := []; amps_rev := [] |}.

(* appendToDoc with the current linebuf *)
Definition append_to_doc (T : tables) (normalize : bool) (s : tstate) (lb_rev : list word) : tstate :=
  match lb_rev with
  | [] => s
  | _ =>
    match stringify_line_buf T normalize (rev lb_rev) with
    | LRMatch =>
      {| obuf_rev := obuf_rev s; linebuf_rev := linebuf_rev s; line := line s; dEOL := dEOL s; dWord := dWord s;
         toks_rev := toks_rev s; matches_rev := line s :: matches_rev s; amps_rev := amps_rev s |}
    | LRTokens ws =>
      {| obuf_rev := obuf_rev s; linebuf_rev := linebuf_rev s; line := line s; dEOL := dEOL s; dWord := dWord s;
         toks_rev := rev (map (fun w => (w, line s)) ws) ++ toks_rev s; matches_rev := matches_rev s; amps_rev := amps_rev s |}
    end
  end.

Definition set_bufs (s : tstate) (ob : list rune) (lb : list word) : tstate :=
  {| obuf_rev := ob; linebuf_rev := lb; line := line s; dEOL := dEOL s; dWord := dWord s;
     toks_rev := toks_rev s; matches_rev := matches_rev s; amps_rev := amps_rev s |}.
Definition set_line (s : tstate) (l : N) : tstate :=
  {| obuf_rev := obuf_rev s; linebuf_rev := linebuf_rev s; line := l; dEOL := dEOL s; dWord := dWord s;
     toks_rev := toks_rev s; matches_rev := matches_rev s; amps_rev := amps_rev s |}.
Definition set_flags (s : tstate) (e w : bool) : tstate :=
  {| obuf_rev := obuf_rev s; linebuf_rev := linebuf_rev s; line := line s; dEOL := e; dWord := w;
     toks_rev := toks_rev s; matches_rev := matches_rev s; amps_rev := amps_rev s |}.
Definition push_tok (s : tstate) (t : word * N) : tstate :=
  {| obuf_rev := obuf_rev s; linebuf_rev := linebuf_rev s; line := line s; dEOL := dEOL s; dWord := dWord s;
     toks_rev := t :: toks_rev s; matches_rev := matches_rev s; amps_rev := amps_rev s |}.

Definition note_amp (s : tstate) : tstate :=
  let raw := rev (obuf_rev s) in
  if existsb (N.eqb 38) raw then
    {| obuf_rev := obuf_rev s; linebuf_rev := linebuf_rev s; line := line s; dEOL := dEOL s; dWord := dWord s;
       toks_rev := toks_rev s; matches_rev := matches_rev s; amps_rev := raw :: amps_rev s |}
  else s.

Definition starts_word (T : tables) (r : rune) : bool :=
  is_letter T r || is_digit T r || N.eqb r 38 || N.eqb r 40.

(* one decoded rune *)
Definition step (T : tables) (normalize : bool) (s : tstate) (r : rune) : tstate :=
  if N.eqb r NLr then
    match obuf_rev s with
    | c :: ob' =>
      if N.eqb c HYPHEN then set_flags (set_bufs s ob' (linebuf_rev s)) true (dWord s)
      else
        let s := note_amp s in
        let lb := flush_buf T normalize (obuf_rev s) :: linebuf_rev s in
        let s1 := append_to_doc T normalize s lb in
        let s2 := set_bufs s1 [] [] in
        let s3 := if normalize then s2 else push_tok s2 ([NLr], line s2) in
        set_line s3 (line s3 + 1)
    | [] =>
      let s1 := append_to_doc T normalize s (linebuf_rev s) in
      let s2 := match linebuf_rev s with [] => s1 | _ => set_bufs s1 [] [] end in
      let s3 := if normalize then s2 else push_tok s2 ([NLr], line s2) in
      set_line s3 (line s3 + 1)
    end
  else
    match obuf_rev s with
    | [] =>
      if starts_word T r then set_bufs s [if normalize then to_lower T r else r] (linebuf_rev s) else s
    | _ :: _ =>
      if is_space T r then
        if dEOL s then s
        else
          let s := note_amp s in
          let lb := flush_buf T normalize (obuf_rev s) :: linebuf_rev s in
          if dWord s then
            let s1 := append_to_doc T normalize s lb in
            let s2 := set_flags (set_bufs s1 [] []) (dEOL s1) false in
            set_line s2 (line s2 + 1)
          else set_bufs s [] lb
      else
        let s1 := if dEOL s then set_flags s false true else s in
        match punct_map T r with
        | Some rep => set_bufs s1 (rev (map (to_lower T) rep) ++ obuf_rev s1) (linebuf_rev s1)
        | None => set_bufs s1 (to_lower T r :: obuf_rev s1) (linebuf_rev s1)
        end
    end.

(* after the last rune *)
Definition finish (T : tables) (normalize : bool) (s : tstate) : tstate :=
  let s := note_amp s in
  let lb := match obuf_rev s with [] => linebuf_rev s | _ => flush_buf T normalize (obuf_rev s) :: linebuf_rev s end in
  append_to_doc T normalize s lb.

Record doc := { d_toks : list (word * N); d_matches : list N; d_amps : list word }.

Definition doc_of (s : tstate) : doc := {| d_toks := rev (toks_rev s); d_matches := rev (matches_rev s); d_amps := rev (amps_rev s) |}.

Definition tokenize_runes (T : tables) (normalize : bool) (rs : list rune) : doc :=
  doc_of (finish T normalize (fold_left (step T normalize) rs init_state)).

(* whole-string tokenisation: decode left to right *)
Definition tokenize_whole (T : tables) (normalize : bool) (bs : list byte) : doc :=
  tokenize_runes T normalize (decode_all bs).
