(* Invariants of the tokenizer state machine of V2/Tok.v, for ALL tables,
   both normalisation modes and ALL rune lists:

   - line accounting: with [nl rs] the number of newline runes,
       1 <= line s   and   line s + b2n (dEOL s) + b2n (dWord s) <= 1 + nl consumed
     (an inequality: a deferred increment can be lost, never invented);
   - every emitted token / Copyright pseudo match carries a line in
     [1, line s], and lines are non-decreasing in emission order;
   - emitted words are non-empty, have one of three shapes (letters only,
     digits/./- only, an [interchangeable] value) or are the end-of-line word
     [10] (non-normalising mode only), hence are space-free under explicit
     table hypotheses;
   - [tokenize_app].

   The proof goes through one abstract description of [step]
   ([step_spec]): what it may emit ([Ext]) and how it may move the line
   counter and the two deferral flags ([ctrl]).  Both invariants are then
   derived from [step_spec] without looking at [step] again. *)
From Coq Require Import List Arith NArith Bool Lia Sorted.
Import ListNotations.
From LC.Base Require Import Utf8.
From LC.V2 Require Import Tok.
Local Open Scope N_scope.

(* ---------- newline count, pending increment ---------- *)

Definition nl (rs : list rune) : N := N.of_nat (length (filter (N.eqb 10) rs)).

Definition b2n (b : bool) : N := if b then 1 else 0.

(* the deferred increment as asked for: 1 when either flag is set *)
Definition pending (s : tstate) : N := b2n (dEOL s || dWord s).

Lemma nl_nil : nl [] = 0.
Proof. reflexivity. Qed.

Lemma nl_snoc c r : nl (c ++ [r]) = nl c + (if N.eqb 10 r then 1 else 0).
Proof.
  unfold nl. rewrite filter_app, app_length, Nat2N.inj_add. f_equal.
  cbn [filter]. destruct (N.eqb 10 r); reflexivity.
Qed.

Lemma nl_app a b : nl (a ++ b) = nl a + nl b.
Proof. unfold nl. rewrite filter_app, app_length, Nat2N.inj_add. reflexivity. Qed.

(* ---------- sorted line lists ---------- *)

(* a stored (reversed) list of lines: all in [1, L], non-increasing *)
Definition LinesOK (L : N) (l : list N) : Prop :=
  Forall (fun x => 1 <= x <= L) l /\ StronglySorted (fun a b => b <= a) l.

Lemma LinesOK_nil L : LinesOK L [].
Proof. split; constructor. Qed.

Lemma LinesOK_mono L L' l : L <= L' -> LinesOK L l -> LinesOK L' l.
Proof.
  intros HL [HB HS]. split; [|exact HS].
  eapply Forall_impl; [|exact HB]. cbv beta. intros; lia.
Qed.

Lemma LinesOK_pre L pre l :
  1 <= L -> Forall (fun x => x = L) pre -> LinesOK L l -> LinesOK L (pre ++ l).
Proof.
  intros H1 Hpre Hl. induction Hpre as [|x pre Hx Hpre IH]; [exact Hl|].
  destruct IH as [HB HS]. subst x. cbn [app]. split.
  - constructor; [lia|exact HB].
  - constructor; [exact HS|].
    eapply Forall_impl; [|exact HB]. cbv beta. intros; lia.
Qed.

Lemma LinesOK_ext L L' pre l :
  1 <= L -> L <= L' -> Forall (fun x => x = L) pre -> LinesOK L l -> LinesOK L' (pre ++ l).
Proof. intros. eapply LinesOK_mono; [eassumption|]. apply LinesOK_pre; assumption. Qed.

(* reading a non-increasing list backwards gives a non-decreasing one *)
Lemma SS_rev_nth (l : list N) :
  StronglySorted (fun a b => b <= a) l ->
  forall i j a b, (i <= j)%nat ->
    nth_error (rev l) i = Some a -> nth_error (rev l) j = Some b -> a <= b.
Proof.
  induction 1 as [|x l HS IH HF]; intros i j a b Hij Ha Hb.
  - destruct i; discriminate.
  - cbn [rev] in Ha, Hb.
    destruct (Nat.lt_ge_cases j (length (rev l))) as [Hj|Hj].
    + rewrite nth_error_app1 in Ha by lia. rewrite nth_error_app1 in Hb by lia.
      exact (IH i j a b Hij Ha Hb).
    + rewrite nth_error_app2 in Hb by exact Hj.
      destruct (j - length (rev l))%nat as [|k]; [|destruct k; discriminate].
      cbn in Hb. injection Hb as <-.
      destruct (Nat.lt_ge_cases i (length (rev l))) as [Hi|Hi].
      * rewrite nth_error_app1 in Ha by exact Hi.
        apply nth_error_In, in_rev in Ha.
        rewrite Forall_forall in HF. apply HF. exact Ha.
      * rewrite nth_error_app2 in Ha by exact Hi.
        destruct (i - length (rev l))%nat as [|k]; [|destruct k; discriminate].
        cbn in Ha. injection Ha as <-. lia.
Qed.

(* ====================================================================== *)
Section Gen.
Variable T : tables.
Variable n : bool.

(* ---------- what a token word can be ---------- *)

Definition emitted_word (w : word) : Prop :=
  w <> [] /\
  ((exists first w0, w = cleanup_token T first w0 n) \/ (n = false /\ w = [NLr])).

Lemma EW_nl : n = false -> emitted_word [NLr].
Proof. intro H. split; [discriminate|]. right. split; [exact H|reflexivity]. Qed.

Lemma clean_line_emitted ws : Forall emitted_word (clean_line T n ws).
Proof.
  unfold clean_line. generalize true.
  induction ws as [|w r IH]; intro first.
  - constructor.
  - cbn. destruct (cleanup_token T first w n) eqn:E.
    + apply IH.
    + constructor; [|apply IH].
      split; [discriminate|]. left. exists first, w. symmetry. exact E.
Qed.

(* ---------- projections through the state transformers ---------- *)

Lemma line_na s : line (note_amp s) = line s.
Proof. unfold note_amp. destruct (existsb _ _); reflexivity. Qed.
Lemma dEOL_na s : dEOL (note_amp s) = dEOL s.
Proof. unfold note_amp. destruct (existsb _ _); reflexivity. Qed.
Lemma dWord_na s : dWord (note_amp s) = dWord s.
Proof. unfold note_amp. destruct (existsb _ _); reflexivity. Qed.
Lemma toks_na s : toks_rev (note_amp s) = toks_rev s.
Proof. unfold note_amp. destruct (existsb _ _); reflexivity. Qed.
Lemma ms_na s : matches_rev (note_amp s) = matches_rev s.
Proof. unfold note_amp. destruct (existsb _ _); reflexivity. Qed.

Lemma line_atd s lb : line (append_to_doc T n s lb) = line s.
Proof. unfold append_to_doc. destruct lb; [reflexivity|]. destruct (stringify_line_buf _ _ _); reflexivity. Qed.
Lemma dEOL_atd s lb : dEOL (append_to_doc T n s lb) = dEOL s.
Proof. unfold append_to_doc. destruct lb; [reflexivity|]. destruct (stringify_line_buf _ _ _); reflexivity. Qed.
Lemma dWord_atd s lb : dWord (append_to_doc T n s lb) = dWord s.
Proof. unfold append_to_doc. destruct lb; [reflexivity|]. destruct (stringify_line_buf _ _ _); reflexivity. Qed.

Hint Rewrite line_na dEOL_na dWord_na toks_na ms_na line_atd dEOL_atd dWord_atd : tokproj.

Ltac projs :=
  repeat first
    [ progress cbn [line dEOL dWord toks_rev matches_rev set_line set_bufs set_flags push_tok]
    | progress autorewrite with tokproj ].

(* ---------- emissions: [s'] extends [s] by items carrying line [L] ---------- *)

Definition Ext (L : N) (s s' : tstate) : Prop :=
  exists ws ms,
    toks_rev s' = ws ++ toks_rev s /\
    matches_rev s' = ms ++ matches_rev s /\
    Forall (fun t => snd t = L /\ emitted_word (fst t)) ws /\
    Forall (fun m => m = L) ms.

Lemma Ext_refl L s : Ext L s s.
Proof. exists [], []. repeat split; constructor. Qed.

Lemma Ext_same L s s1 s2 :
  toks_rev s2 = toks_rev s1 -> matches_rev s2 = matches_rev s1 -> Ext L s s1 -> Ext L s s2.
Proof.
  intros Ht Hm (ws & ms & H1 & H2 & H3 & H4). exists ws, ms.
  rewrite Ht, Hm. repeat split; assumption.
Qed.

Lemma Ext_set_line L s s1 l : Ext L s s1 -> Ext L s (set_line s1 l).
Proof. apply Ext_same; reflexivity. Qed.
Lemma Ext_set_bufs L s s1 ob lb : Ext L s s1 -> Ext L s (set_bufs s1 ob lb).
Proof. apply Ext_same; reflexivity. Qed.
Lemma Ext_set_flags L s s1 e w : Ext L s s1 -> Ext L s (set_flags s1 e w).
Proof. apply Ext_same; reflexivity. Qed.
Lemma Ext_note_amp L s s1 : Ext L s s1 -> Ext L s (note_amp s1).
Proof. apply Ext_same; [apply toks_na|apply ms_na]. Qed.

Lemma Ext_push L s s1 w l :
  l = L -> emitted_word w -> Ext L s s1 -> Ext L s (push_tok s1 (w, l)).
Proof.
  intros -> Hw (ws & ms & H1 & H2 & H3 & H4). exists ((w, L) :: ws), ms.
  cbn [toks_rev matches_rev push_tok]. rewrite H1. repeat split; try assumption.
  constructor; [|assumption]. split; [reflexivity|exact Hw].
Qed.

Lemma Ext_atd L s s1 lb :
  line s1 = L -> Ext L s s1 -> Ext L s (append_to_doc T n s1 lb).
Proof.
  intros HL (ws & ms & H1 & H2 & H3 & H4). unfold append_to_doc.
  destruct lb as [|w0 lb0]; [exists ws, ms; repeat split; assumption|].
  destruct (stringify_line_buf T n (rev (w0 :: lb0))) as [|cws] eqn:E.
  - exists ws, (line s1 :: ms). cbn [toks_rev matches_rev]. rewrite H2.
    repeat split; try assumption. constructor; assumption.
  - exists (rev (map (fun w => (w, line s1)) cws) ++ ws), ms.
    cbn [toks_rev matches_rev]. rewrite H1, app_assoc.
    repeat split; try assumption.
    apply Forall_app. split; [|assumption].
    apply Forall_rev. apply Forall_map. cbn [fst snd].
    unfold stringify_line_buf in E. destruct (ignorable _); [discriminate|].
    injection E as <-.
    eapply Forall_impl; [|apply clean_line_emitted].
    cbv beta. intros a Ha. split; [exact HL|exact Ha].
Qed.

(* the end-of-line token of non-normalising mode *)
Definition maybe_push (s : tstate) : tstate :=
  if n then s else push_tok s ([NLr], line s).

Lemma line_mp s : line (maybe_push s) = line s.
Proof. unfold maybe_push. destruct n; reflexivity. Qed.
Lemma dEOL_mp s : dEOL (maybe_push s) = dEOL s.
Proof. unfold maybe_push. destruct n; reflexivity. Qed.
Lemma dWord_mp s : dWord (maybe_push s) = dWord s.
Proof. unfold maybe_push. destruct n; reflexivity. Qed.

Hint Rewrite line_mp dEOL_mp dWord_mp : tokproj.

Lemma Ext_maybe_push L s s1 : line s1 = L -> Ext L s s1 -> Ext L s (maybe_push s1).
Proof.
  intros HL HE. unfold maybe_push. destruct n eqn:En; [exact HE|].
  apply Ext_push; [exact HL|exact (EW_nl En)|exact HE].
Qed.

Ltac fold_mp :=
  repeat match goal with
         | |- context [if n then ?a else push_tok ?a ?t] =>
           change (if n then a else push_tok a t) with (maybe_push a)
         end.

Ltac ext :=
  repeat first
    [ apply Ext_refl
    | apply Ext_set_line | apply Ext_set_bufs | apply Ext_set_flags | apply Ext_note_amp
    | apply Ext_maybe_push; [ projs; reflexivity | ]
    | apply Ext_atd; [ projs; reflexivity | ] ].

(* ---------- how one rune moves (line, dEOL, dWord) ---------- *)

Inductive ctrl (r : rune) (s s' : tstate) : Prop :=
| C_nl_inc :      (* an ordinary newline *)
    r = 10 -> line s' = line s + 1 -> dEOL s' = dEOL s -> dWord s' = dWord s -> ctrl r s s'
| C_nl_defer :    (* hyphen-newline: the increment is deferred (or, if dEOL was already set, lost) *)
    r = 10 -> line s' = line s -> dEOL s' = true -> dWord s' = dWord s -> ctrl r s s'
| C_word_inc :    (* the joined word is flushed by a space: the deferred increment is performed *)
    r <> 10 -> dEOL s = false -> dWord s = true ->
    line s' = line s + 1 -> dEOL s' = false -> dWord s' = false -> ctrl r s s'
| C_transfer :    (* first rune of the second half: dEOL becomes dWord (absorbing a set dWord) *)
    r <> 10 -> dEOL s = true -> line s' = line s -> dEOL s' = false -> dWord s' = true -> ctrl r s s'
| C_same :
    r <> 10 -> line s' = line s -> dEOL s' = dEOL s -> dWord s' = dWord s -> ctrl r s s'.

Ltac ctl :=
  first
    [ solve [ apply C_nl_inc; projs; auto ]
    | solve [ apply C_nl_defer; projs; auto ]
    | solve [ apply C_word_inc; projs; auto ]
    | solve [ apply C_transfer; projs; auto ]
    | solve [ apply C_same; projs; auto ] ].

Lemma step_spec s r :
  Ext (line s) s (step T n s r) /\ ctrl r s (step T n s r).
Proof.
  unfold step. cbv zeta. fold_mp.
  destruct (N.eqb r NLr) eqn:Er.
  - apply N.eqb_eq in Er. change NLr with 10 in Er.
    destruct (obuf_rev s) as [|c ob'] eqn:Eo.
    + destruct (linebuf_rev s) as [|w0 lb0]; split; try solve [ext]; ctl.
    + destruct (N.eqb c HYPHEN); [split; [solve [ext]|ctl]|].
      split; try solve [ext]; ctl.
  - apply N.eqb_neq in Er. change NLr with 10 in Er.
    destruct (obuf_rev s) as [|c ob'] eqn:Eo.
    + destruct (starts_word T r); split; try solve [ext]; ctl.
    + destruct (is_space T r).
      * destruct (dEOL s) eqn:Ee; [split; [solve [ext]|ctl]|].
        rewrite dWord_na.
        destruct (dWord s) eqn:Ew; split; try solve [ext]; ctl.
      * destruct (dEOL s) eqn:Ee; destruct (punct_map T r); split; try solve [ext]; ctl.
Qed.

Lemma finish_spec s :
  Ext (line s) s (finish T n s) /\
  line (finish T n s) = line s /\ dEOL (finish T n s) = dEOL s /\ dWord (finish T n s) = dWord s.
Proof.
  unfold finish. cbv zeta. repeat split; projs; try reflexivity. ext.
Qed.

(* ---------- 1. the line-counter invariant ---------- *)

Record Inv (consumed : list rune) (s : tstate) : Prop := {
  inv_pos : 1 <= line s;
  inv_up : line s + b2n (dEOL s) + b2n (dWord s) <= 1 + nl consumed;
  inv_toks : LinesOK (line s) (map snd (toks_rev s));
  inv_ms : LinesOK (line s) (matches_rev s)
}.

Lemma Inv_init : Inv [] init_state.
Proof.
  constructor; cbn [line dEOL dWord toks_rev matches_rev init_state b2n map].
  - lia.
  - rewrite nl_nil. lia.
  - apply LinesOK_nil.
  - apply LinesOK_nil.
Qed.

Lemma Inv_ext c c' s s' :
  Ext (line s) s s' -> line s <= line s' ->
  line s' + b2n (dEOL s') + b2n (dWord s') <= 1 + nl c' ->
  Inv c s -> Inv c' s'.
Proof.
  intros (ws & ms & H1 & H2 & H3 & H4) Hle Hup [Ipos _ Itoks Ims].
  constructor.
  - lia.
  - exact Hup.
  - rewrite H1, map_app. apply LinesOK_ext with (L := line s); try assumption.
    apply Forall_map. eapply Forall_impl; [|exact H3]. cbv beta. intros a [Ha _]; exact Ha.
  - rewrite H2. apply LinesOK_ext with (L := line s); assumption.
Qed.

Lemma step_inv c s r : Inv c s -> Inv (c ++ [r]) (step T n s r).
Proof.
  intro I. destruct (step_spec s r) as [HE HC].
  pose proof (inv_up _ _ I) as Hup.
  eapply Inv_ext; [exact HE| | |exact I].
  - destruct HC as [? Hl ? ?|? Hl ? ?|? ? ? Hl ? ?|? ? Hl ? ?|? Hl ? ?]; rewrite Hl; lia.
  - rewrite nl_snoc.
    destruct HC as [Hr Hl He Hw|Hr Hl He Hw|Hr He0 Hw0 Hl He Hw|Hr He0 Hl He Hw|Hr Hl He Hw];
      rewrite Hl, He, Hw.
    + subst r. change (N.eqb 10 10) with true. cbv iota. lia.
    + subst r. change (N.eqb 10 10) with true. cbv iota.
      destruct (dEOL s); cbn [b2n] in *; lia.
    + rewrite He0, Hw0 in Hup. cbn [b2n] in *.
      destruct (N.eqb 10 r); lia.
    + rewrite He0 in Hup. destruct (dWord s); cbn [b2n] in *; destruct (N.eqb 10 r); lia.
    + destruct (N.eqb 10 r); lia.
Qed.

Lemma finish_inv c s : Inv c s -> Inv c (finish T n s).
Proof.
  intro I. destruct (finish_spec s) as (HE & Hl & He & Hw).
  eapply Inv_ext; [exact HE| | |exact I].
  - rewrite Hl. lia.
  - rewrite Hl, He, Hw. exact (inv_up _ _ I).
Qed.

Definition run (rs : list rune) : tstate := fold_left (step T n) rs init_state.

Lemma run_snoc rs r : run (rs ++ [r]) = step T n (run rs) r.
Proof. unfold run. rewrite fold_left_app. reflexivity. Qed.

Theorem run_inv rs : Inv rs (run rs).
Proof.
  induction rs as [|r rs IH] using rev_ind.
  - exact Inv_init.
  - rewrite run_snoc. apply step_inv. exact IH.
Qed.

(* the invariant from an arbitrary intermediate state, for later use *)
Lemma fold_inv b : forall a s, Inv a s -> Inv (a ++ b) (fold_left (step T n) b s).
Proof.
  induction b as [|r b IH]; intros a s I.
  - rewrite app_nil_r. exact I.
  - cbn [fold_left]. replace (a ++ r :: b) with ((a ++ [r]) ++ b) by (rewrite <- app_assoc; reflexivity).
    apply IH. apply step_inv. exact I.
Qed.

(* (a) *)
Theorem line_pos rs : 1 <= line (run rs).
Proof. exact (inv_pos _ _ (run_inv rs)). Qed.

(* (b) tightest form: each flag holds at most one newline *)
Theorem line_flags_bound rs :
  line (run rs) + b2n (dEOL (run rs)) + b2n (dWord (run rs)) <= 1 + nl rs.
Proof. exact (inv_up _ _ (run_inv rs)). Qed.

(* (b) with the single pending increment *)
Theorem line_pending_bound rs : line (run rs) + pending (run rs) <= 1 + nl rs.
Proof.
  pose proof (line_flags_bound rs). unfold pending.
  destruct (dEOL (run rs)), (dWord (run rs)); cbn [b2n orb] in *; lia.
Qed.

(* (b) simple corollary: no line number beyond the end of the input *)
Theorem line_le rs : line (run rs) <= 1 + nl rs.
Proof. pose proof (line_pending_bound rs). lia. Qed.

(* (c) *)
Theorem state_tok_lines rs :
  Forall (fun t => 1 <= snd t <= line (run rs)) (toks_rev (run rs)).
Proof. apply Forall_map with (f := snd) (P := fun x => 1 <= x <= line (run rs)). exact (proj1 (inv_toks _ _ (run_inv rs))). Qed.

Theorem state_match_lines rs :
  Forall (fun m => 1 <= m <= line (run rs)) (matches_rev (run rs)).
Proof. exact (proj1 (inv_ms _ _ (run_inv rs))). Qed.

(* (d), on the stored lists *)
Theorem state_tok_sorted rs :
  StronglySorted (fun a b => b <= a) (map snd (toks_rev (run rs))).
Proof. exact (proj2 (inv_toks _ _ (run_inv rs))). Qed.

Theorem state_match_sorted rs :
  StronglySorted (fun a b => b <= a) (matches_rev (run rs)).
Proof. exact (proj2 (inv_ms _ _ (run_inv rs))). Qed.

(* ---------- 2. whole-document corollaries ---------- *)

Definition fin (rs : list rune) : tstate := finish T n (run rs).

Lemma tokenize_fin rs : tokenize_runes T n rs = doc_of (fin rs).
Proof. reflexivity. Qed.

Lemma fin_inv rs : Inv rs (fin rs).
Proof. apply finish_inv, run_inv. Qed.

Lemma fin_line rs : line (fin rs) = line (run rs).
Proof. exact (proj1 (proj2 (finish_spec (run rs)))). Qed.

(* the final line counter: what every reported line is bounded by *)
Definition final_line (rs : list rune) : N := line (run rs).

Theorem final_line_bounds rs : 1 <= final_line rs <= 1 + nl rs.
Proof. split; [apply line_pos|apply line_le]. Qed.

Theorem doc_tok_lines_final rs :
  Forall (fun t => 1 <= snd t <= final_line rs) (d_toks (tokenize_runes T n rs)).
Proof.
  rewrite tokenize_fin. cbn [d_toks doc_of]. apply Forall_rev.
  unfold final_line. rewrite <- fin_line.
  apply Forall_map with (f := snd) (P := fun x => 1 <= x <= line (fin rs)).
  exact (proj1 (inv_toks _ _ (fin_inv rs))).
Qed.

Theorem doc_match_lines_final rs :
  Forall (fun m => 1 <= m <= final_line rs) (d_matches (tokenize_runes T n rs)).
Proof.
  rewrite tokenize_fin. cbn [d_matches doc_of]. apply Forall_rev.
  unfold final_line. rewrite <- fin_line.
  exact (proj1 (inv_ms _ _ (fin_inv rs))).
Qed.

Theorem doc_tok_lines rs :
  Forall (fun t => 1 <= snd t <= 1 + nl rs) (d_toks (tokenize_runes T n rs)).
Proof.
  eapply Forall_impl; [|apply doc_tok_lines_final]. cbv beta.
  intros a Ha. pose proof (final_line_bounds rs). lia.
Qed.

Theorem doc_match_lines rs :
  Forall (fun m => 1 <= m <= 1 + nl rs) (d_matches (tokenize_runes T n rs)).
Proof.
  eapply Forall_impl; [|apply doc_match_lines_final]. cbv beta.
  intros a Ha. pose proof (final_line_bounds rs). lia.
Qed.

Theorem doc_tok_sorted rs :
  forall i j a b, (i <= j)%nat ->
    nth_error (d_toks (tokenize_runes T n rs)) i = Some a ->
    nth_error (d_toks (tokenize_runes T n rs)) j = Some b ->
    snd a <= snd b.
Proof.
  intros i j a b Hij Ha Hb. rewrite tokenize_fin in Ha, Hb. cbn [d_toks doc_of] in Ha, Hb.
  apply (map_nth_error snd) in Ha. apply (map_nth_error snd) in Hb.
  rewrite map_rev in Ha, Hb.
  eapply SS_rev_nth; [exact (proj2 (inv_toks _ _ (fin_inv rs)))|exact Hij|exact Ha|exact Hb].
Qed.

Theorem doc_match_sorted rs :
  forall i j a b, (i <= j)%nat ->
    nth_error (d_matches (tokenize_runes T n rs)) i = Some a ->
    nth_error (d_matches (tokenize_runes T n rs)) j = Some b ->
    a <= b.
Proof.
  intros i j a b Hij Ha Hb. rewrite tokenize_fin in Ha, Hb. cbn [d_matches doc_of] in Ha, Hb.
  eapply SS_rev_nth; [exact (proj2 (inv_ms _ _ (fin_inv rs)))|exact Hij|exact Ha|exact Hb].
Qed.

(* the last token carries the maximal line (TotalInputLines) *)
Theorem doc_last_tok_max rs :
  forall t dflt, In t (d_toks (tokenize_runes T n rs)) ->
    snd t <= snd (last (d_toks (tokenize_runes T n rs)) dflt) /\
    snd (last (d_toks (tokenize_runes T n rs)) dflt) <= 1 + nl rs.
Proof.
  intros t dflt Hin.
  pose proof (doc_tok_lines rs) as HB.
  rewrite tokenize_fin in *. cbn [d_toks doc_of] in *.
  pose proof (proj2 (inv_toks _ _ (fin_inv rs))) as HS.
  destruct (toks_rev (fin rs)) as [|x l]; [destruct Hin|].
  cbn [rev] in *. rewrite last_last. split.
  - apply in_app_or in Hin. destruct Hin as [Hin|[<-|[]]]; [|lia].
    cbn [map] in HS. apply StronglySorted_inv in HS. destruct HS as [_ HF].
    rewrite Forall_forall in HF. apply HF. apply in_map. apply in_rev. exact Hin.
  - rewrite Forall_forall in HB. apply HB. apply in_or_app. right. left. reflexivity.
Qed.

Corollary doc_tok_le_last_le_bound rs t dflt :
  In t (d_toks (tokenize_runes T n rs)) ->
  1 <= snd t /\ snd t <= snd (last (d_toks (tokenize_runes T n rs)) dflt) /\
  snd (last (d_toks (tokenize_runes T n rs)) dflt) <= 1 + nl rs.
Proof.
  intro Hin. destruct (doc_last_tok_max rs t dflt Hin) as [H1 H2].
  pose proof (doc_tok_lines rs) as HB. rewrite Forall_forall in HB. specialize (HB _ Hin).
  repeat split; [lia|exact H1|exact H2].
Qed.

(* ---------- 3. words ---------- *)

Definition WInv (s : tstate) : Prop := Forall (fun t : word * N => emitted_word (fst t)) (toks_rev s).

Lemma WInv_ext L s s' : Ext L s s' -> WInv s -> WInv s'.
Proof.
  intros (ws & ms & H1 & _ & H3 & _) HW. unfold WInv. rewrite H1.
  apply Forall_app. split; [|exact HW].
  eapply Forall_impl; [|exact H3]. cbv beta. intros a [_ Ha]; exact Ha.
Qed.

Lemma run_winv rs : WInv (run rs).
Proof.
  induction rs as [|r rs IH] using rev_ind.
  - constructor.
  - rewrite run_snoc. eapply WInv_ext; [apply (proj1 (step_spec _ _))|exact IH].
Qed.

Lemma fin_winv rs : WInv (fin rs).
Proof. eapply WInv_ext; [apply (proj1 (finish_spec _))|apply run_winv]. Qed.

Theorem doc_words_emitted rs :
  Forall (fun t : word * N => emitted_word (fst t)) (d_toks (tokenize_runes T n rs)).
Proof. rewrite tokenize_fin. cbn [d_toks doc_of]. apply Forall_rev. apply fin_winv. Qed.

(* both modes: words are non-empty *)
Theorem doc_words_nonempty rs :
  Forall (fun t : word * N => fst t <> []) (d_toks (tokenize_runes T n rs)).
Proof.
  eapply Forall_impl; [|apply doc_words_emitted]. cbv beta. intros a [Ha _]; exact Ha.
Qed.

(* the shape of a cleaned word *)
Definition numchar (c : rune) : bool := is_digit T c || N.eqb c DOT || N.eqb c HYPHEN.

Definition word_shape (w : word) : Prop :=
  Forall (fun c => is_letter T c = true) w \/
  Forall (fun c => numchar c = true) w \/
  (n = true /\ exists k, interchangeable T k = Some w).

Lemma strip_incl l : forall x, In x (strip_trailing_dots_rev l) -> In x l.
Proof.
  induction l as [|c r IH]; intros x Hx; [exact Hx|].
  cbn [strip_trailing_dots_rev] in Hx. destruct (N.eqb c DOT); [right; apply IH; exact Hx|exact Hx].
Qed.

Lemma cleanup_shape first w : word_shape (cleanup_token T first w n).
Proof.
  unfold cleanup_token.
  destruct (first && header T w); [left; constructor|].
  match goal with |- context [if ?b then _ else _] => destruct b end.
  - right. left. apply Forall_forall. intros x Hx.
    apply in_rev, strip_incl, in_rev, filter_In in Hx. exact (proj2 Hx).
  - assert (HL : Forall (fun c => is_letter T c = true) (filter (is_letter T) w)).
    { apply Forall_forall. intros x Hx. apply filter_In in Hx. exact (proj2 Hx). }
    destruct n eqn:En; [|left; exact HL].
    destruct (interchangeable T (filter (is_letter T) w)) as [v|] eqn:Ei; [|left; exact HL].
    right. right. split; [exact En|]. eexists. exact Ei.
Qed.

Theorem doc_words_shape rs :
  Forall (fun t : word * N => fst t <> [] /\ (word_shape (fst t) \/ (n = false /\ fst t = [NLr])))
         (d_toks (tokenize_runes T n rs)).
Proof.
  eapply Forall_impl; [|apply doc_words_emitted]. cbv beta.
  intros a [Hne [(f & w0 & E)|H]]; (split; [exact Hne|]).
  - left. rewrite E. apply cleanup_shape.
  - right. exact H.
Qed.

(* table hypotheses for space-freeness *)
Definition space_not_word_char : Prop := is_letter T 32 = false /\ is_digit T 32 = false.
Definition interchangeable_space_free : Prop :=
  forall k v, interchangeable T k = Some v -> ~ In 32 v.

Lemma shape_space_free w :
  space_not_word_char -> (n = true -> interchangeable_space_free) ->
  word_shape w -> ~ In 32 w.
Proof.
  intros [HL HD] HI [H|[H|[Hn [k Hk]]]] Hin.
  - rewrite Forall_forall in H. apply H in Hin. congruence.
  - rewrite Forall_forall in H. apply H in Hin. unfold numchar in Hin.
    rewrite HD in Hin. vm_compute in Hin. discriminate.
  - exact (HI Hn k w Hk Hin).
Qed.

(* any mode: a token is the end-of-line word or space-free *)
Theorem doc_words_space_free_gen rs :
  space_not_word_char -> (n = true -> interchangeable_space_free) ->
  Forall (fun t : word * N => (n = false /\ fst t = [NLr]) \/ ~ In 32 (fst t))
         (d_toks (tokenize_runes T n rs)).
Proof.
  intros H1 H2. eapply Forall_impl; [|apply doc_words_shape]. cbv beta.
  intros a [_ [Hs|He]]; [right; apply shape_space_free; assumption|left; exact He].
Qed.

(* ---------- 4. tokenize_app ---------- *)

Lemma tokenize_app a b :
  tokenize_runes T n (a ++ b) =
  doc_of (finish T n (fold_left (step T n) b (fold_left (step T n) a init_state))).
Proof. unfold tokenize_runes. rewrite fold_left_app. reflexivity. Qed.

End Gen.

(* ---------- mode-specific statements ---------- *)

(* matching mode: words are space-free *)
Theorem doc_words_space_free T rs :
  is_letter T 32 = false -> is_digit T 32 = false ->
  (forall k v, interchangeable T k = Some v -> ~ In 32 v) ->
  Forall (fun t : word * N => ~ In 32 (fst t)) (d_toks (tokenize_runes T true rs)).
Proof.
  intros HL HD HI.
  eapply Forall_impl; [|apply (doc_words_space_free_gen T true rs (conj HL HD) (fun _ => HI))].
  cbv beta. intros a [[Hf _]|H]; [discriminate|exact H].
Qed.

(* non-normalising mode: a token is exactly the end-of-line word [10], or a
   space-free cleaned word (no hypothesis on [interchangeable], it is unused) *)
Theorem doc_words_raw_mode T rs :
  is_letter T 32 = false -> is_digit T 32 = false ->
  Forall (fun t : word * N => fst t = [10] \/ ~ In 32 (fst t)) (d_toks (tokenize_runes T false rs)).
Proof.
  intros HL HD.
  eapply Forall_impl;
    [|apply (doc_words_space_free_gen T false rs (conj HL HD))].
  - cbv beta. intros a [[_ H]|H]; [left; exact H|right; exact H].
  - discriminate.
Qed.

(* matching mode never emits an end-of-line token unless a cleaned word happens
   to be [10]: every token word is a cleanup_token result *)
Theorem doc_words_matching_mode T rs :
  Forall (fun t : word * N => fst t <> [] /\ exists first w0, fst t = cleanup_token T first w0 true)
         (d_toks (tokenize_runes T true rs)).
Proof.
  eapply Forall_impl; [|apply (doc_words_emitted T true rs)]. cbv beta.
  intros a [Hne [H|[Hf _]]]; [split; assumption|discriminate].
Qed.

(* ---------- concrete tables and non-vacuity ---------- *)

Definition T0 : tables := {|
  is_letter := fun c => ((97 <=? c) && (c <=? 122)) || ((65 <=? c) && (c <=? 90));
  is_digit := fun c => (48 <=? c) && (c <=? 57);
  is_space := fun c => N.eqb c 32 || N.eqb c 9 || N.eqb c 13 || N.eqb c 10;
  to_lower := fun c => if (65 <=? c) && (c <=? 90) then c + 32 else c;
  punct_map := fun c => if N.eqb c 45 then Some [45] else None;
  is_list_marker := fun _ => false;
  interchangeable := fun _ => None;
  unescape := fun w => w
|}.

Lemma T0_ok :
  is_letter T0 32 = false /\ is_digit T0 32 = false /\
  (forall k v, interchangeable T0 k = Some v -> ~ In 32 v).
Proof. repeat split; try reflexivity. intros k v H; discriminate. Qed.

(* "a-\n\nb c d\ne" *)
Definition ex1 : list rune := [97;45;10;10;98;32;99;32;100;10;101].

Example ex1_nl : nl ex1 = 3.
Proof. vm_compute. reflexivity. Qed.

(* matching mode: the hyphen-newline sets dEOL, the second newline flushes "a"
   on line 1 and increments, dEOL survives, the space after "b" is swallowed,
   "bc" is flushed on line 2 with the deferred increment, "e" is on line 4 = 1 + nl *)
Example ex1_norm :
  d_toks (tokenize_runes T0 true ex1) = [([97], 1); ([98;99], 2); ([100], 3); ([101], 4)].
Proof. vm_compute. reflexivity. Qed.

Example ex1_raw :
  d_toks (tokenize_runes T0 false ex1) =
  [([97], 1); ([10], 1); ([98;99], 2); ([100], 3); ([10], 3); ([101], 4)].
Proof. vm_compute. reflexivity. Qed.

(* the relation is an inequality, not an equation: "a--\n\n" loses a newline
   (two hyphen-newlines, one flag), ... *)
Definition ex2 : list rune := [97;45;45;10;10].
Example ex2_state :
  let s := run T0 true ex2 in
  (line s, dEOL s, dWord s, nl ex2) = (1, true, false, 2).
Proof. vm_compute. reflexivity. Qed.

(* ... and so does a second hyphen-newline while dWord is still set:
   "a-\nb-\nc d" ends with line 2 although there are two newlines *)
Definition ex3 : list rune := [97;45;10;98;45;10;99;32;100].
Example ex3_state :
  let s := run T0 true ex3 in
  (line s, dEOL s, dWord s, nl ex3) = (2, false, false, 2).
Proof. vm_compute. reflexivity. Qed.
Example ex3_doc :
  d_toks (tokenize_runes T0 true ex3) = [([97;98;99], 1); ([100], 2)].
Proof. vm_compute. reflexivity. Qed.

(* a deferred increment that is never performed: "a-\nb" at end of input *)
Definition ex4 : list rune := [97;45;10;98].
Example ex4_state :
  let s := run T0 true ex4 in
  (line s, dEOL s, dWord s, nl ex4) = (1, false, true, 1).
Proof. vm_compute. reflexivity. Qed.

(* both flags set at once: "a-\nb-\n" *)
Definition ex5 : list rune := [97;45;10;98;45;10].
Example ex5_state :
  let s := run T0 true ex5 in
  (line s, dEOL s, dWord s, nl ex5) = (1, true, true, 2).
Proof. vm_compute. reflexivity. Qed.

(* a Copyright pseudo match: "x\ncopyright 2020 y\nz" *)
Definition ex6 : list rune :=
  [120;10;99;111;112;121;114;105;103;104;116;32;50;48;50;48;32;121;10;122].
Example ex6_doc :
  let d := tokenize_runes T0 true ex6 in
  (d_toks d, d_matches d) = ([([120], 1); ([122], 3)], [2]).
Proof. vm_compute. reflexivity. Qed.

(* the theorems instantiated *)
Example ex1_lines_bounded :
  Forall (fun t => 1 <= snd t <= 4) (d_toks (tokenize_runes T0 true ex1)).
Proof. exact (doc_tok_lines T0 true ex1). Qed.

Example ex1_space_free :
  Forall (fun t => ~ In 32 (fst t)) (d_toks (tokenize_runes T0 true ex1)).
Proof.
  destruct T0_ok as (HL & HD & HI). exact (doc_words_space_free T0 ex1 HL HD HI).
Qed.

Print Assumptions run_inv.
Print Assumptions line_flags_bound.
Print Assumptions line_pending_bound.
Print Assumptions line_le.
Print Assumptions state_tok_lines.
Print Assumptions state_match_lines.
Print Assumptions doc_tok_lines.
Print Assumptions doc_match_lines.
Print Assumptions doc_tok_sorted.
Print Assumptions doc_match_sorted.
Print Assumptions doc_last_tok_max.
Print Assumptions doc_tok_le_last_le_bound.
Print Assumptions doc_words_nonempty.
Print Assumptions doc_words_shape.
Print Assumptions doc_words_space_free.
Print Assumptions doc_words_raw_mode.
Print Assumptions doc_words_matching_mode.
Print Assumptions tokenize_app.
