(* Model of the result assembly of v2/tools/identify_license: per-file Match
   results (the library is a parameter) appended to a shared list by a pool of
   goroutines in ANY interleaving, header filtering, sorting by
   LicenseTypes.Less, exit status, and readFileLines (bufio.ScanLines
   semantics) for -include_text.  Process plumbing, flag parsing, logging and
   the JSON encoder are not modelled. *)
From Coq Require Import List NArith ZArith Bool Permutation Sorting.Sorted.
Import ListNotations.
From LC.Base Require Import Sort Float64.
Local Open Scope Z_scope.

Definition str := list N.

Record lic := {                (* results.LicenseType *)
  l_file : str; l_name : str; l_type : str; l_variant : str;
  l_conf : f64; l_sl : Z; l_el : Z
}.

Definition HEADER : str := [72;101;97;100;101;114]%N.

Fixpoint str_eqb (a b : str) : bool :=
  match a, b with
  | [], [] => true
  | x :: a', y :: b' => (N.eqb x y) && str_eqb a' b'
  | _, _ => false
  end.
Fixpoint str_ltb (a b : str) : bool :=
  match a, b with
  | _, [] => false
  | [], _ :: _ => true
  | x :: a', y :: b' => (N.ltb x y) || (N.eqb x y && str_ltb a' b')
  end.

(* classifyLicense: the entries one file contributes *)
Definition file_entries (headers : bool) (ms : list lic) : list lic :=
  filter (fun m => headers || negb (str_eqb (l_type m) HEADER)) ms.

(* LicenseTypes.Less *)
Definition lic_less (a b : lic) : bool :=
  if flt (l_conf b) (l_conf a) then true
  else if flt (l_conf a) (l_conf b) then false
  else if str_ltb (l_file a) (l_file b) then true
  else if str_ltb (l_file b) (l_file a) then false
  else (l_el a <? l_el b).

(* [arrival]: the shared result list in the order the goroutines appended to it:
   any interleaving of the per-file entry lists *)
Definition printed (arrival : list lic) : list lic := sort lic_less arrival.
Definition exit_status (arrival : list lic) : Z := match arrival with [] => 1 | _ => 0 end.

(* the multiset of printed results is the union of the per-file entries,
   whatever the interleaving and the number of tasks *)
Theorem printed_is_union : forall headers (per_file : list (list lic)) arrival,
  Permutation arrival (concat (map (file_entries headers) per_file)) ->
  Permutation (printed arrival) (concat (map (file_entries headers) per_file)).
Proof.
  intros headers per_file arrival H. unfold printed.
  eapply Permutation_trans; [|exact H].
  (* sort is a permutation (Base/SortProof.sort_perm; re-proved here by the same induction to keep this file self-contained) *)
  assert (Hm : forall fuel a b, Permutation (merge lic_less fuel a b) (a ++ b)).
  { induction fuel as [|f IH]; intros a b; simpl; [reflexivity|].
    destruct a as [|x a']; [reflexivity|]. destruct b as [|y b']; [rewrite app_nil_r; reflexivity|].
    destruct (lic_less y x).
    - eapply Permutation_trans; [apply perm_skip, IH|]. change (Permutation (y :: (x :: a') ++ b') ((x :: a') ++ y :: b')).
      apply Permutation_middle.
    - simpl. apply perm_skip, IH. }
  assert (Hs : forall fuel l, Permutation (msort lic_less fuel l) l).
  { induction fuel as [|f IH]; intros l; simpl; [reflexivity|].
    destruct l as [|x [|y r]]; try reflexivity.
    eapply Permutation_trans; [apply Hm|].
    eapply Permutation_trans; [apply Permutation_app; apply IH|]. rewrite firstn_skipn. reflexivity. }
  apply Hs.
Qed.

Theorem exit_zero_iff_reported : forall arrival, exit_status arrival = 0 <-> printed arrival <> [].
Proof.
  intros arrival. unfold exit_status. destruct arrival as [|x r]; split; intro H; try discriminate; try reflexivity.
  - exfalso. apply H. reflexivity.
  - intro E. assert (P : Permutation (printed (x :: r)) (x :: r)).
    { apply (printed_is_union true [[x :: r]] (x :: r)) || idtac.
      unfold printed.
      assert (Hm : forall fuel a b, Permutation (merge lic_less fuel a b) (a ++ b)).
      { induction fuel as [|f IH]; intros a b; simpl; [reflexivity|].
        destruct a as [|x0 a']; [reflexivity|]. destruct b as [|y b']; [rewrite app_nil_r; reflexivity|].
        destruct (lic_less y x0).
        - eapply Permutation_trans; [apply perm_skip, IH|]. change (Permutation (y :: (x0 :: a') ++ b') ((x0 :: a') ++ y :: b')).
          apply Permutation_middle.
        - simpl. apply perm_skip, IH. }
      assert (Hs : forall fuel l, Permutation (msort lic_less fuel l) l).
      { induction fuel as [|f IH]; intros l; simpl; [reflexivity|].
        destruct l as [|x0 [|y r0]]; try reflexivity.
        eapply Permutation_trans; [apply Hm|].
        eapply Permutation_trans; [apply Permutation_app; apply IH|]. rewrite firstn_skipn. reflexivity. }
      apply Hs. }
    rewrite E in P. apply Permutation_nil in P. discriminate.
Qed.

(* ---------- readFileLines ---------- *)
(* bufio.ScanLines: lines end at \n, a trailing \r is dropped, the last line may lack the terminator *)
Fixpoint scan_lines (b : list N) (cur_rev : list N) : list (list N) :=
  match b with
  | [] => match cur_rev with [] => [] | _ => [rev (match cur_rev with 13%N :: r => r | _ => cur_rev end)] end
  | c :: r => if N.eqb c 10 then rev (match cur_rev with 13%N :: r' => r' | _ => cur_rev end) :: scan_lines r []
              else scan_lines r (c :: cur_rev)
  end.

(* [limit]: Some n = lines of n or more bytes make the scanner fail (the 64 KiB
   default as found); None = no limit (buffer sized by the file) *)
Definition read_file_lines (limit : option nat) (b : list N) (sl el : Z) : option (list N) :=
  let ls := scan_lines b [] in
  (* the scanner stops at the first over-long line *)
  let fix usable (l : list (list N)) : list (list N) :=
      match l with
      | [] => []
      | x :: r => match limit with
                  | Some n => if Nat.leb n (length x) then [] else x :: usable r
                  | None => x :: usable r
                  end
      end in
  let ls := usable ls in
  if Z.of_nat (length ls) <? el then None       (* "line %d was the last line read ... but endLine was set to %d" *)
  else Some (concat (map (fun l => l ++ [10%N])
                         (firstn (Z.to_nat (el - sl + 1)) (skipn (Z.to_nat (sl - 1)) ls)))).
