(* Executable model of internal/sets/stringset.go and
   stringclassifier/internal/sets/intset.go (the two files are the same
   algorithm over different element types).  Elements are [N]; a Go map-backed
   set is its key list (duplicate free, in some order that is never observed
   except through Elements, which callers may only use as a multiset, and
   Sorted).  The model keeps the algorithmic shape of the Go code: smaller-side
   iteration in Intersect/Disjoint, Copy-then-insert in Union, two Differences
   in Unique, length test in Equal.  Sets live in a store addressed by handles
   so that aliasing and in-place mutation (Insert/Delete) are explicit. *)
From Coq Require Import List NArith Bool Arith.
Import ListNotations.

Definition set := list N.

Definition mem (x : N) (s : set) : bool := existsb (N.eqb x) s.
Definition insert1 (s : set) (x : N) : set := if mem x s then s else s ++ [x].
Definition insert (s : set) (xs : list N) : set := fold_left insert1 xs s.
Definition delete1 (s : set) (x : N) : set := filter (fun y => negb (N.eqb x y)) s.
Definition delete (s : set) (xs : list N) : set := fold_left delete1 xs s.

(* Copy: nil receiver gives the empty set. *)
Definition copy (s : option set) : set :=
  match s with None => [] | Some s => fold_left insert1 s [] end.

Definition smaller_first (s o : set) : set * set :=
  if Nat.ltb (length o) (length s) then (o, s) else (s, o).

Definition intersect (s : set) (o : option set) : set :=
  match o with
  | None => []
  | Some o => let '(a, b) := smaller_first s o in
              fold_left (fun acc e => if mem e b then insert1 acc e else acc) a []
  end.

Definition disjoint (s : set) (o : option set) : bool :=
  match o with
  | None => true
  | Some o =>
    if (Nat.eqb (length o) 0 || Nat.eqb (length s) 0)%bool then true
    else let '(a, b) := smaller_first s o in
         negb (existsb (fun e => mem e b) a)
  end.

Definition difference (s : set) (o : option set) : set :=
  match o with
  | None => copy (Some s)
  | Some o => fold_left (fun acc e => if mem e o then acc else insert1 acc e) s []
  end.

Definition unique (s : set) (o : option set) : set :=
  match o with
  | None => copy (Some s)
  | Some o => fold_left insert1 (difference o (Some s)) (difference s (Some o))
  end.

Definition equal (s o : option set) : bool :=
  match s, o with
  | None, None => true
  | Some s, Some o =>
    if Nat.eqb (length s) (length o) then forallb (fun e => mem e o) s else false
  | _, _ => false
  end.

Definition union (s : set) (o : option set) : set :=
  fold_left insert1 (match o with None => [] | Some o => o end) (copy (Some s)).

(* ---- handle store and operation alphabet ---- *)

Inductive op :=
| ONew (xs : list N)
| OInsert (h : nat) (xs : list N)
| ODelete (h : nat) (xs : list N)
| OCopy (h : option nat)
| OIntersect (h : nat) (o : option nat)
| ODisjoint (h : nat) (o : option nat)
| ODifference (h : nat) (o : option nat)
| OUnique (h : nat) (o : option nat)
| OEqual (h : option nat) (o : option nat)
| OUnion (h : nat) (o : option nat)
| OContains (h : nat) (x : N)
| OLen (h : nat)
| OElements (h : nat).

Inductive out :=
| RNone                (* no result (Insert/Delete) *)
| RHandle (h : nat)    (* a freshly allocated set *)
| RBool (b : bool)
| RNat (n : nat)
| RElems (l : list N)  (* Elements(): compared as a multiset / via Sorted *)
| RErr.                (* dangling handle: the harness never produces it *)

Definition store := list set.

Definition get (st : store) (h : nat) : option set := nth_error st h.

Definition geto (st : store) (h : option nat) : option (option set) :=
  match h with
  | None => Some None
  | Some h => match get st h with Some s => Some (Some s) | None => None end
  end.

Fixpoint set_nth (st : store) (h : nat) (s : set) : store :=
  match st, h with
  | [], _ => []
  | _ :: r, O => s :: r
  | x :: r, S h => x :: set_nth r h s
  end.

Definition alloc (st : store) (s : set) : store * out := (st ++ [s], RHandle (length st)).

Definition with2 (st : store) (h : nat) (o : option nat)
           (f : set -> option set -> store * out) : store * out :=
  match get st h, geto st o with
  | Some s, Some o => f s o
  | _, _ => (st, RErr)
  end.

Definition step (st : store) (o : op) : store * out :=
  match o with
  | ONew xs => alloc st (insert [] xs)
  | OInsert h xs =>
    match get st h with Some s => (set_nth st h (insert s xs), RNone) | None => (st, RErr) end
  | ODelete h xs =>
    match get st h with Some s => (set_nth st h (delete s xs), RNone) | None => (st, RErr) end
  | OCopy h =>
    match geto st h with Some s => alloc st (copy s) | None => (st, RErr) end
  | OIntersect h o => with2 st h o (fun s o => alloc st (intersect s o))
  | ODisjoint h o => with2 st h o (fun s o => (st, RBool (disjoint s o)))
  | ODifference h o => with2 st h o (fun s o => alloc st (difference s o))
  | OUnique h o => with2 st h o (fun s o => alloc st (unique s o))
  | OEqual h o =>
    match geto st h, geto st o with
    | Some s, Some o => (st, RBool (equal s o))
    | _, _ => (st, RErr)
    end
  | OUnion h o => with2 st h o (fun s o => alloc st (union s o))
  | OContains h x =>
    match get st h with Some s => (st, RBool (mem x s)) | None => (st, RErr) end
  | OLen h =>
    match get st h with Some s => (st, RNat (length s)) | None => (st, RErr) end
  | OElements h =>
    match get st h with Some s => (st, RElems s) | None => (st, RErr) end
  end.

Fixpoint run (st : store) (ops : list op) : store * list out :=
  match ops with
  | [] => (st, [])
  | o :: r => let '(st1, x) := step st o in
              let '(st2, xs) := run st1 r in (st2, x :: xs)
  end.
