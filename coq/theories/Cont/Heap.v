(* Executable model of stringclassifier/internal/pq/priority.go on top of a
   transliteration of container/heap (Go standard library: up, down, Push,
   Pop, Remove, Fix).  Elements are (id, priority) pairs; the comparator is
   [less x y := prio x < prio y], a strict weak order induced by a total
   preorder, which is how every user in the repository builds one.  The
   setIndex callback is modelled as a log [idx] : id -> last reported index.
   Every out-of-range array access of the Go code is [None]. *)
From Coq Require Import List NArith ZArith Bool Arith.
Import ListNotations.

Definition elem := (N * Z)%type.            (* id, priority *)
Definition ident (x : elem) : N := fst x.
Definition prio (x : elem) : Z := snd x.
Definition less (x y : elem) : bool := Z.ltb (prio x) (prio y).

Record heap := { arr : list elem; idx : list (N * nat) }.

Fixpoint lookup (k : N) (l : list (N * nat)) : option nat :=
  match l with
  | [] => None
  | (k', v) :: r => if N.eqb k k' then Some v else lookup k r
  end.

Definition set_index (ix : list (N * nat)) (x : elem) (i : nat) : list (N * nat) :=
  (ident x, i) :: ix.

Fixpoint upd (l : list elem) (i : nat) (x : elem) : list elem :=
  match l, i with
  | [], _ => []
  | _ :: r, O => x :: r
  | y :: r, S i => y :: upd r i x
  end.

(* pqHeap.Swap: h.a[i], h.a[j] = h.a[j], h.a[i]; setIndex(h.a[i], i); setIndex(h.a[j], j) *)
Definition swap (h : heap) (i j : nat) : option heap :=
  match nth_error (arr h) i, nth_error (arr h) j with
  | Some x, Some y =>
    Some {| arr := upd (upd (arr h) i y) j x;
            idx := set_index (set_index (idx h) y i) x j |}
  | _, _ => None
  end.

(* pqHeap.Less *)
Definition lessi (h : heap) (i j : nat) : option bool :=
  match nth_error (arr h) i, nth_error (arr h) j with
  | Some x, Some y => Some (less x y)
  | _, _ => None
  end.

Definition parent (j : nat) : nat := (j - 1) / 2.   (* Go: (j-1)/2, and -1/2 = 0 *)

(* container/heap.up *)
Fixpoint up (fuel : nat) (h : heap) (j : nat) : option heap :=
  match fuel with
  | O => None
  | S f =>
    let i := parent j in
    if Nat.eqb i j then Some h
    else match lessi h j i with
         | None => None
         | Some false => Some h
         | Some true => match swap h i j with None => None | Some h' => up f h' i end
         end
  end.

(* container/heap.down; returns the heap and whether the element moved *)
Fixpoint down_loop (fuel : nat) (h : heap) (i n : nat) : option (heap * nat) :=
  match fuel with
  | O => None
  | S f =>
    let j1 := 2 * i + 1 in
    if Nat.leb n j1 then Some (h, i)
    else
      let j2 := j1 + 1 in
      match (if Nat.ltb j2 n then lessi h j2 j1 else Some false) with
      | None => None
      | Some c =>
        let j := if c then j2 else j1 in
        match lessi h j i with
        | None => None
        | Some false => Some (h, i)
        | Some true => match swap h i j with None => None | Some h' => down_loop f h' j n end
        end
      end
  end.

Definition down (h : heap) (i0 n : nat) : option (heap * bool) :=
  match down_loop (S (length (arr h))) h i0 n with
  | None => None
  | Some (h', i) => Some (h', Nat.ltb i0 i)
  end.

Definition up' (h : heap) (j : nat) : option heap := up (S (length (arr h))) h j.

(* pqHeap.Push + heap.Push *)
Definition push (h : heap) (x : elem) : option heap :=
  let n := length (arr h) in
  let h1 := {| arr := arr h ++ [x]; idx := set_index (idx h) x n |} in
  up' h1 n.

(* pqHeap.Pop: drop and return the last element *)
Definition pop_last (h : heap) : option (elem * heap) :=
  match rev (arr h) with
  | [] => None
  | x :: r => Some (x, {| arr := rev r; idx := idx h |})
  end.

(* heap.Pop *)
Definition pop (h : heap) : option (elem * heap) :=
  match length (arr h) with
  | O => None                                   (* Go: index out of range panic *)
  | S n =>
    match swap h 0 n with
    | None => None
    | Some h1 => match down h1 0 n with
                 | None => None
                 | Some (h2, _) => pop_last h2
                 end
    end
  end.

(* heap.Remove *)
Definition remove (h : heap) (i : nat) : option (elem * heap) :=
  match length (arr h) with
  | O => None
  | S n =>
    if Nat.eqb n i then pop_last h
    else match swap h i n with
         | None => None
         | Some h1 =>
           match down h1 i n with
           | None => None
           | Some (h2, true) => pop_last h2
           | Some (h2, false) => match up' h2 i with None => None | Some h3 => pop_last h3 end
           end
         end
  end.

(* heap.Fix *)
Definition fix_ (h : heap) (i : nat) : option heap :=
  match down h i (length (arr h)) with
  | None => None
  | Some (h1, true) => Some h1
  | Some (h1, false) => up' h1 i
  end.

Definition min (h : heap) : option elem := nth_error (arr h) 0.

(* ---- operation alphabet used by the harness: elements are addressed by id,
   Fix/Remove go through the index the queue reported via setIndex, exactly as
   a client of the package has to do ---- *)
Inductive op :=
| OPush (id : N) (p : Z)
| OPop
| OFix (id : N) (p : Z)      (* change the priority of element id, then Fix(index(id)) *)
| ORemove (id : N)           (* Remove(index(id)) *)
| OMin
| OLen.

Inductive out :=
| RUnit | RElem (x : elem) | RLen (n : nat) | RErr.

Definition set_prio (l : list elem) (i : nat) (p : Z) : option (list elem) :=
  match nth_error l i with
  | Some x => Some (upd l i (ident x, p))
  | None => None
  end.

Definition step (h : heap) (o : op) : heap * out :=
  match o with
  | OPush id p => match push h (id, p) with Some h' => (h', RUnit) | None => (h, RErr) end
  | OPop => match pop h with Some (x, h') => (h', RElem x) | None => (h, RErr) end
  | OFix id p =>
    match lookup id (idx h) with
    | None => (h, RErr)
    | Some i =>
      match set_prio (arr h) i p with
      | None => (h, RErr)
      | Some a => match fix_ {| arr := a; idx := idx h |} i with
                  | Some h' => (h', RUnit) | None => (h, RErr) end
      end
    end
  | ORemove id =>
    match lookup id (idx h) with
    | None => (h, RErr)
    | Some i => match remove h i with Some (x, h') => (h', RElem x) | None => (h, RErr) end
    end
  | OMin => match min h with Some x => (h, RElem x) | None => (h, RErr) end
  | OLen => (h, RLen (length (arr h)))
  end.

Fixpoint run (h : heap) (ops : list op) : heap * list out :=
  match ops with
  | [] => (h, [])
  | o :: r => let '(h1, x) := step h o in
              let '(h2, xs) := run h1 r in (h2, x :: xs)
  end.

Definition empty : heap := {| arr := []; idx := [] |}.
