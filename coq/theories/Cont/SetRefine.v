(* Refinement of the handle-store model of the Go sets (SetImpl.v) to the
   mathematical finite sets [gset N] of std++.  std++ style file. *)
From stdpp Require Import gmap sets fin_sets.
From LC.Cont Require Import SetImpl.

Local Open Scope nat_scope.

Notation aset := (gset N).
Definition abs (s : set) : aset := list_to_set s.

(* ---------- element-level facts about the implementation ---------- *)

Lemma mem_spec x s : mem x s = true ↔ x ∈ s.
Proof.
  unfold mem. rewrite List.existsb_exists. split.
  - intros (y & Hy & Heq). apply N.eqb_eq in Heq. subst. by apply elem_of_list_In.
  - intros Hx. exists x. split; [by apply elem_of_list_In | apply N.eqb_refl].
Qed.

Lemma mem_false x s : mem x s = false ↔ x ∉ s.
Proof. rewrite <- mem_spec. destruct (mem x s); naive_solver. Qed.

Lemma insert1_elem s x y : y ∈ insert1 s x ↔ y = x ∨ y ∈ s.
Proof.
  unfold insert1. destruct (mem x s) eqn:E.
  - apply mem_spec in E. naive_solver.
  - rewrite elem_of_app, elem_of_list_singleton. naive_solver.
Qed.

Lemma insert1_nodup s x : NoDup s → NoDup (insert1 s x).
Proof.
  unfold insert1. intros H. destruct (mem x s) eqn:E; [done|].
  apply mem_false in E. apply NoDup_app. split_and!; [done| |apply NoDup_singleton].
  intros y Hy Hy'. apply elem_of_list_singleton in Hy'. by subst.
Qed.

Lemma insert_elem xs : ∀ s y, y ∈ insert s xs ↔ y ∈ xs ∨ y ∈ s.
Proof.
  unfold insert. induction xs as [|x xs IH]; intros s y; simpl.
  - rewrite elem_of_nil. naive_solver.
  - rewrite IH, insert1_elem, elem_of_cons. naive_solver.
Qed.

Lemma insert_nodup xs : ∀ s, NoDup s → NoDup (insert s xs).
Proof.
  unfold insert. induction xs as [|x xs IH]; intros s H; simpl; [done|].
  apply IH. by apply insert1_nodup.
Qed.

Lemma delete1_elem s x y : y ∈ delete1 s x ↔ y ≠ x ∧ y ∈ s.
Proof.
  unfold delete1. rewrite elem_of_list_In, List.filter_In, <- elem_of_list_In.
  rewrite negb_true_iff, N.eqb_neq. naive_solver.
Qed.

Lemma filter_nodup {A} (f : A → bool) (l : list A) : NoDup l → NoDup (List.filter f l).
Proof.
  induction 1 as [|x l Hx Hl IH]; simpl; [constructor|].
  destruct (f x); [|done]. constructor; [|done].
  rewrite elem_of_list_In, List.filter_In, <- elem_of_list_In. naive_solver.
Qed.

Lemma delete1_nodup s x : NoDup s → NoDup (delete1 s x).
Proof. apply filter_nodup. Qed.

Lemma delete_elem xs : ∀ s y, y ∈ delete s xs ↔ y ∉ xs ∧ y ∈ s.
Proof.
  unfold delete. induction xs as [|x xs IH]; intros s y; simpl.
  - rewrite elem_of_nil. naive_solver.
  - rewrite IH, delete1_elem, not_elem_of_cons. naive_solver.
Qed.

Lemma delete_nodup xs : ∀ s, NoDup s → NoDup (delete s xs).
Proof.
  unfold delete. induction xs as [|x xs IH]; intros s H; simpl; [done|].
  apply IH. by apply delete1_nodup.
Qed.

(* generic conditional-insert fold used by Intersect and Difference *)
Lemma fold_cond_elem (p : N → bool) l : ∀ acc y,
  y ∈ fold_left (λ acc e, if p e then insert1 acc e else acc) l acc
  ↔ (y ∈ l ∧ p y = true) ∨ y ∈ acc.
Proof.
  induction l as [|x l IH]; intros acc y; simpl.
  - rewrite elem_of_nil. naive_solver.
  - rewrite IH, elem_of_cons. destruct (p x) eqn:E.
    + rewrite insert1_elem. naive_solver.
    + split; [naive_solver|]. intros [[[->|?] Hp]|?]; [congruence|naive_solver..].
Qed.

Lemma fold_cond_nodup (p : N → bool) l : ∀ acc, NoDup acc →
  NoDup (fold_left (λ acc e, if p e then insert1 acc e else acc) l acc).
Proof.
  induction l as [|x l IH]; intros acc H; simpl; [done|].
  apply IH. destruct (p x); [by apply insert1_nodup|done].
Qed.

Lemma copy_elem s y : y ∈ copy s ↔ match s with None => False | Some s => y ∈ s end.
Proof.
  destruct s as [s|]; simpl; [|by rewrite elem_of_nil].
  change (fold_left insert1 s []) with (insert [] s).
  rewrite insert_elem, elem_of_nil. naive_solver.
Qed.

Lemma copy_nodup s : NoDup (copy s).
Proof.
  destruct s as [s|]; simpl; [|constructor].
  change (fold_left insert1 s []) with (insert [] s). apply insert_nodup. constructor.
Qed.

Lemma smaller_first_cases s o :
  smaller_first s o = (s, o) ∨ smaller_first s o = (o, s).
Proof. unfold smaller_first. destruct (_ <? _)%nat; auto. Qed.

Lemma intersect_elem s o y :
  y ∈ intersect s o ↔ match o with None => False | Some o => y ∈ s ∧ y ∈ o end.
Proof.
  destruct o as [o|]; simpl; [|by rewrite elem_of_nil].
  destruct (smaller_first_cases s o) as [-> | ->];
    rewrite (fold_cond_elem (λ e, mem e _)), mem_spec, elem_of_nil; naive_solver.
Qed.

Lemma intersect_nodup s o : NoDup (intersect s o).
Proof.
  destruct o as [o|]; simpl; [|constructor].
  destruct (smaller_first s o) as [a b].
  apply (fold_cond_nodup (λ e, mem e b)). constructor.
Qed.

Lemma existsb_mem a b : existsb (λ e, mem e b) a = true ↔ ∃ y, y ∈ a ∧ y ∈ b.
Proof.
  rewrite List.existsb_exists. setoid_rewrite mem_spec.
  by setoid_rewrite <- elem_of_list_In.
Qed.

Lemma disjoint_spec s o :
  disjoint s o = true ↔ match o with None => True | Some o => ∀ y, y ∈ s → y ∈ o → False end.
Proof.
  destruct o as [o|]; simpl; [|done].
  destruct (length o =? 0) eqn:Eo; simpl.
  { apply Nat.eqb_eq in Eo. destruct o; [|done]. split; [|done]. intros _ y _ H. by apply elem_of_nil in H. }
  destruct (length s =? 0) eqn:Es; simpl.
  { apply Nat.eqb_eq in Es. destruct s; [|done]. split; [|done]. intros _ y H. by apply elem_of_nil in H. }
  destruct (smaller_first_cases s o) as [-> | ->];
    rewrite negb_true_iff, <- not_true_iff_false, existsb_mem; naive_solver.
Qed.

Lemma difference_elem s o y :
  y ∈ difference s o ↔ y ∈ s ∧ match o with None => True | Some o => y ∉ o end.
Proof.
  destruct o as [o|]; simpl.
  - change (y ∈ fold_left (λ acc e, if negb (mem e o) then insert1 acc e else acc) s [] ↔ y ∈ s ∧ y ∉ o)
      || idtac.
    assert (H : ∀ l acc,
      fold_left (λ acc e, if mem e o then acc else insert1 acc e) l acc
      = fold_left (λ acc e, if negb (mem e o) then insert1 acc e else acc) l acc).
    { induction l as [|x l IH]; intros acc; simpl; [done|]. rewrite IH. by destruct (mem x o). }
    rewrite H, (fold_cond_elem (λ e, negb (mem e o))), negb_true_iff, mem_false, elem_of_nil.
    naive_solver.
  - change (fold_left insert1 s []) with (copy (Some s)). rewrite copy_elem. naive_solver.
Qed.

Lemma difference_nodup s o : NoDup (difference s o).
Proof.
  destruct o as [o|]; [|apply (copy_nodup (Some s))]. simpl.
  assert (H : ∀ l acc, NoDup acc →
    NoDup (fold_left (λ acc e, if mem e o then acc else insert1 acc e) l acc)).
  { induction l as [|x l IH]; intros acc Hacc; simpl; [done|].
    apply IH. destruct (mem x o); [done|by apply insert1_nodup]. }
  apply H. constructor.
Qed.

Lemma unique_elem s o y :
  y ∈ unique s o ↔
  match o with None => y ∈ s | Some o => (y ∈ s ∧ y ∉ o) ∨ (y ∈ o ∧ y ∉ s) end.
Proof.
  destruct o as [o|]; unfold unique.
  - change (fold_left insert1 ?l ?a) with (insert a l).
    rewrite insert_elem, !difference_elem. naive_solver.
  - change (fold_left insert1 s []) with (copy (Some s)). by rewrite copy_elem.
Qed.

Lemma unique_nodup s o : NoDup (unique s o).
Proof.
  destruct o as [o|]; [|apply (copy_nodup (Some s))]. unfold unique.
  change (fold_left insert1 ?l ?a) with (insert a l). apply insert_nodup, difference_nodup.
Qed.

Lemma union_elem s o y :
  y ∈ union s o ↔ y ∈ s ∨ match o with None => False | Some o => y ∈ o end.
Proof.
  unfold union. change (fold_left insert1 ?l ?a) with (insert a l).
  rewrite insert_elem, copy_elem. destruct o; [naive_solver|]. rewrite elem_of_nil. naive_solver.
Qed.

Lemma union_nodup s o : NoDup (union s o).
Proof.
  unfold union. change (fold_left insert1 ?l ?a) with (insert a l).
  apply insert_nodup, copy_nodup.
Qed.

Lemma forallb_mem a b : forallb (λ e, mem e b) a = true ↔ ∀ y, y ∈ a → y ∈ b.
Proof.
  rewrite List.forallb_forall. setoid_rewrite mem_spec.
  by setoid_rewrite <- elem_of_list_In.
Qed.

(* The only place where cardinality reasoning is needed: equal lengths and
   inclusion of duplicate-free lists give equality as sets. *)
Lemma equal_spec s o : NoDup s → NoDup o →
  equal (Some s) (Some o) = true ↔ abs s = abs o.
Proof.
  intros Hs Ho. unfold equal, abs. destruct (length s =? length o) eqn:E.
  - apply Nat.eqb_eq in E. rewrite forallb_mem. split.
    + intros Hsub. apply set_eq. intros x. rewrite !elem_of_list_to_set. split; [apply Hsub|].
      intros Hx. destruct (decide (x ∈ s)) as [|Hn]; [done|exfalso].
      assert (Hlen : length (x :: s) ≤ length o).
      { apply submseteq_length, NoDup_submseteq.
        - by constructor.
        - intros z [->|Hz]%elem_of_cons; auto. }
      simpl in Hlen. lia.
    + intros Heq y Hy. apply (elem_of_list_to_set (C := aset)). rewrite <- Heq.
      by apply elem_of_list_to_set.
  - apply Nat.eqb_neq in E. split; [done|]. intros Heq. exfalso. apply E.
    rewrite <- (size_list_to_set (C := aset) s), <- (size_list_to_set (C := aset) o) by done.
    by rewrite Heq.
Qed.

(* ---------- the abstract specification: a store of mathematical sets ---------- *)

Definition astore := list aset.

Inductive aout :=
| ANone | AHandle (h : nat) | ABool (b : bool) | ANat (n : nat) | AElems (s : aset) | AErr.

Definition aget (st : astore) (h : nat) : option aset := st !! h.
Definition ageto (st : astore) (h : option nat) : option (option aset) :=
  match h with
  | None => Some None
  | Some h => match aget st h with Some s => Some (Some s) | None => None end
  end.
Definition aalloc (st : astore) (s : aset) : astore * aout := (st ++ [s], AHandle (length st)).
Definition oset (o : option aset) : aset := default ∅ o.

Definition awith2 (st : astore) (h : nat) (o : option nat)
           (f : aset → option aset → astore * aout) : astore * aout :=
  match aget st h, ageto st o with
  | Some s, Some o => f s o
  | _, _ => (st, AErr)
  end.

Definition astep (st : astore) (o : op) : astore * aout :=
  match o with
  | ONew xs => aalloc st (list_to_set xs)
  | OInsert h xs =>
    match aget st h with Some s => (<[h := s ∪ list_to_set xs]> st, ANone) | None => (st, AErr) end
  | ODelete h xs =>
    match aget st h with Some s => (<[h := s ∖ list_to_set xs]> st, ANone) | None => (st, AErr) end
  | OCopy h =>
    match ageto st h with Some s => aalloc st (oset s) | None => (st, AErr) end
  | OIntersect h o => awith2 st h o (λ s o, aalloc st (s ∩ oset o))
  | ODisjoint h o => awith2 st h o (λ s o, (st, ABool (bool_decide (s ## oset o))))
  | ODifference h o => awith2 st h o (λ s o, aalloc st (s ∖ oset o))
  | OUnique h o => awith2 st h o (λ s o, aalloc st ((s ∖ oset o) ∪ (oset o ∖ s)))
  | OEqual h o =>
    match ageto st h, ageto st o with
    | Some s, Some o =>
      (st, ABool (match s, o with
                  | None, None => true
                  | Some s, Some o => bool_decide (s = o)
                  | _, _ => false end))
    | _, _ => (st, AErr)
    end
  | OUnion h o => awith2 st h o (λ s o, aalloc st (s ∪ oset o))
  | OContains h x =>
    match aget st h with Some s => (st, ABool (bool_decide (x ∈ s))) | None => (st, AErr) end
  | OLen h =>
    match aget st h with Some s => (st, ANat (size s)) | None => (st, AErr) end
  | OElements h =>
    match aget st h with Some s => (st, AElems s) | None => (st, AErr) end
  end.

Fixpoint arun (st : astore) (ops : list op) : astore * list aout :=
  match ops with
  | [] => (st, [])
  | o :: r => let '(st1, x) := astep st o in
              let '(st2, xs) := arun st1 r in (st2, x :: xs)
  end.

(* ---------- refinement ---------- *)

Definition abs_store (st : store) : astore := abs <$> st.
Definition wf_store (st : store) : Prop := Forall NoDup st.

Definition abs_out (x : out) : aout :=
  match x with
  | RNone => ANone | RHandle h => AHandle h | RBool b => ABool b | RNat n => ANat n
  | RElems l => AElems (abs l) | RErr => AErr
  end.

(* Elements() returns every element exactly once. *)
Definition out_wf (x : out) : Prop :=
  match x with RElems l => NoDup l | _ => True end.

Lemma abs_eq s (A : aset) : (∀ y, y ∈ s ↔ y ∈ A) → abs s = A.
Proof. intros H. apply set_eq. intros y. unfold abs. by rewrite elem_of_list_to_set. Qed.

Lemma get_abs st h : aget (abs_store st) h = abs <$> get st h.
Proof.
  unfold aget, abs_store, get.
  revert h. induction st as [|s st IH]; intros [|h]; simpl; auto.
Qed.

Lemma geto_abs st h : ageto (abs_store st) h = option_map (option_map abs) (geto st h).
Proof.
  destruct h as [h|]; simpl; [|done]. rewrite get_abs. by destruct (get st h).
Qed.

Lemma get_wf st h s : wf_store st → get st h = Some s → NoDup s.
Proof.
  unfold wf_store, get. rewrite Forall_forall. intros H Hg.
  apply H. apply elem_of_list_In. eapply nth_error_In; eauto.
Qed.

Lemma set_nth_abs st h s : abs_store (set_nth st h s) = <[h := abs s]> (abs_store st).
Proof.
  revert h. induction st as [|x st IH]; intros [|h]; simpl; auto.
  unfold abs_store in *. simpl. by rewrite IH.
Qed.

Lemma set_nth_wf st h s : wf_store st → NoDup s → wf_store (set_nth st h s).
Proof.
  unfold wf_store. intros H Hs. revert h. induction H as [|x st Hx H IH]; intros [|h]; simpl;
    constructor; auto.
Qed.

Lemma alloc_refines st s (A : aset) :
  wf_store st → NoDup s → abs s = A →
  let '(st', x) := alloc st s in
  wf_store st' ∧ aalloc (abs_store st) A = (abs_store st', abs_out x).
Proof.
  intros Hwf Hs <-. simpl. split.
  - apply Forall_app. split; [done|]. by constructor.
  - unfold aalloc, abs_store. by rewrite fmap_app, fmap_length.
Qed.

Lemma step_refines st o :
  wf_store st →
  let '(st', x) := step st o in
  wf_store st' ∧ out_wf x ∧ astep (abs_store st) o = (abs_store st', abs_out x).
Proof.
  intros Hwf.
  assert (Halloc : ∀ s (A : aset), NoDup s → abs s = A →
    let '(st', x) := alloc st s in
    wf_store st' ∧ out_wf x ∧ aalloc (abs_store st) A = (abs_store st', abs_out x)).
  { intros s A Hs HA. pose proof (alloc_refines st s A Hwf Hs HA) as H.
    simpl in *. destruct H as [H1 H2]. by split_and!. }
  destruct o as [xs|h xs|h xs|h|h o|h o|h o|h o|h o|h o|h x|h|h]; simpl.
  - (* New *) apply Halloc; [apply insert_nodup; constructor|].
    apply abs_eq. intros y. rewrite insert_elem, elem_of_nil, elem_of_list_to_set. naive_solver.
  - (* Insert *) rewrite get_abs. destruct (get st h) as [s|] eqn:E; simpl; [|done].
    pose proof (get_wf _ _ _ Hwf E) as Hs. split_and!; [|done|].
    + apply set_nth_wf; [done|]. by apply insert_nodup.
    + rewrite set_nth_abs. do 2 f_equal. symmetry. apply abs_eq. intros y.
      rewrite insert_elem, elem_of_union, elem_of_list_to_set. unfold abs.
      rewrite elem_of_list_to_set. naive_solver.
  - (* Delete *) rewrite get_abs. destruct (get st h) as [s|] eqn:E; simpl; [|done].
    pose proof (get_wf _ _ _ Hwf E) as Hs. split_and!; [|done|].
    + apply set_nth_wf; [done|]. by apply delete_nodup.
    + rewrite set_nth_abs. do 2 f_equal. symmetry. apply abs_eq. intros y.
      rewrite delete_elem, elem_of_difference, elem_of_list_to_set. unfold abs.
      rewrite elem_of_list_to_set. naive_solver.
  - (* Copy *) rewrite geto_abs. destruct (geto st h) as [s|] eqn:E; simpl; [|done].
    apply Halloc; [apply copy_nodup|]. apply abs_eq. intros y. rewrite copy_elem.
    destruct s as [s|]; simpl; unfold abs; [by rewrite elem_of_list_to_set|set_solver].
  - (* Intersect *) unfold with2, awith2. rewrite get_abs, geto_abs.
    destruct (get st h) as [s|] eqn:E; simpl; [|done].
    destruct (geto st o) as [s2|] eqn:E2; simpl; [|done].
    apply Halloc; [apply intersect_nodup|]. apply abs_eq. intros y. rewrite intersect_elem.
    destruct s2 as [s2|]; simpl; unfold abs; rewrite ?elem_of_intersection, ?elem_of_list_to_set;
      set_solver.
  - (* Disjoint *) unfold with2, awith2. rewrite get_abs, geto_abs.
    destruct (get st h) as [s|] eqn:E; simpl; [|done].
    destruct (geto st o) as [s2|] eqn:E2; simpl; [|done].
    split_and!; [done..|]. do 2 f_equal.
    apply eq_true_iff_eq. rewrite disjoint_spec. rewrite bool_decide_eq_true.
    destruct s2 as [s2|]; simpl; unfold abs; [|set_solver].
    rewrite elem_of_disjoint. setoid_rewrite elem_of_list_to_set. done.
  - (* Difference *) unfold with2, awith2. rewrite get_abs, geto_abs.
    destruct (get st h) as [s|] eqn:E; simpl; [|done].
    destruct (geto st o) as [s2|] eqn:E2; simpl; [|done].
    apply Halloc; [apply difference_nodup|]. apply abs_eq. intros y. rewrite difference_elem.
    destruct s2 as [s2|]; simpl; unfold abs; rewrite ?elem_of_difference, ?elem_of_list_to_set;
      set_solver.
  - (* Unique *) unfold with2, awith2. rewrite get_abs, geto_abs.
    destruct (get st h) as [s|] eqn:E; simpl; [|done].
    destruct (geto st o) as [s2|] eqn:E2; simpl; [|done].
    apply Halloc; [apply unique_nodup|]. apply abs_eq. intros y. rewrite unique_elem.
    destruct s2 as [s2|]; simpl; unfold abs;
      rewrite ?elem_of_union, ?elem_of_difference, ?elem_of_list_to_set; set_solver.
  - (* Equal *) rewrite !geto_abs.
    destruct (geto st h) as [s|] eqn:E; simpl; [|done].
    destruct (geto st o) as [s2|] eqn:E2; simpl; [|done].
    split_and!; [done..|]. do 2 f_equal.
    destruct s as [s|], s2 as [s2|]; simpl; try done.
    assert (Hs : NoDup s).
    { destruct h as [h|]; simpl in E; [|done]. destruct (get st h) eqn:G; [|done].
      inversion E; subst. eapply get_wf; eauto. }
    assert (Hs2 : NoDup s2).
    { destruct o as [o|]; simpl in E2; [|done]. destruct (get st o) eqn:G; [|done].
      inversion E2; subst. eapply get_wf; eauto. }
    apply eq_true_iff_eq. rewrite bool_decide_eq_true. symmetry. by apply equal_spec.
  - (* Union *) unfold with2, awith2. rewrite get_abs, geto_abs.
    destruct (get st h) as [s|] eqn:E; simpl; [|done].
    destruct (geto st o) as [s2|] eqn:E2; simpl; [|done].
    apply Halloc; [apply union_nodup|]. apply abs_eq. intros y. rewrite union_elem.
    destruct s2 as [s2|]; simpl; unfold abs; rewrite ?elem_of_union, ?elem_of_list_to_set;
      set_solver.
  - (* Contains *) rewrite get_abs. destruct (get st h) as [s|] eqn:E; simpl; [|done].
    split_and!; [done..|]. do 2 f_equal. apply eq_true_iff_eq.
    rewrite mem_spec, bool_decide_eq_true. unfold abs. by rewrite elem_of_list_to_set.
  - (* Len *) rewrite get_abs. destruct (get st h) as [s|] eqn:E; simpl; [|done].
    split_and!; [done..|]. do 2 f_equal. unfold abs. apply size_list_to_set.
    eapply get_wf; eauto.
  - (* Elements *) rewrite get_abs. destruct (get st h) as [s|] eqn:E; simpl; [|done].
    split_and!; [done| |done]. eapply get_wf; eauto.
Qed.

(* Every history: the implementation model and the mathematical sets produce
   the same outputs, and the stores stay related.  Because [astep] only ever
   replaces the receiver of Insert/Delete and appends fresh sets, this also
   says that no operation modifies or aliases an operand. *)
Theorem run_refines ops : ∀ st, wf_store st →
  let '(st', xs) := run st ops in
  wf_store st' ∧ Forall out_wf xs ∧ arun (abs_store st) ops = (abs_store st', abs_out <$> xs).
Proof.
  induction ops as [|o ops IH]; intros st Hwf; simpl; [by split_and!|].
  pose proof (step_refines st o Hwf) as Hstep.
  destruct (step st o) as [st1 x]. destruct Hstep as (Hwf1 & Hx & ->).
  specialize (IH st1 Hwf1). destruct (run st1 ops) as [st2 xs].
  destruct IH as (Hwf2 & Hxs & ->). split_and!; [done|by constructor|done].
Qed.

Lemma get_set_nth_ne st h h' t : h' ≠ h → get (set_nth st h' t) h = get st h.
Proof.
  unfold get. revert h h'. induction st as [|x st IH]; intros [|h] [|h'] Hne; simpl; try done.
  apply IH. congruence.
Qed.

(* Operands are never modified: every handle other than the receiver of an
   Insert/Delete denotes the same set after any step. *)
Theorem step_frame st o h s :
  get st h = Some s →
  (∀ xs, o ≠ OInsert h xs) → (∀ xs, o ≠ ODelete h xs) →
  get (fst (step st o)) h = Some s.
Proof.
  intros Hg Hi Hd.
  assert (Happ : ∀ t, get (st ++ [t]) h = Some s).
  { intros t. unfold get in *. rewrite nth_error_app1; [done|]. apply nth_error_Some. congruence. }
  destruct o; simpl; unfold with2;
    repeat match goal with
    | |- context [get st ?x] => destruct (get st x) eqn:?; simpl
    | |- context [geto st ?x] => destruct (geto st x) eqn:?; simpl
    end; auto.
  - rewrite get_set_nth_ne; [done|]. intros ->. by eapply Hi.
  - rewrite get_set_nth_ne; [done|]. intros ->. by eapply Hd.
Qed.
