(* Unbounded correctness proof of the priority-queue model of Heap.v:
   heap order, distinct ids, accurate setIndex log and multiset conservation
   for Push / Pop / Remove / Fix, for every heap and every input, and the
   history-level corollaries over [step] / [run].

   Proof method: the classical "heap with one exception" invariants.
     [upre n a j]  every parent/child pair below n is ordered except possibly
                   (parent j, j), and the children of j dominate parent j;
     [dpre n a i]  every pair is ordered except possibly those that involve i
                   (as a child or as a parent), and the children of i dominate
                   parent i.
   All order reasoning is done on the total accessor [pr a k : Z]. *)
From Coq Require Import List NArith ZArith Bool Arith Lia Permutation.
Import ListNotations.
From LC.Cont Require Import Heap.

Definition heap_ok (a : list elem) : Prop :=
  forall j x y, 0 < j -> nth_error a j = Some x -> nth_error a (parent j) = Some y -> less x y = false.
Definition ids_distinct (a : list elem) : Prop := NoDup (map ident a).
Definition index_ok (h : heap) : Prop :=
  forall i x, nth_error (arr h) i = Some x -> lookup (ident x) (idx h) = Some i.
Definition inv (h : heap) : Prop := heap_ok (arr h) /\ ids_distinct (arr h) /\ index_ok h.

(* ------------------------------------------------------------------ *)
(* parent arithmetic                                                   *)

Lemma parent_spec k : 0 < k -> k = 2 * parent k + 1 \/ k = 2 * parent k + 2.
Proof.
  intros H. unfold parent.
  pose proof (Nat.div_mod (k - 1) 2) as D.
  pose proof (Nat.mod_upper_bound (k - 1) 2) as M. lia.
Qed.

Lemma parent_0 : parent 0 = 0.
Proof. reflexivity. Qed.

Lemma parent_lt k : 0 < k -> parent k < k.
Proof. intros H. pose proof (parent_spec k H). lia. Qed.

(* ------------------------------------------------------------------ *)
(* upd / nth_error                                                     *)

Lemma upd_length l i x : length (upd l i x) = length l.
Proof. revert i; induction l as [|y r IH]; intros [|i]; simpl; auto. Qed.

Lemma nth_error_upd_eq l i x : i < length l -> nth_error (upd l i x) i = Some x.
Proof.
  revert i; induction l as [|y r IH]; intros [|i] H; simpl in *; try lia; auto.
  apply IH; lia.
Qed.

Lemma nth_error_upd_neq l i x k : i <> k -> nth_error (upd l i x) k = nth_error l k.
Proof.
  revert i k; induction l as [|y r IH]; intros [|i] [|k] H; simpl; auto; try congruence.
Qed.

Lemma map_ident_upd l i x p :
  nth_error l i = Some x -> map ident (upd l i (ident x, p)) = map ident l.
Proof.
  revert i; induction l as [|y r IH]; intros [|i] H; simpl in *; try discriminate.
  - injection H as ->. reflexivity.
  - f_equal. apply IH; auto.
Qed.

(* total priority accessor *)
Definition pr (a : list elem) (k : nat) : Z :=
  match nth_error a k with Some x => prio x | None => 0%Z end.

Lemma pr_nth a k x : nth_error a k = Some x -> pr a k = prio x.
Proof. intros H; unfold pr; rewrite H; reflexivity. Qed.

Lemma pr_ext a b k m : nth_error a k = nth_error b m -> pr a k = pr b m.
Proof. intros H; unfold pr; rewrite H; reflexivity. Qed.

(* the transposition (i j) *)
Definition sw (i j k : nat) : nat := if k =? j then i else if k =? i then j else k.

Lemma sw_l i j : sw i j i = j.
Proof.
  unfold sw. destruct (Nat.eqb_spec i j); auto. rewrite Nat.eqb_refl; auto.
Qed.

Lemma sw_r i j : sw i j j = i.
Proof. unfold sw. rewrite Nat.eqb_refl; auto. Qed.

Lemma sw_o i j k : k <> i -> k <> j -> sw i j k = k.
Proof.
  intros H1 H2. unfold sw.
  destruct (Nat.eqb_spec k j); [congruence|].
  destruct (Nat.eqb_spec k i); congruence.
Qed.

Lemma sw_inj i j : FinFun.Injective (sw i j).
Proof.
  intros p q. unfold sw.
  destruct (Nat.eqb_spec p j), (Nat.eqb_spec p i), (Nat.eqb_spec q j), (Nat.eqb_spec q i); lia.
Qed.

Lemma sw_perm (a a' : list elem) i j :
  length a' = length a ->
  (forall k, nth_error a' k = nth_error a (sw i j k)) -> Permutation a a'.
Proof.
  intros HL HN. apply Permutation_nth_error. split; [auto|].
  exists (sw i j). split; [apply sw_inj | exact HN].
Qed.

(* ------------------------------------------------------------------ *)
(* swap and lessi                                                      *)

Lemma swap_ok h i j :
  i < length (arr h) -> j < length (arr h) -> index_ok h ->
  exists h', swap h i j = Some h' /\ length (arr h') = length (arr h) /\
    (forall k, nth_error (arr h') k = nth_error (arr h) (sw i j k)) /\
    index_ok h' /\ Permutation (arr h) (arr h').
Proof.
  intros Hi Hj Hix.
  destruct (nth_error (arr h) i) as [x|] eqn:Ex; [|apply nth_error_None in Ex; lia].
  destruct (nth_error (arr h) j) as [y|] eqn:Ey; [|apply nth_error_None in Ey; lia].
  eexists. split; [unfold swap; rewrite Ex, Ey; reflexivity|]. simpl.
  assert (HL : length (upd (upd (arr h) i y) j x) = length (arr h))
    by (rewrite !upd_length; reflexivity).
  assert (HN : forall k, nth_error (upd (upd (arr h) i y) j x) k = nth_error (arr h) (sw i j k)).
  { intros k. unfold sw. destruct (Nat.eqb_spec k j) as [->|Hkj].
    - rewrite nth_error_upd_eq by (rewrite upd_length; lia). auto.
    - rewrite nth_error_upd_neq by lia.
      destruct (Nat.eqb_spec k i) as [->|Hki].
      + rewrite nth_error_upd_eq by lia. auto.
      + rewrite nth_error_upd_neq by lia. auto. }
  split; [exact HL|]. split; [exact HN|]. split; [|apply (sw_perm _ _ i j); auto].
  intros k z Hk. simpl in Hk. rewrite HN in Hk. simpl. unfold set_index. simpl.
  pose proof (Hix _ _ Hk) as L1. pose proof (Hix _ _ Ex) as L2. pose proof (Hix _ _ Ey) as L3.
  unfold sw in Hk, L1.
  destruct (Nat.eqb_spec k j) as [->|Hkj].
  - assert (z = x) by congruence. subst z. rewrite N.eqb_refl. reflexivity.
  - destruct (Nat.eqb_spec k i) as [->|Hki].
    + assert (z = y) by congruence. subst z.
      destruct (N.eqb_spec (ident y) (ident x)) as [E|E].
      * rewrite E in L3. rewrite L2 in L3. congruence.
      * rewrite N.eqb_refl. reflexivity.
    + destruct (N.eqb_spec (ident z) (ident x)) as [E|E].
      * rewrite E in L1. congruence.
      * destruct (N.eqb_spec (ident z) (ident y)) as [E'|E'].
        -- rewrite E' in L1. congruence.
        -- exact L1.
Qed.

Lemma lessi_pr h i j :
  i < length (arr h) -> j < length (arr h) ->
  lessi h i j = Some (pr (arr h) i <? pr (arr h) j)%Z.
Proof.
  intros Hi Hj. unfold lessi, pr.
  destruct (nth_error (arr h) i) eqn:Ex; [|apply nth_error_None in Ex; lia].
  destruct (nth_error (arr h) j) eqn:Ey; [|apply nth_error_None in Ey; lia].
  reflexivity.
Qed.

(* ------------------------------------------------------------------ *)
(* heap order on a prefix, phrased with [pr]                           *)

Definition hok (n : nat) (a : list elem) : Prop :=
  forall k, 0 < k -> k < n -> (pr a (parent k) <= pr a k)%Z.

Lemma heap_ok_of_hok a : hok (length a) a -> heap_ok a.
Proof.
  intros H j x y Hj Hx Hy.
  assert (Hl : j < length a) by (apply nth_error_Some; congruence).
  specialize (H j Hj Hl). rewrite (pr_nth _ _ _ Hx), (pr_nth _ _ _ Hy) in H.
  unfold less. apply Z.ltb_ge. exact H.
Qed.

Lemma hok_of_heap_ok a n : heap_ok a -> n <= length a -> hok n a.
Proof.
  intros H Hn k Hk Hkn. pose proof (parent_lt k Hk) as Hp.
  destruct (nth_error a k) as [x|] eqn:Hx; [|apply nth_error_None in Hx; lia].
  destruct (nth_error a (parent k)) as [y|] eqn:Hy; [|apply nth_error_None in Hy; lia].
  specialize (H k _ _ Hk Hx Hy). unfold less in H. apply Z.ltb_ge in H.
  rewrite (pr_nth _ _ _ Hx), (pr_nth _ _ _ Hy). exact H.
Qed.

Lemma hok_weaken n m a : hok n a -> m <= n -> hok m a.
Proof. intros H Hm k Hk Hkm. apply H; lia. Qed.

Lemma hok_root_min n a : hok n a -> forall k, k < n -> (pr a 0 <= pr a k)%Z.
Proof.
  intros H k. induction k as [k IH] using lt_wf_ind. intros Hk.
  destruct (Nat.eq_dec k 0) as [->|Hk0]; [lia|].
  assert (Hp : 0 < k) by lia.
  pose proof (parent_lt k Hp) as Hlt.
  specialize (H k Hp Hk). specialize (IH (parent k) Hlt). lia.
Qed.

Definition upre (n : nat) (a : list elem) (j : nat) : Prop :=
  (forall k, 0 < k -> k < n -> k <> j -> (pr a (parent k) <= pr a k)%Z) /\
  (forall k, 0 < k -> k < n -> 0 < j -> parent k = j -> (pr a (parent j) <= pr a k)%Z).

Definition dpre (n : nat) (a : list elem) (i : nat) : Prop :=
  (forall k, 0 < k -> k < n -> k <> i -> parent k <> i -> (pr a (parent k) <= pr a k)%Z) /\
  (forall k, 0 < k -> k < n -> 0 < i -> parent k = i -> (pr a (parent i) <= pr a k)%Z).

Lemma upre_hok n a j :
  upre n a j -> (j = 0 \/ (pr a (parent j) <= pr a j)%Z) -> hok n a.
Proof.
  intros [HA _] Hj k Hk Hkn.
  destruct (Nat.eq_dec k j) as [->|Hkj]; [|apply HA; auto].
  destruct Hj as [->|Hj]; [lia|exact Hj].
Qed.

Lemma hok_dpre n a i : hok n a -> dpre n a i.
Proof.
  intros H. split.
  - intros k Hk Hkn _ _. apply H; auto.
  - intros k Hk Hkn Hi Hp. pose proof (parent_lt k Hk).
    pose proof (H k Hk Hkn) as H1. rewrite Hp in H1.
    pose proof (H i Hi ltac:(lia)) as H2. lia.
Qed.

(* ------------------------------------------------------------------ *)
(* container/heap.up                                                   *)

Lemma up_spec : forall fuel h j n,
  j < fuel -> j < n -> n <= length (arr h) -> upre n (arr h) j -> index_ok h ->
  exists h', up fuel h j = Some h' /\ hok n (arr h') /\ index_ok h' /\
    Permutation (arr h) (arr h') /\ length (arr h') = length (arr h) /\
    (forall k, j < k -> nth_error (arr h') k = nth_error (arr h) k).
Proof.
  induction fuel as [|f IH]; intros h j n Hf Hjn Hn Hpre Hix; [lia|].
  cbn [up].
  destruct (Nat.eqb_spec (parent j) j) as [E|E].
  - assert (j = 0) as ->.
    { destruct (Nat.eq_dec j 0); auto. pose proof (parent_lt j); lia. }
    exists h. split; [reflexivity|]. split; [apply (upre_hok _ _ 0); auto|].
    repeat split; auto.
  - assert (Hj0 : 0 < j).
    { destruct (Nat.eq_dec j 0) as [->|]; [|lia]. exfalso; apply E; reflexivity. }
    pose proof (parent_lt j Hj0) as Hp.
    rewrite lessi_pr by lia.
    destruct (Z.ltb_spec (pr (arr h) j) (pr (arr h) (parent j))) as [L|L].
    + destruct (swap_ok h (parent j) j) as (h' & Hs & Hlen & Hnth & Hix' & Hperm);
        try lia; auto.
      rewrite Hs.
      assert (Hpr : forall k, pr (arr h') k = pr (arr h) (sw (parent j) j k))
        by (intros; apply pr_ext; auto).
      destruct Hpre as [HA HB].
      destruct (IH h' (parent j) n) as (h'' & Hu & Hok & Hix'' & Hperm' & Hlen' & Hnth');
        try lia; auto.
      * split.
        -- intros k Hk Hkn Hki. rewrite !Hpr.
           pose proof (parent_lt k Hk) as Pk.
           destruct (Nat.eq_dec k j) as [->|Hkj].
           ++ rewrite sw_r, sw_l. lia.
           ++ rewrite (sw_o _ _ k) by lia.
              destruct (Nat.eq_dec (parent k) j) as [Ej|Ej].
              ** rewrite Ej, sw_r. apply HB; auto.
              ** destruct (Nat.eq_dec (parent k) (parent j)) as [Ei|Ei].
                 --- rewrite Ei, sw_l. specialize (HA k Hk Hkn Hkj).
                     rewrite Ei in HA. lia.
                 --- rewrite sw_o by lia. apply HA; auto.
        -- intros k Hk Hkn Hi Hki. rewrite !Hpr.
           pose proof (parent_lt _ Hi) as Pi.
           pose proof (parent_lt k Hk) as Pk.
           rewrite (sw_o _ _ (parent (parent j))) by lia.
           destruct (Nat.eq_dec k j) as [->|Hkj].
           ++ rewrite sw_r. apply HA; lia.
           ++ rewrite sw_o by lia.
              pose proof (HA k Hk Hkn Hkj) as H1. rewrite Hki in H1.
              pose proof (HA (parent j) Hi ltac:(lia) ltac:(lia)) as H2. lia.
      * exists h''. split; [exact Hu|]. split; [exact Hok|]. split; [exact Hix''|].
        split; [eapply Permutation_trans; eauto|]. split; [congruence|].
        intros k Hk. rewrite Hnth' by lia. rewrite Hnth. rewrite sw_o by lia. reflexivity.
    + exists h. split; [reflexivity|]. split; [apply (upre_hok _ _ j); auto|].
      repeat split; auto.
Qed.

Lemma up'_ok h j n :
  j < n -> n <= length (arr h) -> upre n (arr h) j -> index_ok h ->
  exists h', up' h j = Some h' /\ hok n (arr h') /\ index_ok h' /\
    Permutation (arr h) (arr h') /\ length (arr h') = length (arr h) /\
    (forall k, j < k -> nth_error (arr h') k = nth_error (arr h) k).
Proof. intros. unfold up'. apply up_spec; auto; lia. Qed.

(* ------------------------------------------------------------------ *)
(* container/heap.down                                                 *)

Lemma down_spec : forall fuel h i n,
  n - i < fuel -> n <= length (arr h) -> dpre n (arr h) i -> index_ok h ->
  exists h' i', down_loop fuel h i n = Some (h', i') /\
    ((i' = i /\ h' = h /\ upre n (arr h) i) \/ (i < i' /\ hok n (arr h'))) /\
    index_ok h' /\ Permutation (arr h) (arr h') /\ length (arr h') = length (arr h) /\
    (forall k, n <= k -> nth_error (arr h') k = nth_error (arr h) k).
Proof.
  induction fuel as [|f IH]; intros h i n Hf Hn [HA HB] Hix; [lia|].
  cbn [down_loop].
  destruct (Nat.leb_spec n (2 * i + 1)) as [Hle|Hlt].
  - exists h, i. split; [reflexivity|]. split; [|repeat split; auto].
    left. split; [reflexivity|]. split; [reflexivity|]. split.
    + intros k Hk Hkn Hki. pose proof (parent_spec k Hk). apply HA; auto; lia.
    + intros k Hk Hkn Hi Hp. pose proof (parent_spec k Hk). lia.
  - set (j1 := 2 * i + 1) in *.
    assert (Hc : exists c,
      (if j1 + 1 <? n then lessi h (j1 + 1) j1 else Some false) = Some c /\
      (if c then j1 + 1 else j1) < n /\
      (pr (arr h) (if c then j1 + 1 else j1) <= pr (arr h) j1)%Z /\
      (j1 + 1 < n -> (pr (arr h) (if c then j1 + 1 else j1) <= pr (arr h) (j1 + 1))%Z)).
    { destruct (Nat.ltb_spec (j1 + 1) n) as [H2|H2].
      - rewrite lessi_pr by lia. eexists. split; [reflexivity|].
        destruct (Z.ltb_spec (pr (arr h) (j1 + 1)) (pr (arr h) j1)); repeat split; lia.
      - exists false. repeat split; lia. }
    destruct Hc as (c & -> & Hjn & Hj1 & Hj2).
    set (j := if c then j1 + 1 else j1) in *.
    assert (Hjc : j = 2 * i + 1 \/ j = 2 * i + 2) by (subst j j1; destruct c; lia).
    assert (Hj0 : 0 < j) by lia.
    assert (Hpj : parent j = i) by (pose proof (parent_spec j Hj0); lia).
    assert (Hmin : forall k, 0 < k -> k < n -> parent k = i -> (pr (arr h) j <= pr (arr h) k)%Z).
    { intros k Hk Hkn Hp. pose proof (parent_spec k Hk) as Pk.
      assert (k = j1 \/ k = j1 + 1) as [->| ->] by (subst j1; lia); [exact Hj1 | apply Hj2; exact Hkn]. }
    rewrite lessi_pr by lia.
    destruct (Z.ltb_spec (pr (arr h) j) (pr (arr h) i)) as [L|L].
    + destruct (swap_ok h i j) as (h' & Hs & Hlen & Hnth & Hix' & Hperm); try lia; auto.
      rewrite Hs.
      assert (Hpr : forall k, pr (arr h') k = pr (arr h) (sw i j k))
        by (intros; apply pr_ext; auto).
      destruct (IH h' j n) as (h'' & i'' & Hd & Hres & Hix'' & Hperm' & Hlen' & Hnth');
        try lia; auto.
      * split.
        -- intros k Hk Hkn Hkj Hpk. rewrite !Hpr.
           pose proof (parent_lt k Hk) as Pk.
           destruct (Nat.eq_dec k i) as [->|Hki].
           ++ rewrite sw_l, sw_o by lia. apply HB; auto.
           ++ rewrite (sw_o _ _ k) by lia.
              destruct (Nat.eq_dec (parent k) i) as [Ei|Ei].
              ** rewrite Ei, sw_l. apply Hmin; auto.
              ** rewrite sw_o by lia. apply HA; auto.
        -- intros k Hk Hkn _ Hpk. rewrite !Hpr.
           pose proof (parent_lt k Hk) as Pk.
           rewrite Hpj, sw_l. rewrite sw_o by lia.
           pose proof (HA k Hk Hkn ltac:(lia) ltac:(lia)) as H1. rewrite Hpk in H1. exact H1.
      * exists h'', i''. split; [exact Hd|]. split.
        -- right. destruct Hres as [(-> & -> & Hup)|(Hlt' & Hok)].
           ++ split; [lia|]. apply (upre_hok _ _ j); auto. right.
              rewrite !Hpr. rewrite Hpj, sw_l, sw_r. lia.
           ++ split; [lia|exact Hok].
        -- split; [exact Hix''|]. split; [eapply Permutation_trans; eauto|].
           split; [congruence|].
           intros k Hk. rewrite Hnth' by lia. rewrite Hnth. rewrite sw_o by lia. reflexivity.
    + exists h, i. split; [reflexivity|]. split; [|repeat split; auto].
      left. split; [reflexivity|]. split; [reflexivity|]. split.
      * intros k Hk Hkn Hki.
        destruct (Nat.eq_dec (parent k) i) as [Ei|Ei].
        -- rewrite Ei. pose proof (Hmin k Hk Hkn Ei). lia.
        -- apply HA; auto.
      * exact HB.
Qed.

Lemma down_ok h i n :
  n <= length (arr h) -> dpre n (arr h) i -> index_ok h ->
  exists h' b, down h i n = Some (h', b) /\
    ((b = false /\ h' = h /\ upre n (arr h) i) \/ (b = true /\ hok n (arr h'))) /\
    index_ok h' /\ Permutation (arr h) (arr h') /\ length (arr h') = length (arr h) /\
    (forall k, n <= k -> nth_error (arr h') k = nth_error (arr h) k).
Proof.
  intros Hn Hpre Hix. unfold down.
  destruct (down_spec (S (length (arr h))) h i n) as (h' & i' & Hd & Hres & Rest);
    auto; try lia.
  rewrite Hd. exists h', (i <? i'). split; [reflexivity|]. split; [|exact Rest].
  destruct Hres as [(-> & -> & Hup)|(Hlt & Hok)].
  - left. rewrite Nat.ltb_irrefl. auto.
  - right. split; [apply Nat.ltb_lt; auto|exact Hok].
Qed.

(* "if !down(h, i, n) { up(h, i) }" -- shared by Remove and Fix *)
Definition fixat (h : heap) (i n : nat) : option heap :=
  match down h i n with
  | None => None
  | Some (h1, true) => Some h1
  | Some (h1, false) => up' h1 i
  end.

Lemma fixat_ok h i n :
  i < n -> n <= length (arr h) -> dpre n (arr h) i -> index_ok h ->
  exists h', fixat h i n = Some h' /\ hok n (arr h') /\ index_ok h' /\
    Permutation (arr h) (arr h') /\ length (arr h') = length (arr h) /\
    (forall k, n <= k -> nth_error (arr h') k = nth_error (arr h) k).
Proof.
  intros Hi Hn Hpre Hix. unfold fixat.
  destruct (down_ok h i n Hn Hpre Hix) as (h1 & b & Hd & Hres & Hix1 & Hperm & Hlen & Hnth).
  rewrite Hd. destruct Hres as [(-> & -> & Hup)|(-> & Hok)].
  - destruct (up'_ok h i n Hi Hn Hup Hix) as (h2 & Hu & Hok & Hix2 & Hperm2 & Hlen2 & Hnth2).
    exists h2. repeat split; auto. intros k Hk. apply Hnth2; lia.
  - exists h1. repeat split; auto.
Qed.

(* ------------------------------------------------------------------ *)
(* dropping the last slot (pqHeap.Pop)                                 *)

Lemma pop_last_spec h n :
  length (arr h) = S n ->
  exists x r, pop_last h = Some (x, {| arr := r; idx := idx h |}) /\
              arr h = r ++ [x] /\ length r = n.
Proof.
  intros H. unfold pop_last. destruct (rev (arr h)) as [|x r'] eqn:E.
  - apply (f_equal (@length _)) in E. rewrite rev_length in E. simpl in E. lia.
  - exists x, (rev r'). split; [reflexivity|].
    assert (Ha : arr h = rev r' ++ [x]).
    { rewrite <- (rev_involutive (arr h)), E. reflexivity. }
    split; [exact Ha|]. rewrite Ha in H. rewrite app_length in H. simpl in H. lia.
Qed.

Lemma nth_error_snoc_last (r : list elem) x : nth_error (r ++ [x]) (length r) = Some x.
Proof. rewrite nth_error_app2 by lia. rewrite Nat.sub_diag. reflexivity. Qed.

Lemma ids_distinct_perm a b : Permutation a b -> ids_distinct a -> ids_distinct b.
Proof.
  unfold ids_distinct. intros P H.
  eapply Permutation_NoDup; [apply Permutation_map; exact P|exact H].
Qed.

Lemma drop_last_inv h r x :
  arr h = r ++ [x] -> hok (length r) (arr h) -> ids_distinct (arr h) -> index_ok h ->
  inv {| arr := r; idx := idx h |} /\ Permutation (arr h) (x :: r).
Proof.
  intros Ha Hok Hd Hix.
  assert (HP : Permutation (arr h) (x :: r)).
  { rewrite Ha. apply Permutation_sym, Permutation_cons_append. }
  split; [|exact HP]. split; [|split]; simpl.
  - apply heap_ok_of_hok. intros k Hk Hkn. pose proof (parent_lt k Hk) as Hp.
    specialize (Hok k Hk Hkn). rewrite Ha in Hok.
    rewrite (pr_ext r (r ++ [x]) k k) by (rewrite nth_error_app1 by lia; reflexivity).
    rewrite (pr_ext r (r ++ [x]) (parent k) (parent k))
      by (rewrite nth_error_app1 by lia; reflexivity).
    exact Hok.
  - pose proof (ids_distinct_perm _ _ HP Hd) as H. unfold ids_distinct in H. simpl in H.
    apply NoDup_cons_iff in H. apply H.
  - intros k z Hk. simpl in *. apply Hix. rewrite Ha.
    rewrite nth_error_app1; [exact Hk|]. apply nth_error_Some. congruence.
Qed.

(* ------------------------------------------------------------------ *)
(* Push                                                                *)

Theorem push_ok : forall h id p, inv h -> ~ In id (map ident (arr h)) ->
  exists h', push h (id, p) = Some h' /\ inv h' /\ Permutation (arr h') ((id, p) :: arr h).
Proof.
  intros h id p (Hh & Hd & Hix) Hfresh. unfold push.
  set (n := length (arr h)).
  set (h1 := {| arr := arr h ++ [(id, p)]; idx := set_index (idx h) (id, p) n |}).
  assert (Hl1 : length (arr h1) = S n) by (simpl; rewrite app_length; simpl; lia).
  assert (Hix1 : index_ok h1).
  { intros k z Hk. simpl in *. destruct (lt_dec k n) as [Hkn|Hkn].
    - rewrite nth_error_app1 in Hk by exact Hkn.
      destruct (N.eqb_spec (ident z) id) as [E|E].
      + exfalso. apply Hfresh. rewrite <- E. apply in_map. eapply nth_error_In; eauto.
      + apply Hix; auto.
    - rewrite nth_error_app2 in Hk by (fold n; lia).
      fold n in Hk. destruct (k - n) as [|m] eqn:Ekn; simpl in Hk.
      + injection Hk as <-. simpl. rewrite N.eqb_refl. f_equal. lia.
      + destruct m; discriminate. }
  assert (Hup : upre (S n) (arr h1) n).
  { pose proof (hok_of_heap_ok _ n Hh (le_n _)) as Hok. split.
    - intros k Hk Hkn Hne. pose proof (parent_lt k Hk) as Hp.
      assert (Hkn' : k < n) by lia. specialize (Hok k Hk Hkn'). simpl.
      rewrite (pr_ext _ (arr h) k k) by (apply nth_error_app1; exact Hkn').
      rewrite (pr_ext _ (arr h) (parent k) (parent k)) by (apply nth_error_app1; fold n; lia).
      exact Hok.
    - intros k Hk Hkn _ Hp. pose proof (parent_lt k Hk). lia. }
  destruct (up'_ok h1 n (S n)) as (h' & Hu & Hok & Hix' & Hperm & Hlen & _); auto; try lia.
  exists h'. split; [exact Hu|].
  assert (HP : Permutation (arr h') ((id, p) :: arr h)).
  { eapply Permutation_trans; [apply Permutation_sym; exact Hperm|]. simpl.
    apply Permutation_sym, Permutation_cons_append. }
  split; [|exact HP]. split; [|split].
  - apply heap_ok_of_hok. rewrite Hlen, Hl1. exact Hok.
  - apply (ids_distinct_perm ((id, p) :: arr h)); [apply Permutation_sym; exact HP|].
    unfold ids_distinct. simpl. apply NoDup_cons; auto.
  - exact Hix'.
Qed.

(* ------------------------------------------------------------------ *)
(* Min / Pop                                                           *)

Lemma root_minimal a x :
  heap_ok a -> nth_error a 0 = Some x -> forall y, In y a -> less y x = false.
Proof.
  intros Hh Hx y Hy. apply In_nth_error in Hy. destruct Hy as [k Hk].
  pose proof (hok_of_heap_ok _ _ Hh (le_n _)) as Hok.
  assert (Hkl : k < length a) by (apply nth_error_Some; congruence).
  pose proof (hok_root_min _ _ Hok k Hkl) as H.
  rewrite (pr_nth _ _ _ Hx), (pr_nth _ _ _ Hk) in H.
  unfold less. apply Z.ltb_ge. exact H.
Qed.

Theorem min_ok : forall h x, inv h -> min h = Some x -> forall y, In y (arr h) -> less y x = false.
Proof. intros h x (Hh & _ & _) Hm. unfold min in Hm. apply root_minimal; auto. Qed.

Theorem pop_ok : forall h, inv h -> arr h <> [] ->
  exists x h', pop h = Some (x, h') /\ inv h' /\ Permutation (arr h) (x :: arr h')
               /\ (forall y, In y (arr h) -> less y x = false).
Proof.
  intros h (Hh & Hd & Hix) Hne. unfold pop.
  destruct (length (arr h)) as [|n] eqn:Hlen.
  { destruct (arr h); simpl in *; congruence. }
  destruct (swap_ok h 0 n) as (h1 & Hs & Hl1 & Hn1 & Hix1 & Hp1); try lia; auto.
  rewrite Hs.
  assert (Hpr : forall k, pr (arr h1) k = pr (arr h) (sw 0 n k))
    by (intros; apply pr_ext; auto).
  pose proof (hok_of_heap_ok _ (S n) Hh ltac:(lia)) as Hok.
  assert (Hdp : dpre n (arr h1) 0).
  { split.
    - intros k Hk Hkn _ Hpk. pose proof (parent_lt k Hk). rewrite !Hpr.
      rewrite !sw_o by lia. apply Hok; lia.
    - intros; lia. }
  destruct (down_ok h1 0 n) as (h2 & b & Hdn & Hres & Hix2 & Hp2 & Hl2 & Hn2); auto; try lia.
  rewrite Hdn.
  assert (Hok2 : hok n (arr h2)).
  { destruct Hres as [(_ & -> & Hup)|(_ & H)]; [|exact H]. apply (upre_hok _ _ 0); auto. }
  destruct (pop_last_spec h2 n) as (x & r & Hpl & Ha & Hr); [congruence|].
  rewrite Hpl. exists x, {| arr := r; idx := idx h2 |}. split; [reflexivity|].
  assert (HP : Permutation (arr h) (arr h2)) by (eapply Permutation_trans; eauto).
  destruct (drop_last_inv h2 r x Ha) as [Hinv HP2]; auto.
  { rewrite Hr. exact Hok2. }
  { eapply ids_distinct_perm; eauto. }
  split; [exact Hinv|]. split; [eapply Permutation_trans; eauto|].
  apply root_minimal; auto.
  assert (Hx : nth_error (arr h2) n = Some x) by (rewrite Ha, <- Hr; apply nth_error_snoc_last).
  rewrite Hn2 in Hx by lia. rewrite Hn1, sw_r in Hx. exact Hx.
Qed.

(* ------------------------------------------------------------------ *)
(* Remove                                                              *)

Lemma remove_unfold h i n :
  length (arr h) = S n -> n <> i ->
  remove h i = match swap h i n with
               | None => None
               | Some h1 => match fixat h1 i n with
                            | None => None
                            | Some h3 => pop_last h3
                            end
               end.
Proof.
  intros Hl Hne. unfold remove, fixat. rewrite Hl.
  destruct (Nat.eqb_spec n i); [contradiction|].
  destruct (swap h i n) as [h1|]; [|reflexivity].
  destruct (down h1 i n) as [[h2 [|]]|]; reflexivity.
Qed.

Theorem remove_ok : forall h i x, inv h -> nth_error (arr h) i = Some x ->
  exists h', remove h i = Some (x, h') /\ inv h' /\ Permutation (arr h) (x :: arr h').
Proof.
  intros h i x (Hh & Hd & Hix) Hi.
  assert (Hil : i < length (arr h)) by (apply nth_error_Some; congruence).
  destruct (length (arr h)) as [|n] eqn:Hlen; [lia|].
  pose proof (hok_of_heap_ok _ (S n) Hh ltac:(lia)) as Hok.
  destruct (Nat.eq_dec n i) as [<-|Hne].
  - unfold remove. rewrite Hlen, Nat.eqb_refl.
    destruct (pop_last_spec h n Hlen) as (x' & r & Hpl & Ha & Hr).
    assert (x' = x) as ->.
    { pose proof (nth_error_snoc_last r x') as H. rewrite <- Ha, Hr in H. congruence. }
    rewrite Hpl. exists {| arr := r; idx := idx h |}. split; [reflexivity|].
    apply (drop_last_inv h r x Ha); auto. rewrite Hr. apply (hok_weaken (S n)); auto.
  - rewrite (remove_unfold h i n Hlen Hne).
    destruct (swap_ok h i n) as (h1 & Hs & Hl1 & Hn1 & Hix1 & Hp1); try lia; auto.
    rewrite Hs.
    assert (Hpr : forall k, pr (arr h1) k = pr (arr h) (sw i n k))
      by (intros; apply pr_ext; auto).
    assert (Hdp : dpre n (arr h1) i).
    { split.
      - intros k Hk Hkn Hki Hpk. pose proof (parent_lt k Hk). rewrite !Hpr.
        rewrite !sw_o by lia. apply Hok; lia.
      - intros k Hk Hkn Hi0 Hpk. pose proof (parent_lt k Hk). pose proof (parent_lt i Hi0).
        rewrite !Hpr. rewrite !sw_o by lia.
        pose proof (Hok k Hk ltac:(lia)) as H1. rewrite Hpk in H1.
        pose proof (Hok i Hi0 ltac:(lia)) as H2. lia. }
    destruct (fixat_ok h1 i n) as (h3 & Hf & Hok3 & Hix3 & Hp3 & Hl3 & Hn3); auto; try lia.
    rewrite Hf.
    destruct (pop_last_spec h3 n) as (x' & r & Hpl & Ha & Hr); [congruence|].
    assert (x' = x) as ->.
    { assert (Hx : nth_error (arr h3) n = Some x')
        by (rewrite Ha, <- Hr; apply nth_error_snoc_last).
      rewrite Hn3 in Hx by lia. rewrite Hn1, sw_r in Hx. congruence. }
    rewrite Hpl. exists {| arr := r; idx := idx h3 |}. split; [reflexivity|].
    assert (HP : Permutation (arr h) (arr h3)) by (eapply Permutation_trans; eauto).
    destruct (drop_last_inv h3 r x Ha) as [Hinv HP2]; auto.
    { rewrite Hr. exact Hok3. }
    { eapply ids_distinct_perm; eauto. }
    split; [exact Hinv|]. eapply Permutation_trans; eauto.
Qed.

(* ------------------------------------------------------------------ *)
(* Fix                                                                 *)

Theorem fix_ok : forall h i p a, inv h -> set_prio (arr h) i p = Some a ->
  exists h', fix_ {| arr := a; idx := idx h |} i = Some h' /\ inv h' /\ Permutation (arr h') a.
Proof.
  intros h i p a (Hh & Hd & Hix) Hsp. unfold set_prio in Hsp.
  destruct (nth_error (arr h) i) as [x|] eqn:Hi; [|discriminate].
  injection Hsp as <-.
  assert (Hil : i < length (arr h)) by (apply nth_error_Some; congruence).
  set (a := upd (arr h) i (ident x, p)).
  set (h0 := {| arr := a; idx := idx h |}).
  assert (Hl0 : length (arr h0) = length (arr h)) by (simpl; apply upd_length).
  pose proof (hok_of_heap_ok _ _ Hh (le_n _)) as Hok.
  assert (Hpr : forall k, k <> i -> pr (arr h0) k = pr (arr h) k).
  { intros k Hk. apply pr_ext. simpl. apply nth_error_upd_neq. lia. }
  assert (Hix0 : index_ok h0).
  { intros k z Hk. simpl in *. destruct (Nat.eq_dec i k) as [<-|Hne].
    - unfold a in Hk. rewrite nth_error_upd_eq in Hk by exact Hil. injection Hk as <-.
      simpl. apply (Hix _ _ Hi).
    - unfold a in Hk. rewrite nth_error_upd_neq in Hk by exact Hne. apply Hix; auto. }
  assert (Hdp : dpre (length (arr h0)) (arr h0) i).
  { rewrite Hl0. split.
    - intros k Hk Hkn Hki Hpk. rewrite !Hpr by auto. apply Hok; auto.
    - intros k Hk Hkn Hi0 Hpk. pose proof (parent_lt k Hk). pose proof (parent_lt i Hi0).
      rewrite !Hpr by lia.
      pose proof (Hok k Hk Hkn) as H1. rewrite Hpk in H1.
      pose proof (Hok i Hi0 Hil) as H2. lia. }
  destruct (fixat_ok h0 i (length (arr h0))) as (h' & Hf & Hok' & Hix' & Hp' & Hl' & _);
    auto; try lia.
  exists h'. split; [exact Hf|]. split; [|apply Permutation_sym; exact Hp'].
  split; [|split].
  - apply heap_ok_of_hok. rewrite Hl'. exact Hok'.
  - apply (ids_distinct_perm (arr h0)); [exact Hp'|].
    unfold ids_distinct. simpl. unfold a. rewrite (map_ident_upd _ _ _ _ Hi). exact Hd.
  - exact Hix'.
Qed.

(* ------------------------------------------------------------------ *)
(* History level: step / run                                           *)

Definition op_ok (h : heap) (o : op) : Prop :=
  match o with OPush id _ => ~ In id (map ident (arr h)) | _ => True end.

(* the operation is "defined" in the sense of the Go API contract *)
Definition op_defined (h : heap) (o : op) : Prop :=
  match o with
  | OPush id _ => ~ In id (map ident (arr h))
  | OPop | OMin => arr h <> []
  | OFix id _ | ORemove id => In id (map ident (arr h))
  | OLen => True
  end.

Lemma op_defined_ok h o : op_defined h o -> op_ok h o.
Proof. destruct o; simpl; auto. Qed.

Lemma remove_none h i : nth_error (arr h) i = None -> remove h i = None.
Proof.
  intros H. unfold remove. destruct (length (arr h)) as [|n] eqn:Hl; [reflexivity|].
  apply nth_error_None in H.
  destruct (Nat.eqb_spec n i) as [->|Hne]; [lia|].
  unfold swap. destruct (nth_error (arr h) i) eqn:E; [|reflexivity].
  assert (i < length (arr h)) by (apply nth_error_Some; congruence). lia.
Qed.

Lemma pop_nil h : arr h = [] -> pop h = None.
Proof. intros H. unfold pop. rewrite H. reflexivity. Qed.

Lemma lookup_of_in h id :
  inv h -> In id (map ident (arr h)) ->
  exists i x, lookup id (idx h) = Some i /\ nth_error (arr h) i = Some x /\ ident x = id.
Proof.
  intros (_ & _ & Hix) Hin. apply in_map_iff in Hin. destruct Hin as (x & Hid & Hin).
  apply In_nth_error in Hin. destruct Hin as [i Hi].
  exists i, x. split; [|split]; auto. rewrite <- Hid. apply Hix; auto.
Qed.

Theorem step_inv : forall h o, inv h -> op_ok h o -> inv (fst (step h o)).
Proof.
  intros h o Hinv Hop. destruct o as [id p| |id p|id| |]; simpl in *; auto.
  - destruct (push_ok h id p Hinv Hop) as (h' & -> & Hinv' & _). exact Hinv'.
  - destruct (arr h) as [|e r] eqn:Ea.
    + rewrite (pop_nil h Ea). exact Hinv.
    + destruct (pop_ok h Hinv) as (x & h' & -> & Hinv' & _); [congruence|]. exact Hinv'.
  - destruct (lookup id (idx h)) as [i|]; [|exact Hinv].
    destruct (set_prio (arr h) i p) as [a|] eqn:Es; [|exact Hinv].
    destruct (fix_ok h i p a Hinv Es) as (h' & -> & Hinv' & _). exact Hinv'.
  - destruct (lookup id (idx h)) as [i|]; [|exact Hinv].
    destruct (nth_error (arr h) i) as [x|] eqn:Ei.
    + destruct (remove_ok h i x Hinv Ei) as (h' & -> & Hinv' & _). exact Hinv'.
    + rewrite (remove_none h i Ei). exact Hinv.
  - destruct (min h); exact Hinv.
Qed.

Theorem step_pop_min : forall h x, inv h -> snd (step h OPop) = RElem x ->
  forall y, In y (arr h) -> less y x = false.
Proof.
  intros h x Hinv Hs. simpl in Hs.
  destruct (arr h) as [|e r] eqn:Ea.
  - rewrite (pop_nil h Ea) in Hs. discriminate.
  - destruct (pop_ok h Hinv) as (x' & h' & Hp & _ & _ & Hmin); [congruence|].
    rewrite Hp in Hs. simpl in Hs. injection Hs as <-. rewrite <- Ea. exact Hmin.
Qed.

Theorem step_min_min : forall h x, inv h -> snd (step h OMin) = RElem x ->
  forall y, In y (arr h) -> less y x = false.
Proof.
  intros h x Hinv Hs. simpl in Hs. destruct (min h) as [x'|] eqn:Em; [|discriminate].
  simpl in Hs. injection Hs as <-. apply (min_ok h x' Hinv Em).
Qed.

Theorem step_never_err_when_defined : forall h o,
  inv h -> op_defined h o -> snd (step h o) <> RErr.
Proof.
  intros h o Hinv Hop. destruct o as [id p| |id p|id| |]; simpl in *.
  - destruct (push_ok h id p Hinv Hop) as (h' & -> & _). discriminate.
  - destruct (pop_ok h Hinv Hop) as (x & h' & -> & _). discriminate.
  - destruct (lookup_of_in h id Hinv Hop) as (i & x & -> & Hi & _).
    unfold set_prio at 1. rewrite Hi.
    destruct (fix_ok h i p (upd (arr h) i (ident x, p)) Hinv) as (h' & -> & _).
    { unfold set_prio. rewrite Hi. reflexivity. }
    discriminate.
  - destruct (lookup_of_in h id Hinv Hop) as (i & x & -> & Hi & _).
    destruct (remove_ok h i x Hinv Hi) as (h' & -> & _). discriminate.
  - unfold min. destruct (arr h); [congruence|simpl; discriminate].
  - discriminate.
Qed.

(* ORemove id hands back exactly the element carrying that id. *)
Theorem step_remove_id : forall h id, inv h -> In id (map ident (arr h)) ->
  exists x, snd (step h (ORemove id)) = RElem x /\ ident x = id /\
            Permutation (arr h) (x :: arr (fst (step h (ORemove id)))).
Proof.
  intros h id Hinv Hin. simpl.
  destruct (lookup_of_in h id Hinv Hin) as (i & x & -> & Hi & Hid).
  destruct (remove_ok h i x Hinv Hi) as (h' & -> & _ & HP).
  exists x. simpl. auto.
Qed.

(* OFix id p leaves (id, p) in the queue and touches no other element. *)
Theorem step_fix_sets : forall h id p, inv h -> In id (map ident (arr h)) ->
  exists i a, lookup id (idx h) = Some i /\ set_prio (arr h) i p = Some a /\
              nth_error a i = Some (id, p) /\
              Permutation (arr (fst (step h (OFix id p)))) a.
Proof.
  intros h id p Hinv Hin. simpl.
  destruct (lookup_of_in h id Hinv Hin) as (i & x & Hl & Hi & Hid).
  exists i, (upd (arr h) i (ident x, p)). rewrite Hl.
  assert (Hs : set_prio (arr h) i p = Some (upd (arr h) i (ident x, p)))
    by (unfold set_prio; rewrite Hi; reflexivity).
  rewrite Hs. split; [reflexivity|]. split; [reflexivity|]. split.
  - rewrite Hid. apply nth_error_upd_eq. apply nth_error_Some. congruence.
  - destruct (fix_ok h i p _ Hinv Hs) as (h' & -> & _ & HP). exact HP.
Qed.

Lemma run_cons h o r :
  run h (o :: r) =
  (fst (run (fst (step h o)) r), snd (step h o) :: snd (run (fst (step h o)) r)).
Proof.
  simpl. destruct (step h o) as [h1 x]. simpl. destruct (run h1 r) as [h2 xs]. reflexivity.
Qed.

(* every op is admissible in the state it is applied to *)
Fixpoint ops_ok (h : heap) (ops : list op) : Prop :=
  match ops with
  | [] => True
  | o :: r => op_ok h o /\ ops_ok (fst (step h o)) r
  end.

Fixpoint ops_defined (h : heap) (ops : list op) : Prop :=
  match ops with
  | [] => True
  | o :: r => op_defined h o /\ ops_defined (fst (step h o)) r
  end.

Lemma ops_defined_ok : forall ops h, ops_defined h ops -> ops_ok h ops.
Proof.
  induction ops as [|o r IH]; intros h H; simpl in *; auto.
  destruct H as [H1 H2]. split; [apply op_defined_ok; auto|apply IH; auto].
Qed.

Lemma ops_ok_app : forall ops1 ops2 h,
  ops_ok h (ops1 ++ ops2) -> ops_ok h ops1 /\ ops_ok (fst (run h ops1)) ops2.
Proof.
  induction ops1 as [|o r IH]; intros ops2 h H.
  - simpl in *. auto.
  - rewrite <- app_comm_cons in H. destruct H as [H1 H2].
    destruct (IH ops2 _ H2) as [H3 H4]. rewrite run_cons. simpl. auto.
Qed.

Theorem run_inv : forall ops h, inv h -> ops_ok h ops -> inv (fst (run h ops)).
Proof.
  induction ops as [|o r IH]; intros h Hinv Hok.
  - exact Hinv.
  - destruct Hok as [H1 H2]. rewrite run_cons. simpl.
    apply IH; [apply step_inv; auto|exact H2].
Qed.

(* the invariant holds in EVERY intermediate state of the run *)
Theorem run_inv_everywhere : forall ops1 ops2 h,
  inv h -> ops_ok h (ops1 ++ ops2) -> inv (fst (run h ops1)).
Proof.
  intros ops1 ops2 h Hinv Hok. apply run_inv; auto. apply (ops_ok_app _ _ _ Hok).
Qed.

Theorem run_no_err : forall ops h,
  inv h -> ops_defined h ops -> ~ In RErr (snd (run h ops)).
Proof.
  induction ops as [|o r IH]; intros h Hinv Hdef.
  - simpl. auto.
  - destruct Hdef as [H1 H2]. rewrite run_cons. simpl. intros [E|E].
    + apply (step_never_err_when_defined h o Hinv H1). exact E.
    + apply (IH (fst (step h o))); auto.
      apply step_inv; auto. apply op_defined_ok; auto.
Qed.

Lemma inv_empty : inv empty.
Proof.
  split; [|split].
  - intros j x y _ H. destruct j; discriminate.
  - constructor.
  - intros i x H. destruct i; discriminate.
Qed.

(* reachability from the empty queue *)
Inductive reachable : heap -> Prop :=
| reach_empty : reachable empty
| reach_step : forall h o, reachable h -> op_ok h o -> reachable (fst (step h o)).

Theorem reachable_inv : forall h, reachable h -> inv h.
Proof.
  induction 1 as [|h o Hr IH Hop]; [apply inv_empty|apply step_inv; auto].
Qed.

Theorem run_reachable : forall ops h,
  reachable h -> ops_ok h ops -> reachable (fst (run h ops)).
Proof.
  induction ops as [|o r IH]; intros h Hr Hok.
  - exact Hr.
  - destruct Hok as [H1 H2]. rewrite run_cons. simpl.
    apply IH; [apply reach_step; auto|exact H2].
Qed.

Corollary run_empty_inv : forall ops, ops_ok empty ops -> inv (fst (run empty ops)).
Proof. intros ops H. apply run_inv; [apply inv_empty|exact H]. Qed.

(* ------------------------------------------------------------------ *)
(* A concrete heap: five elements, two ties in priority (5,5 and 3,3),
   one priority change and one removal on the way.                     *)

Definition example_ops : list op :=
  [OPush 1 5; OPush 2 3; OPush 3 5; OPush 4 1; OPush 5 3; OPush 6 7;
   OFix 6 0; ORemove 4].

Example example_ops_defined : ops_defined empty example_ops.
Proof. vm_compute. intuition discriminate. Qed.

Definition example_arr : list elem :=
  [(6%N, 0%Z); (2%N, 3%Z); (3%N, 5%Z); (1%N, 5%Z); (5%N, 3%Z)].

Example example_state :
  arr (fst (run empty example_ops)) = example_arr /\
  snd (run empty example_ops) =
    [RUnit; RUnit; RUnit; RUnit; RUnit; RUnit; RUnit; RElem (4%N, 1%Z)].
Proof. vm_compute. split; reflexivity. Qed.

Example example_inv : inv (fst (run empty example_ops)).
Proof. apply run_empty_inv, ops_defined_ok, example_ops_defined. Qed.

(* the same fact for the literal heap value, without going through [run] *)
Example example_inv_literal :
  inv {| arr := example_arr;
         idx := idx (fst (run empty example_ops)) |}.
Proof.
  pose proof example_inv as H. destruct example_state as [Ea _].
  destruct (fst (run empty example_ops)) as [a ix] eqn:E. simpl in *. subst a. exact H.
Qed.

Print Assumptions push_ok.
Print Assumptions pop_ok.
Print Assumptions remove_ok.
Print Assumptions fix_ok.
Print Assumptions min_ok.
Print Assumptions step_inv.
Print Assumptions step_pop_min.
Print Assumptions step_min_min.
Print Assumptions step_never_err_when_defined.
Print Assumptions step_remove_id.
Print Assumptions step_fix_sets.
Print Assumptions run_inv.
Print Assumptions run_inv_everywhere.
Print Assumptions run_no_err.
Print Assumptions reachable_inv.
Print Assumptions run_reachable.
Print Assumptions example_inv.
Print Assumptions example_inv_literal.
