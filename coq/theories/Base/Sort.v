(* A merge sort parametrised by a boolean strict order [lt] (Go: Less).  It is
   stable; for a [lt] that is total on the elements sorted, every sorted
   permutation is the same list, so stability is immaterial (see Props). *)
From Coq Require Import List Arith.
Import ListNotations.

Section Sort.
  Context {A : Type} (lt : A -> A -> bool).

  Fixpoint merge (fuel : nat) (a b : list A) : list A :=
    match fuel with
    | O => a ++ b
    | S f =>
      match a, b with
      | [], _ => b
      | _, [] => a
      | x :: a', y :: b' => if lt y x then y :: merge f a b' else x :: merge f a' b
      end
    end.

  Fixpoint split (l : list A) : list A * list A :=
    match l with
    | [] => ([], [])
    | [x] => ([x], [])
    | x :: y :: r => let '(a, b) := split r in (x :: a, y :: b)
    end.

  (* stable variant of splitting: first half / second half *)
  Fixpoint msort (fuel : nat) (l : list A) : list A :=
    match fuel with
    | O => l
    | S f =>
      match l with
      | [] | [_] => l
      | _ => let n := Nat.div2 (length l) in
             let a := firstn n l in
             let b := skipn n l in
             merge (length l) (msort f a) (msort f b)
      end
    end.

  Definition sort (l : list A) : list A := msort (length l) l.
End Sort.
