(* UTF-8 decoding/encoding exactly as Go's unicode/utf8 DecodeRune /
   AppendRune (bytes and runes are [N]).  Invalid input decodes to
   (RuneError, 1); surrogates, overlong forms and values above 0x10FFFF are
   rejected through the accept ranges of the second byte. *)
From Coq Require Import List NArith Bool.
Import ListNotations.
Local Open Scope N_scope.

Definition byte := N.
Definition rune := N.
Definition RuneError : rune := 65533.

Definition cont (b : byte) : bool := (128 <=? b) && (b <=? 191).
Definition between (lo b hi : N) : bool := (lo <=? b) && (b <=? hi).

(* (rune, size); size 0 only for the empty input *)
Definition decode (p : list byte) : rune * nat :=
  match p with
  | [] => (RuneError, 0%nat)
  | p0 :: r =>
    if p0 <? 128 then (p0, 1%nat)
    else if p0 <? 194 then (RuneError, 1%nat)                 (* 0x80..0xC1 *)
    else if p0 <? 224 then                                     (* 0xC2..0xDF: 2 bytes *)
      match r with
      | b1 :: _ => if cont b1 then ((p0 - 192) * 64 + (b1 - 128), 2%nat) else (RuneError, 1%nat)
      | _ => (RuneError, 1%nat)
      end
    else if p0 <? 240 then                                     (* 0xE0..0xEF: 3 bytes *)
      let lo := if p0 =? 224 then 160 else 128 in
      let hi := if p0 =? 237 then 159 else 191 in
      match r with
      | b1 :: b2 :: _ =>
        if between lo b1 hi then
          if cont b2 then ((p0 - 224) * 4096 + (b1 - 128) * 64 + (b2 - 128), 3%nat)
          else (RuneError, 1%nat)
        else (RuneError, 1%nat)
      | _ => (RuneError, 1%nat)
      end
    else if p0 <? 245 then                                     (* 0xF0..0xF4: 4 bytes *)
      let lo := if p0 =? 240 then 144 else 128 in
      let hi := if p0 =? 244 then 143 else 191 in
      match r with
      | b1 :: b2 :: b3 :: _ =>
        if between lo b1 hi then
          if cont b2 then
            if cont b3 then ((p0 - 240) * 262144 + (b1 - 128) * 4096 + (b2 - 128) * 64 + (b3 - 128), 4%nat)
            else (RuneError, 1%nat)
          else (RuneError, 1%nat)
        else (RuneError, 1%nat)
      | _ => (RuneError, 1%nat)
      end
    else (RuneError, 1%nat)
  end.

Definition valid_rune (r : rune) : bool :=
  (r <? 55296) || ((57343 <? r) && (r <=? 1114111)).

(* utf8.AppendRune / EncodeRune: invalid runes are encoded as RuneError *)
Definition encode (r : rune) : list byte :=
  let r := if valid_rune r then r else RuneError in
  if r <? 128 then [r]
  else if r <? 2048 then [192 + r / 64; 128 + r mod 64]
  else if r <? 65536 then [224 + r / 4096; 128 + (r / 64) mod 64; 128 + r mod 64]
  else [240 + r / 262144; 128 + (r / 4096) mod 64; 128 + (r / 64) mod 64; 128 + r mod 64].

(* decoding a whole byte string, as `for _, r := range s` / repeated DecodeRune *)
Fixpoint decode_all_fuel (fuel : nat) (p : list byte) : list rune :=
  match fuel with
  | O => []
  | S f =>
    match p with
    | [] => []
    | _ => let '(r, n) := decode p in r :: decode_all_fuel f (skipn n p)
    end
  end.
Definition decode_all (p : list byte) : list rune := decode_all_fuel (length p) p.

Definition encode_all (rs : list rune) : list byte := flat_map encode rs.
