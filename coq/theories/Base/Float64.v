(* IEEE-754 binary64 arithmetic as Go's float64, on top of Coq.Floats.SpecFloat
   (pure Z computations; no primitive floats, no native_compute):
   conversions from/to integers and bit patterns, + - * /, comparisons,
   truncation (Go's int(x)) and math.Round. *)
From Coq Require Import ZArith Bool SpecFloat.
Local Open Scope Z_scope.

Definition prec : Z := 53.
Definition emax : Z := 1024.
Definition f64 := spec_float.

Definition of_Z (z : Z) : f64 := binary_normalize prec emax z 0 false.
Definition fadd : f64 -> f64 -> f64 := SFadd prec emax.
Definition fsub : f64 -> f64 -> f64 := SFsub prec emax.
Definition fmul : f64 -> f64 -> f64 := SFmul prec emax.
Definition fdiv : f64 -> f64 -> f64 := SFdiv prec emax.
Definition fle (a b : f64) : bool := SFleb a b.      (* a <= b, false on NaN *)
Definition flt (a b : f64) : bool := SFltb a b.
Definition feq (a b : f64) : bool := SFeqb a b.
Definition fone : f64 := of_Z 1.
Definition fzero : f64 := S754_zero false.

(* Go: int(x) for finite x truncates toward zero *)
Definition trunc (x : f64) : Z :=
  match x with
  | S754_finite s m e =>
    let v := match e with
             | Zneg p => Z.shiftr (Zpos m) (Zpos p)
             | _ => Zpos m * 2 ^ e
             end in
    if s then - v else v
  | _ => 0
  end.

(* math.Round: nearest integer, halves away from zero *)
Definition round_away (x : f64) : Z :=
  match x with
  | S754_finite s m e =>
    let v := match e with
             | Zneg p => let d := 2 ^ (Zpos p) in
                         let q := Zpos m / d in
                         let r := Zpos m mod d in
                         if d <=? 2 * r then q + 1 else q
             | _ => Zpos m * 2 ^ e
             end in
    if s then - v else v
  | _ => 0
  end.

(* IEEE bit pattern <-> spec_float (finite, zero, infinity, canonical NaN) *)
Definition to_bits (x : f64) : Z :=
  match x with
  | S754_zero s => if s then 2 ^ 63 else 0
  | S754_infinity s => (if s then 2 ^ 63 else 0) + 2047 * 2 ^ 52
  | S754_nan => 2047 * 2 ^ 52 + 2 ^ 51
  | S754_finite s m e =>
    let sg := if s then 2 ^ 63 else 0 in
    if Zpos m <? 2 ^ 52 then sg + Zpos m                           (* subnormal: e = -1074 *)
    else sg + (e + 1075) * 2 ^ 52 + (Zpos m - 2 ^ 52)
  end.

Definition of_bits (b : Z) : f64 :=
  let s := 2 ^ 63 <=? b in
  let b := if s then b - 2 ^ 63 else b in
  let ex := b / 2 ^ 52 in
  let fr := b mod 2 ^ 52 in
  if ex =? 2047 then (if fr =? 0 then S754_infinity s else S754_nan)
  else if ex =? 0 then
    match fr with Zpos m => S754_finite s m (-1074) | _ => S754_zero s end
  else match fr + 2 ^ 52 with Zpos m => S754_finite s m (ex - 1075) | _ => S754_nan end.

(* confidencePercentage of v2/scoring.go *)
Definition confidence (klen distance : Z) : f64 :=
  if klen =? 0 then fone else fsub fone (fdiv (of_Z distance) (of_Z klen)).
