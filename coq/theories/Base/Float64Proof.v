(* Properties of the binary64 model of Base/Float64.v, proved through Flocq:
   the SpecFloat operations used there are the ones Flocq's BinarySingleNaN
   operations are built from, so every result is the round-to-nearest-even
   image of the exact real result.  No axiom is declared here. *)
From Coq Require Import ZArith Bool Reals Psatz Lia Lra SpecFloat.
From Flocq Require Import Core Plus_error BinarySingleNaN.
From LC.Base Require Import Float64.
Local Open Scope Z_scope.

Local Instance Hprec : FLX.Prec_gt_0 prec := eq_refl _.
Local Instance Hmax : Prec_lt_emax prec emax := eq_refl _.

Notation b64 := (binary_float prec emax).
Notation fexp64 := (SpecFloat.fexp prec emax).
Notation rnd := (round radix2 fexp64 ZnearestE).

(* ------------------------------------------------------------------ *)
(* Bridge: SpecFloat operations = B2SF of Flocq operations             *)
(* ------------------------------------------------------------------ *)

Lemma round_nearest_even_equiv s m l :
  round_nearest_even m l = choice_mode mode_NE s m l.
Proof.
case l; [reflexivity|intro c].
case c; [ | reflexivity..].
now simpl; unfold Round.cond_incr; case Z.even.
Qed.

Lemma binary_round_aux_equiv sx mx ex lx :
  SpecFloat.binary_round_aux prec emax sx mx ex lx
  = BinarySingleNaN.binary_round_aux prec emax mode_NE sx mx ex lx.
Proof.
unfold SpecFloat.binary_round_aux, BinarySingleNaN.binary_round_aux.
set (mrse' := shr_fexp _ _ _).
case mrse'; intros mrs' e'; simpl.
now rewrite (round_nearest_even_equiv sx).
Qed.

Lemma binary_round_equiv s m e :
  SpecFloat.binary_round prec emax s m e =
  BinarySingleNaN.binary_round prec emax mode_NE s m e.
Proof.
unfold SpecFloat.binary_round, BinarySingleNaN.binary_round, shl_align_fexp.
set (mez := shl_align _ _ _); case mez as [mz ez].
apply binary_round_aux_equiv.
Qed.

Lemma binary_normalize_equiv m e szero :
  SpecFloat.binary_normalize prec emax m e szero
  = B2SF (BinarySingleNaN.binary_normalize prec emax Hprec Hmax mode_NE m e szero).
Proof.
case m as [ | p | p].
- now simpl.
- simpl; rewrite B2SF_SF2B; apply binary_round_equiv.
- simpl; rewrite B2SF_SF2B; apply binary_round_equiv.
Qed.

Definition BofZ (z : Z) : b64 :=
  BinarySingleNaN.binary_normalize prec emax Hprec Hmax mode_NE z 0 false.

Lemma of_Z_B : forall z, of_Z z = B2SF (BofZ z).
Proof. intros z. apply binary_normalize_equiv. Qed.

Lemma fsub_B : forall x y : b64,
  fsub (B2SF x) (B2SF y) = B2SF (Bminus mode_NE x y).
Proof.
intros x y. unfold fsub.
case x as [sx|sx| |sx mx ex Bx];
  case y as [sy|sy| |sy my ey By];
  [now (trivial || simpl; case Bool.eqb).. | ].
simpl.
unfold Zminus.
rewrite <- cond_Zopp_negb.
apply binary_normalize_equiv.
Qed.

Lemma fadd_B : forall x y : b64,
  fadd (B2SF x) (B2SF y) = B2SF (Bplus mode_NE x y).
Proof.
intros x y. unfold fadd.
case x as [sx|sx| |sx mx ex Bx];
  case y as [sy|sy| |sy my ey By];
  [now (trivial || simpl; case Bool.eqb).. | ].
apply binary_normalize_equiv.
Qed.

Lemma fmul_B : forall x y : b64,
  fmul (B2SF x) (B2SF y) = B2SF (Bmult mode_NE x y).
Proof.
intros x y. unfold fmul.
case x as [sx|sx| |sx mx ex Bx];
  case y as [sy|sy| |sy my ey By]; [now trivial.. | ].
simpl.
rewrite B2SF_SF2B.
apply binary_round_aux_equiv.
Qed.

Lemma fdiv_B : forall x y : b64,
  fdiv (B2SF x) (B2SF y) = B2SF (Bdiv mode_NE x y).
Proof.
intros x y. unfold fdiv.
case x as [sx|sx| |sx mx ex Bx];
  case y as [sy|sy| |sy my ey By];
  [now (trivial || simpl; case Bool.eqb).. | ].
simpl.
rewrite B2SF_SF2B.
set (melz := SFdiv_core_binary _ _ _ _ _ _).
case melz as [[mz ez] lz].
apply binary_round_aux_equiv.
Qed.

Lemma fle_B : forall x y : b64, fle (B2SF x) (B2SF y) = Bleb x y.
Proof. reflexivity. Qed.
Lemma flt_B : forall x y : b64, flt (B2SF x) (B2SF y) = Bltb x y.
Proof. reflexivity. Qed.
Lemma feq_B : forall x y : b64, feq (B2SF x) (B2SF y) = Beqb x y.
Proof. reflexivity. Qed.

(* ------------------------------------------------------------------ *)
(* Format facts                                                         *)
(* ------------------------------------------------------------------ *)

Local Instance fexp64_valid : Valid_exp fexp64 := FLT_exp_valid (-1074) 53.
Local Instance fexp64_mono : Monotone_exp fexp64 := FLT_exp_monotone (-1074) 53.

Lemma fexp64_FLT : fexp64 = FLT_exp (3 - 1024 - 53) 53.
Proof. reflexivity. Qed.

Lemma round_mode_NE : round_mode mode_NE = ZnearestE.
Proof. reflexivity. Qed.

Lemma generic_F2R : forall m e, (Z.abs m < 2 ^ 53)%Z -> (-1074 <= e)%Z ->
  generic_format radix2 fexp64 (F2R (Float radix2 m e)).
Proof.
intros m e Hm He.
change fexp64 with (FLT_exp (-1074) 53).
apply generic_format_FLT.
apply FLT_spec with (Float radix2 m e); simpl; auto.
Qed.

Lemma generic_Z : forall z, (Z.abs z < 2 ^ 53)%Z ->
  generic_format radix2 fexp64 (IZR z).
Proof.
intros z Hz.
replace (IZR z) with (F2R (Float radix2 z 0)).
- apply generic_F2R; auto; lia.
- unfold F2R; simpl; ring.
Qed.

Lemma generic_bpow53 : generic_format radix2 fexp64 (bpow radix2 53).
Proof.
rewrite <- F2R_bpow. apply generic_F2R; simpl; lia.
Qed.

Lemma generic_1 : generic_format radix2 fexp64 1%R.
Proof. apply (generic_Z 1). simpl; lia. Qed.

Lemma generic_0 : generic_format radix2 fexp64 0%R.
Proof. apply generic_format_0. Qed.

Lemma rnd_Z : forall z, (Z.abs z < 2 ^ 53)%Z -> rnd (IZR z) = IZR z.
Proof.
intros z Hz. apply round_generic; auto with typeclass_instances.
now apply generic_Z.
Qed.

Lemma rnd_1 : rnd 1%R = 1%R.
Proof. apply (rnd_Z 1). simpl; lia. Qed.

Lemma rnd_le : forall x y, (x <= y)%R -> (rnd x <= rnd y)%R.
Proof. intros; apply round_le; auto with typeclass_instances. Qed.

Lemma rnd_ge_0 : forall x, (0 <= x)%R -> (0 <= rnd x)%R.
Proof.
intros x Hx. rewrite <- (round_0 radix2 fexp64 ZnearestE).
now apply rnd_le.
Qed.

Lemma IZR_abs_lt_bpow53 : forall z, (Z.abs z < 2 ^ 53)%Z ->
  (Rabs (IZR z) < bpow radix2 53)%R.
Proof.
intros z Hz. rewrite <- abs_IZR.
change (bpow radix2 53) with (IZR (2 ^ 53)).
now apply IZR_lt.
Qed.

Lemma le53_lt_emax : forall x, (Rabs x <= bpow radix2 53)%R ->
  (Rabs x < bpow radix2 emax)%R.
Proof.
intros x Hx. apply Rle_lt_trans with (1 := Hx).
apply bpow_lt. reflexivity.
Qed.

Lemma rnd_abs_le53 : forall x, (Rabs x <= bpow radix2 53)%R ->
  (Rabs (rnd x) <= bpow radix2 53)%R.
Proof.
intros x Hx. apply abs_round_le_generic; auto with typeclass_instances.
apply generic_bpow53.
Qed.

(* ------------------------------------------------------------------ *)
(* of_Z                                                                 *)
(* ------------------------------------------------------------------ *)

Lemma BofZ_correct : forall z, (Z.abs z < 2 ^ 53)%Z ->
  B2R (BofZ z) = IZR z /\ is_finite (BofZ z) = true /\
  Bsign (BofZ z) = (z <? 0)%Z.
Proof.
intros z Hz.
generalize (binary_normalize_correct prec emax Hprec Hmax mode_NE z 0 false).
fold (BofZ z).
replace (F2R (Float radix2 z 0)) with (IZR z) by (unfold F2R; simpl; ring).
cbv zeta. rewrite round_mode_NE, rnd_Z by assumption.
rewrite Rlt_bool_true.
2:{ apply le53_lt_emax. apply Rlt_le. now apply IZR_abs_lt_bpow53. }
intros (H1 & H2 & H3). repeat split; auto.
rewrite H3. rewrite Rcompare_IZR. unfold Z.ltb.
now destruct (z ?= 0)%Z.
Qed.

(* ------------------------------------------------------------------ *)
(* confidence                                                           *)
(* ------------------------------------------------------------------ *)

Definition Bquo (k d : Z) : b64 := Bdiv mode_NE (BofZ d) (BofZ k).
Definition Bconf (k d : Z) : b64 := Bminus mode_NE (BofZ 1) (Bquo k d).

(* real-number readings *)
Definition Rquo (k d : Z) : R := rnd (IZR d / IZR k).
Definition Rconf (k d : Z) : R := rnd (1 - Rquo k d).

Lemma conf_B : forall k d, k <> 0%Z -> confidence k d = B2SF (Bconf k d).
Proof.
intros k d Hk. unfold confidence, Bconf, Bquo, fone.
apply Z.eqb_neq in Hk. rewrite Hk.
now rewrite !of_Z_B, fdiv_B, fsub_B.
Qed.

Lemma abs_small : forall z, (0 <= z < 2 ^ 53)%Z -> (Z.abs z < 2 ^ 53)%Z.
Proof. intros; rewrite Z.abs_eq; lia. Qed.

Lemma quo_real_bounds : forall k d, (0 < k)%Z -> (0 <= d)%Z ->
  (0 <= IZR d / IZR k <= IZR d)%R.
Proof.
intros k d Hk Hd.
assert (Hk' : (1 <= IZR k)%R) by (apply IZR_le; lia).
assert (Hd' : (0 <= IZR d)%R) by (apply IZR_le; lia).
assert (Hi : (0 < / IZR k <= 1)%R).
{ split. apply Rinv_0_lt_compat; lra.
  rewrite <- Rinv_1. apply Rinv_le_contravar; lra. }
unfold Rdiv. split.
- apply Rmult_le_pos; lra.
- rewrite <- (Rmult_1_r (IZR d)) at 2. apply Rmult_le_compat_l; lra.
Qed.

Lemma Rquo_bounds : forall k d, (0 < k)%Z -> (0 <= d < 2 ^ 53)%Z ->
  (0 <= Rquo k d <= bpow radix2 53)%R.
Proof.
intros k d Hk Hd. unfold Rquo.
destruct (quo_real_bounds k d Hk (proj1 Hd)) as [H0 H1].
split. now apply rnd_ge_0.
apply Rle_trans with (1 := RRle_abs _).
apply rnd_abs_le53. rewrite Rabs_pos_eq by assumption.
apply Rle_trans with (1 := H1).
change (bpow radix2 53) with (IZR (2 ^ 53)). apply IZR_le; lia.
Qed.

Lemma Bquo_correct : forall k d, (0 < k < 2 ^ 53)%Z -> (0 <= d < 2 ^ 53)%Z ->
  B2R (Bquo k d) = Rquo k d /\ is_finite (Bquo k d) = true.
Proof.
intros k d Hk Hd.
destruct (BofZ_correct k) as (K1 & K2 & K3). { apply abs_small; lia. }
destruct (BofZ_correct d (abs_small d Hd)) as (D1 & D2 & D3).
generalize (Bdiv_correct prec emax Hprec Hmax mode_NE (BofZ d) (BofZ k)).
fold (Bquo k d). rewrite K1, D1, round_mode_NE. fold (Rquo k d).
rewrite Rlt_bool_true.
2:{ apply le53_lt_emax. destruct (Rquo_bounds k d (proj1 Hk) Hd).
    rewrite Rabs_pos_eq; assumption. }
intros H. destruct H as (H1 & H2 & _).
{ apply IZR_neq; lia. }
split; auto. now rewrite H2.
Qed.

Lemma Rconf_arg_bounds : forall k d, (0 < k)%Z -> (0 <= d < 2 ^ 53)%Z ->
  (Rabs (1 - Rquo k d) <= bpow radix2 53)%R.
Proof.
intros k d Hk Hd. destruct (Rquo_bounds k d Hk Hd) as [H0 H1].
assert (1 <= bpow radix2 53)%R by (apply (bpow_le radix2 0 53); lia).
apply Rabs_le; lra.
Qed.

Lemma Bconf_correct : forall k d, (0 < k < 2 ^ 53)%Z -> (0 <= d < 2 ^ 53)%Z ->
  B2R (Bconf k d) = Rconf k d /\ is_finite (Bconf k d) = true /\
  B2SF (Bconf k d) <> S754_zero true.
Proof.
intros k d Hk Hd.
destruct (Bquo_correct k d Hk Hd) as (Q1 & Q2).
destruct (BofZ_correct 1) as (O1 & O2 & O3). { simpl; lia. }
generalize (Bminus_correct prec emax Hprec Hmax mode_NE (BofZ 1) (Bquo k d) O2 Q2).
fold (Bconf k d). rewrite O1, Q1, O3, round_mode_NE. fold (Rconf k d).
rewrite Rlt_bool_true.
2:{ apply le53_lt_emax. apply rnd_abs_le53. now apply Rconf_arg_bounds. }
intros (H1 & H2 & H3). repeat split; auto.
intros E.
assert (Bconf k d = B754_zero true) as E'.
{ apply B2SF_inj. exact E. }
rewrite E' in H1, H3. simpl in H1, H3.
revert H3. case Rcompare_spec; intros Hc; try discriminate.
intros _.
assert (rnd (1 + - Rquo k d) <> 0)%R as N.
{ apply Plus_error.round_plus_neq_0; auto with typeclass_instances.
  apply generic_1.
  apply generic_format_opp. unfold Rquo. apply generic_format_round; auto with typeclass_instances.
  lra. }
apply N. unfold Rconf in H1. unfold Rminus in H1. now rewrite <- H1.
Qed.

(* ------------------------------------------------------------------ *)
(* Predicates on spec floats, real value, comparisons                   *)
(* ------------------------------------------------------------------ *)

(* finite valid (canonical) binary64 datum *)
Definition finf (x : f64) : Prop :=
  valid_binary prec emax x = true /\ is_finite_SF x = true.

(* finite valid and not the negative zero: one datum per real value *)
Definition okf (x : f64) : Prop :=
  valid_binary prec emax x = true /\ is_finite_SF x = true /\ x <> S754_zero true.

Definition fval (x : f64) : R := SF2R radix2 x.

Lemma okf_finf : forall x, okf x -> finf x.
Proof. intros x (V & F & _); split; assumption. Qed.

Lemma finf_not_nan : forall x, finf x -> is_nan_SF x = false.
Proof. intros [ | | | ] [_ F]; try reflexivity; discriminate. Qed.

Lemma okf_not_nan : forall x, okf x -> x <> S754_nan.
Proof. intros x (_ & F & _) E. subst x. discriminate. Qed.

Lemma finf_B2SF : forall b : b64, is_finite b = true -> finf (B2SF b).
Proof.
intros b Hb. split. apply valid_binary_B2SF. now rewrite is_finite_SF_B2SF.
Qed.

Lemma fval_B2SF : forall b : b64, fval (B2SF b) = B2R b.
Proof. intros b. apply SF2R_B2SF. Qed.

Lemma finf_B : forall x, finf x ->
  exists b : b64, x = B2SF b /\ is_finite b = true /\ B2R b = fval x.
Proof.
intros x [V F]. exists (SF2B x V).
rewrite B2SF_SF2B, is_finite_SF2B, B2R_SF2B. auto.
Qed.

Lemma fle_R : forall a b, finf a -> finf b ->
  fle a b = Rle_bool (fval a) (fval b).
Proof.
intros a b Ha Hb.
destruct (finf_B a Ha) as (x & -> & Fx & <-).
destruct (finf_B b Hb) as (y & -> & Fy & <-).
rewrite fle_B. now apply Bleb_correct.
Qed.

Lemma flt_R : forall a b, finf a -> finf b ->
  flt a b = Rlt_bool (fval a) (fval b).
Proof.
intros a b Ha Hb.
destruct (finf_B a Ha) as (x & -> & Fx & <-).
destruct (finf_B b Hb) as (y & -> & Fy & <-).
rewrite flt_B. now apply Bltb_correct.
Qed.

Lemma feq_R : forall a b, finf a -> finf b ->
  feq a b = Req_bool (fval a) (fval b).
Proof.
intros a b Ha Hb.
destruct (finf_B a Ha) as (x & -> & Fx & <-).
destruct (finf_B b Hb) as (y & -> & Fy & <-).
rewrite feq_B. now apply Beqb_correct.
Qed.

Lemma fle_true_R : forall a b, finf a -> finf b ->
  (fle a b = true <-> (fval a <= fval b)%R).
Proof.
intros a b Ha Hb. rewrite fle_R by assumption.
case Rle_bool_spec; intros H; split; auto; try discriminate. lra.
Qed.

Lemma flt_true_R : forall a b, finf a -> finf b ->
  (flt a b = true <-> (fval a < fval b)%R).
Proof.
intros a b Ha Hb. rewrite flt_R by assumption.
case Rlt_bool_spec; intros H; split; auto; try discriminate. lra.
Qed.

Lemma feq_true_R : forall a b, finf a -> finf b ->
  (feq a b = true <-> fval a = fval b).
Proof.
intros a b Ha Hb. rewrite feq_R by assumption.
case Req_bool_spec; intros H; split; auto; try discriminate; try contradiction.
Qed.

Theorem fle_refl : forall a, finf a -> fle a a = true.
Proof. intros a Ha. apply fle_true_R; auto. lra. Qed.

Theorem fle_trans : forall a b c, finf a -> finf b -> finf c ->
  fle a b = true -> fle b c = true -> fle a c = true.
Proof.
intros a b c Ha Hb Hc H1 H2.
apply fle_true_R in H1; auto. apply fle_true_R in H2; auto.
apply fle_true_R; auto. lra.
Qed.

Theorem fle_total : forall a b, finf a -> finf b ->
  fle a b = true \/ fle b a = true.
Proof.
intros a b Ha Hb.
destruct (Rle_or_lt (fval a) (fval b)) as [H|H].
- left. now apply fle_true_R.
- right. apply fle_true_R; auto. lra.
Qed.

Theorem fle_antisym : forall a b, finf a -> finf b ->
  fle a b = true -> fle b a = true -> feq a b = true.
Proof.
intros a b Ha Hb H1 H2.
apply fle_true_R in H1; auto. apply fle_true_R in H2; auto.
apply feq_true_R; auto. lra.
Qed.

Theorem feq_fle : forall a b, finf a -> finf b ->
  feq a b = true -> fle a b = true.
Proof.
intros a b Ha Hb H. apply feq_true_R in H; auto.
apply fle_true_R; auto. lra.
Qed.

Theorem feq_refl : forall a, finf a -> feq a a = true.
Proof. intros a Ha. now apply feq_true_R. Qed.

Theorem feq_sym : forall a b, finf a -> finf b -> feq a b = feq b a.
Proof.
intros a b Ha Hb. rewrite !feq_R by assumption.
case Req_bool_spec; case Req_bool_spec; intros; auto; congruence.
Qed.

Theorem flt_iff : forall a b, finf a -> finf b ->
  (flt a b = true <-> fle a b = true /\ feq a b = false).
Proof.
intros a b Ha Hb.
rewrite flt_true_R, fle_true_R, feq_R by assumption.
case Req_bool_spec; intros H; split.
- intros; lra.
- intros [_ H']; discriminate.
- intros; split; auto; lra.
- intros [H' _]; lra.
Qed.

Theorem fle_false_flt : forall a b, finf a -> finf b ->
  fle a b = false -> flt b a = true.
Proof.
intros a b Ha Hb. rewrite fle_R by assumption.
case Rle_bool_spec; intros H; try discriminate. intros _.
now apply flt_true_R.
Qed.

Theorem flt_fle : forall a b, finf a -> finf b ->
  flt a b = true -> fle a b = true.
Proof. intros a b Ha Hb H. now apply flt_iff in H. Qed.

Theorem flt_false_fle : forall a b, finf a -> finf b ->
  flt a b = false -> fle b a = true.
Proof.
intros a b Ha Hb. rewrite flt_R by assumption.
case Rlt_bool_spec; intros H; try discriminate. intros _.
now apply fle_true_R.
Qed.

(* canonical representation: equal value implies same datum *)
Theorem feq_eq : forall a b, okf a -> okf b -> feq a b = true -> a = b.
Proof.
intros a b (_ & Fa & Na) (_ & Fb & Nb).
destruct a as [sa|sa| |sa ma ea], b as [sb|sb| |sb mb eb];
  try discriminate; unfold feq, SFeqb; simpl.
- intros _. destruct sa, sb; congruence.
- destruct sb; discriminate.
- destruct sa; discriminate.
- destruct sa, sb; try discriminate;
    destruct (Z.compare_spec ea eb) as [He|He|He]; try discriminate;
    change (Pos.compare_cont Eq ma mb) with (Pos.compare ma mb);
    destruct (Pos.compare_spec ma mb) as [Hm|Hm|Hm]; try discriminate;
    intros _; congruence.
Qed.

Theorem feq_eq_iff : forall a b, okf a -> okf b -> (feq a b = true <-> a = b).
Proof.
intros a b Ha Hb. split. now apply feq_eq.
intros <-. apply feq_refl. now apply okf_finf.
Qed.

(* ------------------------------------------------------------------ *)
(* of_Z, fone, fzero, confidence are canonical finite data              *)
(* ------------------------------------------------------------------ *)

Theorem okf_of_Z : forall z, (Z.abs z < 2 ^ 53)%Z -> okf (of_Z z).
Proof.
intros z Hz. rewrite of_Z_B.
destruct (BofZ_correct z Hz) as (H1 & H2 & H3).
split. apply valid_binary_B2SF.
split. now rewrite is_finite_SF_B2SF.
intros E.
assert (BofZ z = B754_zero true) as E' by (apply B2SF_inj; exact E).
rewrite E' in H1, H3. simpl in H1, H3.
assert (z = 0%Z) by (apply eq_IZR; auto). subst z. discriminate.
Qed.

Theorem fval_of_Z : forall z, (Z.abs z < 2 ^ 53)%Z -> fval (of_Z z) = IZR z.
Proof.
intros z Hz. rewrite of_Z_B, fval_B2SF. now apply BofZ_correct.
Qed.

Theorem okf_one : okf fone.
Proof. apply okf_of_Z. simpl; lia. Qed.

Theorem fval_one : fval fone = 1%R.
Proof. apply (fval_of_Z 1). simpl; lia. Qed.

Theorem okf_zero : okf fzero.
Proof. repeat split. discriminate. Qed.

Theorem fval_zero : fval fzero = 0%R.
Proof. reflexivity. Qed.

Notation conf := confidence.

Theorem okf_conf : forall k d, (0 < k < 2 ^ 53)%Z -> (0 <= d < 2 ^ 53)%Z ->
  okf (conf k d).
Proof.
intros k d Hk Hd. rewrite conf_B by lia.
destruct (Bconf_correct k d Hk Hd) as (H1 & H2 & H3).
split. apply valid_binary_B2SF.
split. now rewrite is_finite_SF_B2SF.
exact H3.
Qed.

Theorem conf_not_nan : forall k d, (0 < k < 2 ^ 53)%Z -> (0 <= d < 2 ^ 53)%Z ->
  conf k d <> S754_nan.
Proof. intros. apply okf_not_nan. now apply okf_conf. Qed.

(* 5. real-number reading: fl(1 - fl(d / k)) in binary64, nearest-even *)
Theorem conf_value : forall k d, (0 < k < 2 ^ 53)%Z -> (0 <= d < 2 ^ 53)%Z ->
  SF2R radix2 (conf k d) =
  round radix2 (FLT_exp (3 - 1024 - 53) 53) ZnearestE
    (1 - round radix2 (FLT_exp (3 - 1024 - 53) 53) ZnearestE (IZR d / IZR k)).
Proof.
intros k d Hk Hd. rewrite conf_B by lia.
rewrite SF2R_B2SF.
now destruct (Bconf_correct k d Hk Hd) as (H1 & _).
Qed.

Lemma fval_conf : forall k d, (0 < k < 2 ^ 53)%Z -> (0 <= d < 2 ^ 53)%Z ->
  fval (conf k d) = Rconf k d.
Proof. intros k d Hk Hd. unfold fval. now rewrite conf_value. Qed.

(* real-number facts about Rquo / Rconf *)
Lemma Rquo_mono : forall k d1 d2, (0 < k)%Z -> (d1 <= d2)%Z ->
  (Rquo k d1 <= Rquo k d2)%R.
Proof.
intros k d1 d2 Hk Hd. unfold Rquo. apply rnd_le.
unfold Rdiv. apply Rmult_le_compat_r.
- apply Rlt_le, Rinv_0_lt_compat, IZR_lt. lia.
- now apply IZR_le.
Qed.

Lemma Rconf_antitone : forall k d1 d2, (0 < k)%Z -> (d1 <= d2)%Z ->
  (Rconf k d2 <= Rconf k d1)%R.
Proof.
intros k d1 d2 Hk Hd. unfold Rconf. apply rnd_le.
generalize (Rquo_mono k d1 d2 Hk Hd). lra.
Qed.

Lemma Rquo_0 : forall k, Rquo k 0 = 0%R.
Proof.
intros k. unfold Rquo, Rdiv. rewrite Rmult_0_l. apply round_0.
auto with typeclass_instances.
Qed.

Lemma Rconf_0 : forall k, Rconf k 0 = 1%R.
Proof.
intros k. unfold Rconf. rewrite Rquo_0, Rminus_0_r. apply rnd_1.
Qed.

Lemma Rconf_le_1 : forall k d, (0 < k)%Z -> (0 <= d)%Z -> (Rconf k d <= 1)%R.
Proof.
intros k d Hk Hd. rewrite <- (Rconf_0 k). now apply Rconf_antitone.
Qed.

Lemma Rquo_le_1 : forall k d, (0 < k)%Z -> (0 <= d <= k)%Z -> (Rquo k d <= 1)%R.
Proof.
intros k d Hk Hd. unfold Rquo.
apply round_le_generic; auto with typeclass_instances. apply generic_1.
assert (0 < IZR k)%R by (apply IZR_lt; lia).
assert (IZR d <= IZR k)%R by (apply IZR_le; lia).
apply Rmult_le_reg_r with (IZR k); auto.
unfold Rdiv. rewrite Rmult_assoc, Rinv_l by lra. lra.
Qed.

Lemma Rconf_ge_0 : forall k d, (0 < k)%Z -> (0 <= d <= k)%Z -> (0 <= Rconf k d)%R.
Proof.
intros k d Hk Hd. unfold Rconf. apply rnd_ge_0.
generalize (Rquo_le_1 k d Hk Hd). lra.
Qed.

Lemma Rconf_lt_1 : forall k d, (0 < k < 2 ^ 53)%Z -> (0 < d)%Z -> (Rconf k d < 1)%R.
Proof.
intros k d Hk Hd.
assert (Hp : (0 < bpow radix2 (-53))%R) by apply bpow_gt_0.
assert (Hpp : (bpow radix2 53 * bpow radix2 (-53) = 1)%R).
{ rewrite <- bpow_plus. reflexivity. }
(* fl(d/k) >= 2^-53 *)
assert (Hq : (bpow radix2 (-53) <= Rquo k d)%R).
{ unfold Rquo. apply round_ge_generic; auto with typeclass_instances.
  - rewrite <- F2R_bpow. apply generic_F2R; simpl; lia.
  - assert (0 < IZR k)%R by (apply IZR_lt; lia).
    assert (IZR k <= bpow radix2 53)%R.
    { change (bpow radix2 53) with (IZR (2 ^ 53)). apply IZR_le; lia. }
    assert (1 <= IZR d)%R by (apply IZR_le; lia).
    apply Rmult_le_reg_r with (IZR k); auto.
    unfold Rdiv. rewrite Rmult_assoc, Rinv_l by lra.
    apply Rle_trans with (bpow radix2 (-53) * bpow radix2 53)%R.
    + apply Rmult_le_compat_l; lra.
    + rewrite Rmult_comm, Hpp. lra. }
(* 1 - 2^-53 is representable *)
assert (Hg : generic_format radix2 fexp64 (1 - bpow radix2 (-53))%R).
{ replace (1 - bpow radix2 (-53))%R with (F2R (Float radix2 (2 ^ 53 - 1) (-53))).
  - apply generic_F2R; simpl; lia.
  - unfold F2R. cbn [Fnum Fexp].
    replace (IZR (2 ^ 53 - 1)) with (bpow radix2 53 - 1)%R. lra.
    change (bpow radix2 53) with (IZR (2 ^ 53)). now rewrite minus_IZR. }
apply Rle_lt_trans with (1 - bpow radix2 (-53))%R; [|lra].
unfold Rconf. apply round_le_generic; auto with typeclass_instances. lra.
Qed.

(* ------------------------------------------------------------------ *)
(* Main theorems about confidence                                       *)
(* ------------------------------------------------------------------ *)

(* 1 *)
Theorem conf_zero : forall k, (0 < k < 2 ^ 53)%Z -> conf k 0 = fone.
Proof.
intros k Hk.
assert (Hd : (0 <= 0 < 2 ^ 53)%Z) by (simpl; lia).
apply feq_eq. now apply okf_conf. apply okf_one.
apply feq_true_R. apply okf_finf; now apply okf_conf. apply okf_finf, okf_one.
rewrite fval_conf, fval_one by assumption. apply Rconf_0.
Qed.

Theorem conf_one_iff : forall k d, (0 < k < 2 ^ 53)%Z -> (0 <= d < 2 ^ 53)%Z ->
  (feq (conf k d) fone = true <-> d = 0%Z).
Proof.
intros k d Hk Hd.
assert (Fc := okf_finf _ (okf_conf k d Hk Hd)).
assert (F1 := okf_finf _ okf_one).
rewrite feq_true_R, fval_conf, fval_one by assumption.
split.
- intros H. destruct (Z.eq_dec d 0) as [E|E]; auto.
  assert (Rconf k d < 1)%R by (apply Rconf_lt_1; lia). lra.
- intros ->. apply Rconf_0.
Qed.

(* 2 *)
Theorem conf_le_one : forall k d, (0 < k < 2 ^ 53)%Z -> (0 <= d < 2 ^ 53)%Z ->
  fle (conf k d) fone = true.
Proof.
intros k d Hk Hd.
apply fle_true_R. apply okf_finf; now apply okf_conf. apply okf_finf, okf_one.
rewrite fval_conf, fval_one by assumption. apply Rconf_le_1; lia.
Qed.

(* 3 *)
Theorem conf_antitone : forall k d1 d2, (0 < k < 2 ^ 53)%Z ->
  (0 <= d1 <= d2)%Z -> (d2 < 2 ^ 53)%Z ->
  fle (conf k d2) (conf k d1) = true.
Proof.
intros k d1 d2 Hk Hd H2.
apply fle_true_R; try (apply okf_finf, okf_conf; lia).
rewrite !fval_conf by lia. apply Rconf_antitone; lia.
Qed.

(* 4 *)
Theorem conf_nonneg_when_le : forall k d, (0 < k < 2 ^ 53)%Z -> (0 <= d <= k)%Z ->
  fle fzero (conf k d) = true.
Proof.
intros k d Hk Hd.
apply fle_true_R. apply okf_finf, okf_zero. apply okf_finf, okf_conf; lia.
rewrite fval_conf, fval_zero by lia. apply Rconf_ge_0; lia.
Qed.

(* 7 *)
Theorem fle_trans_conf : forall thr k d1 d2, finf thr -> (0 < k < 2 ^ 53)%Z ->
  (0 <= d1 <= d2)%Z -> (d2 < 2 ^ 53)%Z ->
  fle thr (conf k d2) = true -> fle thr (conf k d1) = true.
Proof.
intros thr k d1 d2 Ht Hk Hd H2 H.
apply fle_trans with (conf k d2); auto; try (apply okf_finf, okf_conf; lia).
now apply conf_antitone.
Qed.

(* 8 *)
Example conf_5_1_bits : to_bits (conf 5 1) = 4605380978949069210%Z.
Proof. vm_compute. reflexivity. Qed.
Example fone_bits : to_bits fone = 4607182418800017408%Z.
Proof. vm_compute. reflexivity. Qed.
Example of_bits_conf_5_1 : of_bits 4605380978949069210 = conf 5 1.
Proof. vm_compute. reflexivity. Qed.

(* ------------------------------------------------------------------ *)
(* Closure of validity, and the order facts on all non-NaN valid data   *)
(* (finite or infinite)                                                 *)
(* ------------------------------------------------------------------ *)

Lemma valid_of_Z : forall z, valid_binary prec emax (of_Z z) = true.
Proof. intros z. rewrite of_Z_B. apply valid_binary_B2SF. Qed.

Lemma valid_fdiv : forall a b, valid_binary prec emax a = true ->
  valid_binary prec emax b = true -> valid_binary prec emax (fdiv a b) = true.
Proof.
intros a b Va Vb.
rewrite <- (B2SF_SF2B prec emax a Va), <- (B2SF_SF2B prec emax b Vb), fdiv_B.
apply valid_binary_B2SF.
Qed.

Lemma valid_fsub : forall a b, valid_binary prec emax a = true ->
  valid_binary prec emax b = true -> valid_binary prec emax (fsub a b) = true.
Proof.
intros a b Va Vb.
rewrite <- (B2SF_SF2B prec emax a Va), <- (B2SF_SF2B prec emax b Vb), fsub_B.
apply valid_binary_B2SF.
Qed.

Lemma valid_fadd : forall a b, valid_binary prec emax a = true ->
  valid_binary prec emax b = true -> valid_binary prec emax (fadd a b) = true.
Proof.
intros a b Va Vb.
rewrite <- (B2SF_SF2B prec emax a Va), <- (B2SF_SF2B prec emax b Vb), fadd_B.
apply valid_binary_B2SF.
Qed.

Lemma valid_fmul : forall a b, valid_binary prec emax a = true ->
  valid_binary prec emax b = true -> valid_binary prec emax (fmul a b) = true.
Proof.
intros a b Va Vb.
rewrite <- (B2SF_SF2B prec emax a Va), <- (B2SF_SF2B prec emax b Vb), fmul_B.
apply valid_binary_B2SF.
Qed.

(* valid and not NaN *)
Definition vnn (x : f64) : Prop :=
  valid_binary prec emax x = true /\ is_nan_SF x = false.

Lemma finf_vnn : forall x, finf x -> vnn x.
Proof. intros x H. split. apply H. now apply finf_not_nan. Qed.

Ltac vnn_cases :=
  unfold fle, flt, feq, SFleb, SFltb, SFeqb; simpl;
  repeat match goal with s : bool |- _ => destruct s end;
  simpl; try tauto; try (intuition congruence).

Ltac by_finf L :=
  apply L; try (split; [assumption|reflexivity]).

Theorem fle_refl_nn : forall a, vnn a -> fle a a = true.
Proof.
intros a [Va Na]. destruct a as [sa|sa| |sa ma ea]; try discriminate;
  try (by_finf fle_refl; fail); vnn_cases.
Qed.

Theorem fle_total_nn : forall a b, vnn a -> vnn b ->
  fle a b = true \/ fle b a = true.
Proof.
intros a b [Va Na] [Vb Nb].
destruct a as [sa|sa| |sa ma ea], b as [sb|sb| |sb mb eb]; try discriminate;
  try (by_finf fle_total; fail); vnn_cases.
Qed.

Theorem fle_trans_nn : forall a b c, vnn a -> vnn b -> vnn c ->
  fle a b = true -> fle b c = true -> fle a c = true.
Proof.
intros a b c [Va Na] [Vb Nb] [Vc Nc].
destruct a as [sa|sa| |sa ma ea], b as [sb|sb| |sb mb eb],
  c as [sc|sc| |sc mc ec]; try discriminate;
  try (by_finf fle_trans; fail); vnn_cases.
Qed.

Theorem feq_fle_nn : forall a b, vnn a -> vnn b ->
  feq a b = true -> fle a b = true.
Proof.
intros a b [Va Na] [Vb Nb].
destruct a as [sa|sa| |sa ma ea], b as [sb|sb| |sb mb eb]; try discriminate;
  try (by_finf feq_fle; fail); vnn_cases.
Qed.

Theorem flt_iff_nn : forall a b, vnn a -> vnn b ->
  (flt a b = true <-> fle a b = true /\ feq a b = false).
Proof.
intros a b [Va Na] [Vb Nb].
destruct a as [sa|sa| |sa ma ea], b as [sb|sb| |sb mb eb]; try discriminate;
  try (by_finf flt_iff; fail); vnn_cases.
Qed.

Theorem fle_false_flt_nn : forall a b, vnn a -> vnn b ->
  fle a b = false -> flt b a = true.
Proof.
intros a b [Va Na] [Vb Nb].
destruct a as [sa|sa| |sa ma ea], b as [sb|sb| |sb mb eb]; try discriminate;
  try (by_finf fle_false_flt; fail); vnn_cases.
Qed.

(* NaN is unordered: the non-NaN hypothesis is necessary *)
Example fle_nan_l : forall a, fle S754_nan a = false.
Proof. reflexivity. Qed.
Example fle_nan_r : forall a, fle a S754_nan = false.
Proof. intros [ | | | ]; reflexivity. Qed.

(* ------------------------------------------------------------------ *)
Print Assumptions feq_eq.
Print Assumptions okf_conf.
Print Assumptions okf_one.
Print Assumptions okf_zero.
Print Assumptions okf_of_Z.
Print Assumptions fle_refl.
Print Assumptions fle_trans.
Print Assumptions fle_total.
Print Assumptions feq_fle.
Print Assumptions flt_iff.
Print Assumptions fle_false_flt.
Print Assumptions fle_trans_nn.
Print Assumptions conf_zero.
Print Assumptions conf_one_iff.
Print Assumptions conf_le_one.
Print Assumptions conf_antitone.
Print Assumptions conf_nonneg_when_le.
Print Assumptions conf_value.
Print Assumptions fle_trans_conf.
Print Assumptions conf_5_1_bits.
Print Assumptions fone_bits.
Print Assumptions of_bits_conf_5_1.
