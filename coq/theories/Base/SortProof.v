(* Correctness of the fuel-based merge sort of Base/Sort.v, for an arbitrary
   boolean comparator [lt : A -> A -> bool] (Go: Less).

   Notation: [le_of lt x y := (lt y x = false)], "y is not strictly below x",
   the non-strict order induced by [lt].  "Sorted" always means
   [StronglySorted (le_of lt)].

   - [sort_perm]            the result is a permutation of the input (no hypothesis)
   - [merge_fuel], [msort_fuel]   any fuel >= the obvious bound gives the same result:
                            the fuel of [sort] really suffices
   - [sort_sorted]          the result is sorted, provided [le_of lt] is total
                            (<-> [lt] asymmetric) and transitive; no totality of [lt]
   - [sorted_perm_unique]   for a strict total order two sorted permutations coincide
   - [sort_perm_invariant]  hence [sort] does not depend on the order of its input
   - [sort_characterised]   ... and ANY sorting algorithm (stable or not) run on ANY
                            permutation of the input returns [sort lt l]
   All of these come in a relativised form ([_on P]) where the order axioms are only
   required on elements satisfying [P] (used for floats: NaN excluded). *)
From Coq Require Import List Arith Bool Lia Permutation Sorted.
From LC.Base Require Import Sort.
Import ListNotations.

Set Implicit Arguments.

Definition le_of {A} (lt : A -> A -> bool) : A -> A -> Prop := fun x y => lt y x = false.

(* ------------------------------------------------------------------ *)
(* Order axioms                                                        *)

Definition strict_total {A} (lt : A -> A -> bool) : Prop :=
  (forall x, lt x x = false) /\
  (forall x y z, lt x y = true -> lt y z = true -> lt x z = true) /\
  (forall x y, lt x y = false -> lt y x = false -> x = y).

(* the same, required only on the elements satisfying [P] *)
Definition strict_total_on {A} (P : A -> Prop) (lt : A -> A -> bool) : Prop :=
  (forall x, P x -> lt x x = false) /\
  (forall x y z, P x -> P y -> P z -> lt x y = true -> lt y z = true -> lt x z = true) /\
  (forall x y, P x -> P y -> lt x y = false -> lt y x = false -> x = y).

Lemma strict_total_is_on : forall A (lt : A -> A -> bool),
  strict_total lt <-> strict_total_on (fun _ => True) lt.
Proof.
  intros A lt; unfold strict_total, strict_total_on; split.
  - intros (Hi & Ht & Hc); repeat split; intros; eauto.
  - intros (Hi & Ht & Hc); repeat split; intros; eauto.
Qed.

Lemma strict_total_on_weaken : forall A (P Q : A -> Prop) (lt : A -> A -> bool),
  (forall x, Q x -> P x) -> strict_total_on P lt -> strict_total_on Q lt.
Proof.
  intros A P Q lt HQP (Hi & Ht & Hc); repeat split; intros; eauto 10.
Qed.

(* what merge sort needs: the non-strict order is total and transitive *)
Definition asym_on {A} (P : A -> Prop) (lt : A -> A -> bool) : Prop :=
  forall x y, P x -> P y -> lt y x = true -> lt x y = false.
Definition le_trans_on {A} (P : A -> Prop) (lt : A -> A -> bool) : Prop :=
  forall x y z, P x -> P y -> P z -> lt y x = false -> lt z y = false -> lt z x = false.

Lemma strict_total_on_asym : forall A (P : A -> Prop) (lt : A -> A -> bool),
  strict_total_on P lt -> asym_on P lt.
Proof.
  intros A P lt (Hi & Ht & _) x y Px Py Hyx.
  destruct (lt x y) eqn:Hxy; [|reflexivity].
  rewrite <- (Hi x Px). symmetry. exact (Ht x y x Px Py Px Hxy Hyx).
Qed.

Lemma strict_total_on_le_trans : forall A (P : A -> Prop) (lt : A -> A -> bool),
  strict_total_on P lt -> le_trans_on P lt.
Proof.
  intros A P lt (Hi & Ht & Hc) x y z Px Py Pz Hyx Hzy.
  destruct (lt z x) eqn:Hzx; [|reflexivity].
  destruct (lt x y) eqn:Hxy.
  - rewrite (Ht z x y Pz Px Py Hzx Hxy) in Hzy. discriminate.
  - assert (x = y) as -> by (apply Hc; assumption).
    rewrite Hzx in Hzy. discriminate.
Qed.

(* ------------------------------------------------------------------ *)
(* Permutation                                                         *)

Section Perm.
  Context {A : Type} (lt : A -> A -> bool).

  Lemma merge_perm : forall fuel a b, Permutation (merge lt fuel a b) (a ++ b).
  Proof.
    induction fuel as [|f IH]; intros a b; simpl.
    - apply Permutation_refl.
    - destruct a as [|x a']; [apply Permutation_refl|].
      destruct b as [|y b']; [rewrite app_nil_r; apply Permutation_refl|].
      destruct (lt y x).
      + eapply Permutation_trans; [apply perm_skip, IH|].
        apply (Permutation_middle (x :: a') b' y).
      + simpl. apply perm_skip, IH.
  Qed.

  Lemma msort_perm : forall fuel l, Permutation (msort lt fuel l) l.
  Proof.
    induction fuel as [|f IH]; intros l; simpl.
    - apply Permutation_refl.
    - destruct l as [|x [|y r]]; try apply Permutation_refl.
      set (l := x :: y :: r).
      eapply Permutation_trans; [apply merge_perm|].
      eapply Permutation_trans; [apply Permutation_app; apply IH|].
      rewrite firstn_skipn. apply Permutation_refl.
  Qed.

  Theorem sort_perm' : forall l, Permutation (sort lt l) l.
  Proof. intros l; apply msort_perm. Qed.

  Lemma merge_length : forall fuel a b, length (merge lt fuel a b) = length a + length b.
  Proof.
    intros. rewrite (Permutation_length (merge_perm fuel a b)). apply app_length.
  Qed.

  Lemma msort_length : forall fuel l, length (msort lt fuel l) = length l.
  Proof. intros. apply Permutation_length, msort_perm. Qed.

  Lemma sort_length : forall l, length (sort lt l) = length l.
  Proof. intros. apply msort_length. Qed.

  Lemma sort_in : forall l x, In x (sort lt l) <-> In x l.
  Proof.
    intros l x; split; apply Permutation_in;
      [apply sort_perm' | apply Permutation_sym, sort_perm'].
  Qed.
End Perm.

Theorem sort_perm : forall A (lt : A -> A -> bool) l, Permutation (sort lt l) l.
Proof. intros; apply sort_perm'. Qed.

(* ------------------------------------------------------------------ *)
(* The fuel suffices: more fuel never changes the result               *)

Section Fuel.
  Context {A : Type} (lt : A -> A -> bool).

  Lemma merge_fuel : forall f1 f2 a b,
    length a + length b <= f1 -> length a + length b <= f2 ->
    merge lt f1 a b = merge lt f2 a b.
  Proof.
    induction f1 as [|f1 IH]; intros f2 a b H1 H2.
    - destruct a; destruct b; simpl in H1; try lia. destruct f2; reflexivity.
    - destruct f2 as [|f2].
      + destruct a; destruct b; simpl in H2; try lia. reflexivity.
      + simpl. destruct a as [|x a']; [reflexivity|].
        destruct b as [|y b']; [reflexivity|].
        simpl in H1, H2.
        destruct (lt y x); f_equal; apply IH; simpl; lia.
  Qed.

  (* the equations one would write without fuel *)
  Lemma merge_eqn : forall f x a y b,
    length (x :: a) + length (y :: b) <= f ->
    merge lt f (x :: a) (y :: b) =
    if lt y x then y :: merge lt f (x :: a) b else x :: merge lt f a (y :: b).
  Proof.
    intros f x a y b H. destruct f as [|f]; [simpl in H; lia|].
    simpl in H.
    rewrite (@merge_fuel (S f) f (x :: a) b) by (simpl; lia).
    rewrite (@merge_fuel (S f) f a (y :: b)) by (simpl; lia).
    reflexivity.
  Qed.

  Lemma div2_lt : forall n, 2 <= n -> Nat.div2 n < n /\ 1 <= Nat.div2 n.
  Proof.
    intros n Hn. split.
    - apply Nat.lt_div2. lia.
    - destruct n as [|[|n]]; try lia. simpl. lia.
  Qed.

  Lemma msort_fuel : forall f1 f2 l,
    length l <= f1 -> length l <= f2 -> msort lt f1 l = msort lt f2 l.
  Proof.
    induction f1 as [|f1 IH]; intros f2 l H1 H2.
    - destruct l; simpl in H1; [|lia]. destruct f2; reflexivity.
    - destruct f2 as [|f2].
      + destruct l; simpl in H2; [|lia]. reflexivity.
      + destruct l as [|x [|y r]]; try reflexivity.
        cbn [msort].
        set (l := x :: y :: r) in *.
        assert (Hl : 2 <= length l) by (subst l; simpl; lia).
        destruct (div2_lt Hl) as [Hd1 Hd2].
        assert (Ha : length (firstn (Nat.div2 (length l)) l) = Nat.div2 (length l))
          by (apply firstn_length_le; lia).
        assert (Hb : length (skipn (Nat.div2 (length l)) l) = length l - Nat.div2 (length l))
          by apply skipn_length.
        rewrite (IH f2 (firstn _ l)) by lia.
        rewrite (IH f2 (skipn _ l)) by lia.
        reflexivity.
  Qed.

  Lemma sort_fuel : forall f l, length l <= f -> msort lt f l = sort lt l.
  Proof. intros f l H. unfold sort. apply msort_fuel; lia. Qed.

  (* fuel-free recursion equation of [sort] *)
  Lemma sort_eqn : forall l, 2 <= length l ->
    sort lt l =
    merge lt (length l) (sort lt (firstn (Nat.div2 (length l)) l))
                        (sort lt (skipn (Nat.div2 (length l)) l)).
  Proof.
    intros l Hl. unfold sort at 1.
    destruct l as [|x [|y r]]; try (simpl in Hl; lia).
    set (l := x :: y :: r) in *.
    destruct (div2_lt Hl) as [Hd1 Hd2].
    assert (Ha : length (firstn (Nat.div2 (length l)) l) = Nat.div2 (length l))
      by (apply firstn_length_le; lia).
    assert (Hb : length (skipn (Nat.div2 (length l)) l) = length l - Nat.div2 (length l))
      by apply skipn_length.
    replace (msort lt (length l) l) with
        (merge lt (length l) (msort lt (length l - 1) (firstn (Nat.div2 (length l)) l))
                             (msort lt (length l - 1) (skipn (Nat.div2 (length l)) l))).
    - rewrite !sort_fuel by lia. reflexivity.
    - subst l. cbn [length]. rewrite Nat.sub_1_r. reflexivity.
  Qed.
End Fuel.

(* ------------------------------------------------------------------ *)
(* Sortedness                                                          *)

Section Sorted.
  Context {A : Type} (P : A -> Prop) (lt : A -> A -> bool)
          (Hasym : asym_on P lt) (Htrans : le_trans_on P lt).

  Let SS := StronglySorted (le_of lt).

  Lemma Forall_perm : forall (Q : A -> Prop) l l', Permutation l l' -> Forall Q l -> Forall Q l'.
  Proof.
    intros Q l l' Hp Hf. rewrite Forall_forall in *.
    intros x Hx. apply Hf. eapply Permutation_in; [apply Permutation_sym; eassumption|assumption].
  Qed.

  Lemma merge_sorted : forall fuel a b,
    length a + length b <= fuel ->
    Forall P a -> Forall P b -> SS a -> SS b -> SS (merge lt fuel a b).
  Proof.
    induction fuel as [|f IH]; intros a b Hf Pa Pb Sa Sb.
    - destruct a; destruct b; simpl in Hf; try lia. simpl. constructor.
    - simpl. destruct a as [|x a']; [assumption|].
      destruct b as [|y b']; [assumption|].
      simpl in Hf.
      pose proof (Forall_inv Pa) as Px. pose proof (Forall_inv_tail Pa) as Pa'.
      pose proof (Forall_inv Pb) as Py. pose proof (Forall_inv_tail Pb) as Pb'.
      pose proof (StronglySorted_inv Sa) as [Sa' Fa].
      pose proof (StronglySorted_inv Sb) as [Sb' Fb].
      destruct (lt y x) eqn:Hyx.
      + (* y first *)
        constructor.
        * apply IH; try assumption. simpl; lia.
        * apply (Forall_perm (Permutation_sym (merge_perm lt f (x :: a') b'))).
          apply Forall_app; split; [|exact Fb].
          assert (Hxy : lt x y = false) by (apply Hasym; assumption).
          constructor; [exact Hxy|].
          rewrite Forall_forall in *. intros z Hz.
          unfold le_of in *.
          apply (Htrans (x := y) (y := x) (z := z)); auto.
      + (* x first *)
        constructor.
        * apply IH; try assumption. simpl; lia.
        * apply (Forall_perm (Permutation_sym (merge_perm lt f a' (y :: b')))).
          apply Forall_app; split; [exact Fa|].
          constructor; [exact Hyx|].
          rewrite Forall_forall in *. intros z Hz.
          unfold le_of in *.
          apply (Htrans (x := x) (y := y) (z := z)); auto.
  Qed.

  Lemma msort_sorted : forall fuel l,
    length l <= fuel -> Forall P l -> SS (msort lt fuel l).
  Proof.
    induction fuel as [|f IH]; intros l Hf Pl.
    - destruct l; simpl in Hf; [|lia]. simpl. constructor.
    - destruct l as [|x [|y r]].
      + simpl. constructor.
      + simpl. constructor; constructor.
      + cbn [msort].
        set (l := x :: y :: r) in *.
        assert (Hl : 2 <= length l) by (subst l; simpl; lia).
        destruct (div2_lt Hl) as [Hd1 Hd2].
        assert (Ha : length (firstn (Nat.div2 (length l)) l) = Nat.div2 (length l))
          by (apply firstn_length_le; lia).
        assert (Hb : length (skipn (Nat.div2 (length l)) l) = length l - Nat.div2 (length l))
          by apply skipn_length.
        assert (Pa : Forall P (firstn (Nat.div2 (length l)) l)).
        { rewrite Forall_forall in *. intros z Hz. apply Pl.
          rewrite <- (firstn_skipn (Nat.div2 (length l)) l). apply in_or_app; left; exact Hz. }
        assert (Pb : Forall P (skipn (Nat.div2 (length l)) l)).
        { rewrite Forall_forall in *. intros z Hz. apply Pl.
          rewrite <- (firstn_skipn (Nat.div2 (length l)) l). apply in_or_app; right; exact Hz. }
        apply merge_sorted.
        * rewrite !msort_length. lia.
        * apply (Forall_perm (Permutation_sym (msort_perm lt f _))). exact Pa.
        * apply (Forall_perm (Permutation_sym (msort_perm lt f _))). exact Pb.
        * apply IH; [lia|exact Pa].
        * apply IH; [lia|exact Pb].
  Qed.

  Theorem sort_sorted_on : forall l, Forall P l -> SS (sort lt l).
  Proof. intros l Pl. apply msort_sorted; [apply Nat.le_refl|exact Pl]. Qed.
End Sorted.

(* Minimal hypotheses for merge sort: the induced non-strict order
   [le_of lt x y := lt y x = false] is
     (asymmetry of lt  <->  totality of le_of)   lt y x = true -> lt x y = false
     (transitivity of le_of)                     lt y x = false -> lt z y = false -> lt z x = false
   Neither irreflexivity nor trichotomy of [lt] is needed. *)
Theorem sort_sorted : forall A (lt : A -> A -> bool) l,
  forall (Hasym : forall x y, lt y x = true -> lt x y = false)
         (Htrans : forall x y z, lt y x = false -> lt z y = false -> lt z x = false),
  StronglySorted (fun x y => lt y x = false) (sort lt l).
Proof.
  intros A lt l Hasym Htrans.
  apply (@sort_sorted_on A (fun _ => True) lt).
  - intros x y _ _. apply Hasym.
  - intros x y z _ _ _. apply Htrans.
  - rewrite Forall_forall. trivial.
Qed.

(* both hypotheses are necessary for the conclusion to hold for all inputs *)
Lemma sort_sorted_needs_asym : forall A (lt : A -> A -> bool),
  (forall l, StronglySorted (le_of lt) (sort lt l)) ->
  forall x y, lt y x = true -> lt x y = false.
Proof.
  intros A lt H x y Hyx. specialize (H [x; y]).
  unfold sort in H. cbn in H. rewrite Hyx in H.
  apply StronglySorted_inv in H. destruct H as [_ H].
  apply Forall_inv in H. exact H.
Qed.

Corollary sort_sorted_strict_total_on : forall A (P : A -> Prop) (lt : A -> A -> bool) l,
  strict_total_on P lt -> Forall P l -> StronglySorted (le_of lt) (sort lt l).
Proof.
  intros A P lt l Hst Pl.
  apply (@sort_sorted_on A P lt);
    [apply strict_total_on_asym | apply strict_total_on_le_trans | ]; assumption.
Qed.

Corollary sort_sorted_strict_total : forall A (lt : A -> A -> bool) l,
  strict_total lt -> StronglySorted (le_of lt) (sort lt l).
Proof.
  intros A lt l Hst. apply strict_total_is_on in Hst.
  apply (sort_sorted_strict_total_on (l := l) Hst). rewrite Forall_forall; trivial.
Qed.

(* ------------------------------------------------------------------ *)
(* Uniqueness of the sorted permutation                                *)

(* only trichotomy (antisymmetry of le_of) is used *)
Lemma sorted_perm_unique_gen : forall A (P : A -> Prop) (lt : A -> A -> bool),
  (forall x y, P x -> P y -> lt x y = false -> lt y x = false -> x = y) ->
  forall l1 l2, Forall P l1 -> Permutation l1 l2 ->
  StronglySorted (le_of lt) l1 -> StronglySorted (le_of lt) l2 -> l1 = l2.
Proof.
  intros A P lt Htri.
  induction l1 as [|x l1 IH]; intros l2 P1 Hp S1 S2.
  - apply Permutation_nil in Hp. subst; reflexivity.
  - destruct l2 as [|y l2].
    + apply Permutation_sym, Permutation_nil in Hp. discriminate.
    + pose proof (Forall_inv P1) as Px. pose proof (Forall_inv_tail P1) as P1'.
      apply StronglySorted_inv in S1. destruct S1 as [S1 F1].
      apply StronglySorted_inv in S2. destruct S2 as [S2 F2].
      assert (P2 : Forall P (y :: l2)) by (eapply Forall_perm; eassumption).
      pose proof (Forall_inv P2) as Py.
      assert (Hxy : x = y).
      { assert (Hx : In x (y :: l2)) by (eapply Permutation_in; [exact Hp|left; reflexivity]).
        assert (Hy : In y (x :: l1))
          by (eapply Permutation_in; [apply Permutation_sym; exact Hp|left; reflexivity]).
        destruct Hx as [Hx|Hx]; [symmetry; exact Hx|].
        destruct Hy as [Hy|Hy]; [exact Hy|].
        rewrite Forall_forall in F1, F2.
        apply Htri; try assumption.
        - apply (F2 x Hx).
        - apply (F1 y Hy). }
      subst y. f_equal.
      apply IH; try assumption.
      eapply Permutation_cons_inv; eassumption.
Qed.

Theorem sorted_perm_unique_on : forall A (P : A -> Prop) (lt : A -> A -> bool) l1 l2,
  strict_total_on P lt -> Forall P l1 -> Permutation l1 l2 ->
  StronglySorted (le_of lt) l1 -> StronglySorted (le_of lt) l2 -> l1 = l2.
Proof.
  intros A P lt l1 l2 (_ & _ & Htri). apply sorted_perm_unique_gen. exact Htri.
Qed.

Theorem sorted_perm_unique : forall A (lt : A -> A -> bool) l1 l2, strict_total lt ->
  Permutation l1 l2 ->
  StronglySorted (fun x y => lt y x = false) l1 ->
  StronglySorted (fun x y => lt y x = false) l2 -> l1 = l2.
Proof.
  intros A lt l1 l2 Hst Hp S1 S2. apply strict_total_is_on in Hst.
  apply (sorted_perm_unique_on Hst); try assumption. rewrite Forall_forall; trivial.
Qed.

Corollary sort_perm_invariant_on : forall A (P : A -> Prop) (lt : A -> A -> bool) l1 l2,
  strict_total_on P lt -> Forall P l1 -> Permutation l1 l2 -> sort lt l1 = sort lt l2.
Proof.
  intros A P lt l1 l2 Hst P1 Hp.
  assert (P2 : Forall P l2) by (eapply Forall_perm; eassumption).
  apply (sorted_perm_unique_on Hst).
  - eapply Forall_perm; [apply Permutation_sym, sort_perm|exact P1].
  - eapply Permutation_trans; [apply sort_perm|].
    eapply Permutation_trans; [exact Hp|apply Permutation_sym, sort_perm].
  - apply sort_sorted_strict_total_on with (P := P); assumption.
  - apply sort_sorted_strict_total_on with (P := P); assumption.
Qed.

Corollary sort_perm_invariant : forall A (lt : A -> A -> bool) l1 l2, strict_total lt ->
  Permutation l1 l2 -> sort lt l1 = sort lt l2.
Proof.
  intros A lt l1 l2 Hst Hp. apply strict_total_is_on in Hst.
  apply (sort_perm_invariant_on Hst); [rewrite Forall_forall; trivial|exact Hp].
Qed.

(* Any function that returns a sorted permutation of its input -- any correct
   sorting algorithm, stable or not (Go's sort.Sort) -- applied to any
   permutation of [l] returns [sort lt l]. *)
Corollary sort_characterised_on : forall A (P : A -> Prop) (lt : A -> A -> bool) l l' r,
  strict_total_on P lt -> Forall P l ->
  Permutation l l' -> Permutation r l' -> StronglySorted (le_of lt) r -> r = sort lt l.
Proof.
  intros A P lt l l' r Hst Pl Hp Hr Sr.
  assert (Prm : Permutation r l)
    by (eapply Permutation_trans; [exact Hr|apply Permutation_sym; exact Hp]).
  apply (sorted_perm_unique_on Hst).
  - eapply Forall_perm; [apply Permutation_sym; exact Prm|exact Pl].
  - eapply Permutation_trans; [exact Prm|apply Permutation_sym, sort_perm].
  - exact Sr.
  - apply sort_sorted_strict_total_on with (P := P); assumption.
Qed.

Corollary sort_characterised : forall A (lt : A -> A -> bool) l l' r,
  strict_total lt ->
  Permutation l l' -> Permutation r l' -> StronglySorted (le_of lt) r -> r = sort lt l.
Proof.
  intros A lt l l' r Hst. apply strict_total_is_on in Hst.
  apply (sort_characterised_on Hst). rewrite Forall_forall; trivial.
Qed.

(* [sort] is idempotent and fixes sorted lists (strict total order) *)
Corollary sort_sorted_id : forall A (lt : A -> A -> bool) l, strict_total lt ->
  StronglySorted (le_of lt) l -> sort lt l = l.
Proof.
  intros A lt l Hst Sl. symmetry.
  apply (sort_characterised (l := l) (l' := l) Hst); auto using Permutation_refl.
Qed.

Print Assumptions sort_perm.
Print Assumptions msort_fuel.
Print Assumptions sort_sorted.
Print Assumptions sorted_perm_unique.
Print Assumptions sort_perm_invariant.
Print Assumptions sort_perm_invariant_on.
Print Assumptions sort_characterised.
