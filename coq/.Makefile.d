theories/Cont/SetImpl.vo theories/Cont/SetImpl.glob theories/Cont/SetImpl.v.beautified theories/Cont/SetImpl.required_vo: theories/Cont/SetImpl.v 
theories/Cont/SetImpl.vio: theories/Cont/SetImpl.v 
theories/Cont/SetImpl.vos theories/Cont/SetImpl.vok theories/Cont/SetImpl.required_vos: theories/Cont/SetImpl.v 
theories/Cont/SetRefine.vo theories/Cont/SetRefine.glob theories/Cont/SetRefine.v.beautified theories/Cont/SetRefine.required_vo: theories/Cont/SetRefine.v theories/Cont/SetImpl.vo
theories/Cont/SetRefine.vio: theories/Cont/SetRefine.v theories/Cont/SetImpl.vio
theories/Cont/SetRefine.vos theories/Cont/SetRefine.vok theories/Cont/SetRefine.required_vos: theories/Cont/SetRefine.v theories/Cont/SetImpl.vos
theories/Cont/Heap.vo theories/Cont/Heap.glob theories/Cont/Heap.v.beautified theories/Cont/Heap.required_vo: theories/Cont/Heap.v 
theories/Cont/Heap.vio: theories/Cont/Heap.v 
theories/Cont/Heap.vos theories/Cont/Heap.vok theories/Cont/Heap.required_vos: theories/Cont/Heap.v 
theories/Cont/HeapInv.vo theories/Cont/HeapInv.glob theories/Cont/HeapInv.v.beautified theories/Cont/HeapInv.required_vo: theories/Cont/HeapInv.v theories/Cont/Heap.vo
theories/Cont/HeapInv.vio: theories/Cont/HeapInv.v theories/Cont/Heap.vio
theories/Cont/HeapInv.vos theories/Cont/HeapInv.vok theories/Cont/HeapInv.required_vos: theories/Cont/HeapInv.v theories/Cont/Heap.vos
theories/CP/Lexer.vo theories/CP/Lexer.glob theories/CP/Lexer.v.beautified theories/CP/Lexer.required_vo: theories/CP/Lexer.v 
theories/CP/Lexer.vio: theories/CP/Lexer.v 
theories/CP/Lexer.vos theories/CP/Lexer.vok theories/CP/Lexer.required_vos: theories/CP/Lexer.v 
theories/CP/LexSpec.vo theories/CP/LexSpec.glob theories/CP/LexSpec.v.beautified theories/CP/LexSpec.required_vo: theories/CP/LexSpec.v theories/CP/Lexer.vo
theories/CP/LexSpec.vio: theories/CP/LexSpec.v theories/CP/Lexer.vio
theories/CP/LexSpec.vos theories/CP/LexSpec.vok theories/CP/LexSpec.required_vos: theories/CP/LexSpec.v theories/CP/Lexer.vos
theories/CP/Chunk.vo theories/CP/Chunk.glob theories/CP/Chunk.v.beautified theories/CP/Chunk.required_vo: theories/CP/Chunk.v theories/CP/Lexer.vo
theories/CP/Chunk.vio: theories/CP/Chunk.v theories/CP/Lexer.vio
theories/CP/Chunk.vos theories/CP/Chunk.vok theories/CP/Chunk.required_vos: theories/CP/Chunk.v theories/CP/Lexer.vos
theories/CP/LexEquiv.vo theories/CP/LexEquiv.glob theories/CP/LexEquiv.v.beautified theories/CP/LexEquiv.required_vo: theories/CP/LexEquiv.v theories/CP/Lexer.vo theories/CP/LexSpec.vo
theories/CP/LexEquiv.vio: theories/CP/LexEquiv.v theories/CP/Lexer.vio theories/CP/LexSpec.vio
theories/CP/LexEquiv.vos theories/CP/LexEquiv.vok theories/CP/LexEquiv.required_vos: theories/CP/LexEquiv.v theories/CP/Lexer.vos theories/CP/LexSpec.vos
theories/Props/C18.vo theories/Props/C18.glob theories/Props/C18.v.beautified theories/Props/C18.required_vo: theories/Props/C18.v theories/CP/Lexer.vo theories/CP/LexSpec.vo theories/CP/LexEquiv.vo theories/CP/Chunk.vo
theories/Props/C18.vio: theories/Props/C18.v theories/CP/Lexer.vio theories/CP/LexSpec.vio theories/CP/LexEquiv.vio theories/CP/Chunk.vio
theories/Props/C18.vos theories/Props/C18.vok theories/Props/C18.required_vos: theories/Props/C18.v theories/CP/Lexer.vos theories/CP/LexSpec.vos theories/CP/LexEquiv.vos theories/CP/Chunk.vos
theories/Base/Utf8.vo theories/Base/Utf8.glob theories/Base/Utf8.v.beautified theories/Base/Utf8.required_vo: theories/Base/Utf8.v 
theories/Base/Utf8.vio: theories/Base/Utf8.v 
theories/Base/Utf8.vos theories/Base/Utf8.vok theories/Base/Utf8.required_vos: theories/Base/Utf8.v 
theories/V1/Tok1.vo theories/V1/Tok1.glob theories/V1/Tok1.v.beautified theories/V1/Tok1.required_vo: theories/V1/Tok1.v theories/Base/Utf8.vo
theories/V1/Tok1.vio: theories/V1/Tok1.v theories/Base/Utf8.vio
theories/V1/Tok1.vos theories/V1/Tok1.vok theories/V1/Tok1.required_vos: theories/V1/Tok1.v theories/Base/Utf8.vos
theories/V1/Matcher1.vo theories/V1/Matcher1.glob theories/V1/Matcher1.v.beautified theories/V1/Matcher1.required_vo: theories/V1/Matcher1.v theories/Base/Utf8.vo theories/V1/Tok1.vo
theories/V1/Matcher1.vio: theories/V1/Matcher1.v theories/Base/Utf8.vio theories/V1/Tok1.vio
theories/V1/Matcher1.vos theories/V1/Matcher1.vok theories/V1/Matcher1.required_vos: theories/V1/Matcher1.v theories/Base/Utf8.vos theories/V1/Tok1.vos
theories/V1/Tok1Proof.vo theories/V1/Tok1Proof.glob theories/V1/Tok1Proof.v.beautified theories/V1/Tok1Proof.required_vo: theories/V1/Tok1Proof.v theories/Base/Utf8.vo theories/V2/ReaderProof.vo theories/V1/Tok1.vo
theories/V1/Tok1Proof.vio: theories/V1/Tok1Proof.v theories/Base/Utf8.vio theories/V2/ReaderProof.vio theories/V1/Tok1.vio
theories/V1/Tok1Proof.vos theories/V1/Tok1Proof.vok theories/V1/Tok1Proof.required_vos: theories/V1/Tok1Proof.v theories/Base/Utf8.vos theories/V2/ReaderProof.vos theories/V1/Tok1.vos
theories/V1/Matcher1Proof.vo theories/V1/Matcher1Proof.glob theories/V1/Matcher1Proof.v.beautified theories/V1/Matcher1Proof.required_vo: theories/V1/Matcher1Proof.v theories/Base/Utf8.vo theories/V1/Tok1.vo theories/V1/Matcher1.vo
theories/V1/Matcher1Proof.vio: theories/V1/Matcher1Proof.v theories/Base/Utf8.vio theories/V1/Tok1.vio theories/V1/Matcher1.vio
theories/V1/Matcher1Proof.vos theories/V1/Matcher1Proof.vok theories/V1/Matcher1Proof.required_vos: theories/V1/Matcher1Proof.v theories/Base/Utf8.vos theories/V1/Tok1.vos theories/V1/Matcher1.vos
theories/V1/Matcher1Straddle.vo theories/V1/Matcher1Straddle.glob theories/V1/Matcher1Straddle.v.beautified theories/V1/Matcher1Straddle.required_vo: theories/V1/Matcher1Straddle.v theories/Base/Utf8.vo theories/V1/Tok1.vo theories/V1/Matcher1.vo theories/V1/Matcher1Proof.vo
theories/V1/Matcher1Straddle.vio: theories/V1/Matcher1Straddle.v theories/Base/Utf8.vio theories/V1/Tok1.vio theories/V1/Matcher1.vio theories/V1/Matcher1Proof.vio
theories/V1/Matcher1Straddle.vos theories/V1/Matcher1Straddle.vok theories/V1/Matcher1Straddle.required_vos: theories/V1/Matcher1Straddle.v theories/Base/Utf8.vos theories/V1/Tok1.vos theories/V1/Matcher1.vos theories/V1/Matcher1Proof.vos
theories/V1/Matcher1Inside.vo theories/V1/Matcher1Inside.glob theories/V1/Matcher1Inside.v.beautified theories/V1/Matcher1Inside.required_vo: theories/V1/Matcher1Inside.v theories/Base/Utf8.vo theories/V1/Tok1.vo theories/V1/Matcher1.vo theories/V1/Matcher1Proof.vo theories/V1/Matcher1Straddle.vo
theories/V1/Matcher1Inside.vio: theories/V1/Matcher1Inside.v theories/Base/Utf8.vio theories/V1/Tok1.vio theories/V1/Matcher1.vio theories/V1/Matcher1Proof.vio theories/V1/Matcher1Straddle.vio
theories/V1/Matcher1Inside.vos theories/V1/Matcher1Inside.vok theories/V1/Matcher1Inside.required_vos: theories/V1/Matcher1Inside.v theories/Base/Utf8.vos theories/V1/Tok1.vos theories/V1/Matcher1.vos theories/V1/Matcher1Proof.vos theories/V1/Matcher1Straddle.vos
theories/V1/Join1.vo theories/V1/Join1.glob theories/V1/Join1.v.beautified theories/V1/Join1.required_vo: theories/V1/Join1.v theories/V1/Tok1.vo
theories/V1/Join1.vio: theories/V1/Join1.v theories/V1/Tok1.vio
theories/V1/Join1.vos theories/V1/Join1.vok theories/V1/Join1.required_vos: theories/V1/Join1.v theories/V1/Tok1.vos
theories/V1/Join1Proof.vo theories/V1/Join1Proof.glob theories/V1/Join1Proof.v.beautified theories/V1/Join1Proof.required_vo: theories/V1/Join1Proof.v theories/Base/Sort.vo theories/Base/SortProof.vo theories/V1/Tok1.vo theories/V1/Tok1Proof.vo theories/V1/Join1.vo
theories/V1/Join1Proof.vio: theories/V1/Join1Proof.v theories/Base/Sort.vio theories/Base/SortProof.vio theories/V1/Tok1.vio theories/V1/Tok1Proof.vio theories/V1/Join1.vio
theories/V1/Join1Proof.vos theories/V1/Join1Proof.vok theories/V1/Join1Proof.required_vos: theories/V1/Join1Proof.v theories/Base/Sort.vos theories/Base/SortProof.vos theories/V1/Tok1.vos theories/V1/Tok1Proof.vos theories/V1/Join1.vos
theories/V2/Tok.vo theories/V2/Tok.glob theories/V2/Tok.v.beautified theories/V2/Tok.required_vo: theories/V2/Tok.v theories/Base/Utf8.vo
theories/V2/Tok.vio: theories/V2/Tok.v theories/Base/Utf8.vio
theories/V2/Tok.vos theories/V2/Tok.vok theories/V2/Tok.required_vos: theories/V2/Tok.v theories/Base/Utf8.vos
theories/V2/TokTables.vo theories/V2/TokTables.glob theories/V2/TokTables.v.beautified theories/V2/TokTables.required_vo: theories/V2/TokTables.v theories/Base/Utf8.vo theories/V2/Tok.vo
theories/V2/TokTables.vio: theories/V2/TokTables.v theories/Base/Utf8.vio theories/V2/Tok.vio
theories/V2/TokTables.vos theories/V2/TokTables.vok theories/V2/TokTables.required_vos: theories/V2/TokTables.v theories/Base/Utf8.vos theories/V2/Tok.vos
theories/V2/Reader.vo theories/V2/Reader.glob theories/V2/Reader.v.beautified theories/V2/Reader.required_vo: theories/V2/Reader.v theories/Base/Utf8.vo theories/V2/Tok.vo
theories/V2/Reader.vio: theories/V2/Reader.v theories/Base/Utf8.vio theories/V2/Tok.vio
theories/V2/Reader.vos theories/V2/Reader.vok theories/V2/Reader.required_vos: theories/V2/Reader.v theories/Base/Utf8.vos theories/V2/Tok.vos
theories/V2/ReaderProof.vo theories/V2/ReaderProof.glob theories/V2/ReaderProof.v.beautified theories/V2/ReaderProof.required_vo: theories/V2/ReaderProof.v theories/Base/Utf8.vo theories/V2/Tok.vo theories/V2/Reader.vo
theories/V2/ReaderProof.vio: theories/V2/ReaderProof.v theories/Base/Utf8.vio theories/V2/Tok.vio theories/V2/Reader.vio
theories/V2/ReaderProof.vos theories/V2/ReaderProof.vok theories/V2/ReaderProof.required_vos: theories/V2/ReaderProof.v theories/Base/Utf8.vos theories/V2/Tok.vos theories/V2/Reader.vos
theories/V2/TokSim.vo theories/V2/TokSim.glob theories/V2/TokSim.v.beautified theories/V2/TokSim.required_vo: theories/V2/TokSim.v theories/Base/Utf8.vo theories/V2/Tok.vo
theories/V2/TokSim.vio: theories/V2/TokSim.v theories/Base/Utf8.vio theories/V2/Tok.vio
theories/V2/TokSim.vos theories/V2/TokSim.vok theories/V2/TokSim.required_vos: theories/V2/TokSim.v theories/Base/Utf8.vos theories/V2/Tok.vos
theories/V2/TokInv.vo theories/V2/TokInv.glob theories/V2/TokInv.v.beautified theories/V2/TokInv.required_vo: theories/V2/TokInv.v theories/Base/Utf8.vo theories/V2/Tok.vo
theories/V2/TokInv.vio: theories/V2/TokInv.v theories/Base/Utf8.vio theories/V2/Tok.vio
theories/V2/TokInv.vos theories/V2/TokInv.vok theories/V2/TokInv.required_vos: theories/V2/TokInv.v theories/Base/Utf8.vos theories/V2/Tok.vos
theories/V2/TokWF.vo theories/V2/TokWF.glob theories/V2/TokWF.v.beautified theories/V2/TokWF.required_vo: theories/V2/TokWF.v theories/Base/Utf8.vo theories/V2/Tok.vo theories/V2/TokSim.vo
theories/V2/TokWF.vio: theories/V2/TokWF.v theories/Base/Utf8.vio theories/V2/Tok.vio theories/V2/TokSim.vio
theories/V2/TokWF.vos theories/V2/TokWF.vok theories/V2/TokWF.required_vos: theories/V2/TokWF.v theories/Base/Utf8.vos theories/V2/Tok.vos theories/V2/TokSim.vos
theories/V2/Normalize.vo theories/V2/Normalize.glob theories/V2/Normalize.v.beautified theories/V2/Normalize.required_vo: theories/V2/Normalize.v theories/Base/Utf8.vo theories/V2/Tok.vo
theories/V2/Normalize.vio: theories/V2/Normalize.v theories/Base/Utf8.vio theories/V2/Tok.vio
theories/V2/Normalize.vos theories/V2/Normalize.vok theories/V2/Normalize.required_vos: theories/V2/Normalize.v theories/Base/Utf8.vos theories/V2/Tok.vos
theories/V2/Load.vo theories/V2/Load.glob theories/V2/Load.v.beautified theories/V2/Load.required_vo: theories/V2/Load.v 
theories/V2/Load.vio: theories/V2/Load.v 
theories/V2/Load.vos theories/V2/Load.vok theories/V2/Load.required_vos: theories/V2/Load.v 
theories/Props/C08.vo theories/Props/C08.glob theories/Props/C08.v.beautified theories/Props/C08.required_vo: theories/Props/C08.v theories/Base/Utf8.vo theories/V2/Tok.vo theories/V2/Reader.vo theories/V2/ReaderProof.vo
theories/Props/C08.vio: theories/Props/C08.v theories/Base/Utf8.vio theories/V2/Tok.vio theories/V2/Reader.vio theories/V2/ReaderProof.vio
theories/Props/C08.vos theories/Props/C08.vok theories/Props/C08.required_vos: theories/Props/C08.v theories/Base/Utf8.vos theories/V2/Tok.vos theories/V2/Reader.vos theories/V2/ReaderProof.vos
theories/Base/Float64.vo theories/Base/Float64.glob theories/Base/Float64.v.beautified theories/Base/Float64.required_vo: theories/Base/Float64.v 
theories/Base/Float64.vio: theories/Base/Float64.v 
theories/Base/Float64.vos theories/Base/Float64.vok theories/Base/Float64.required_vos: theories/Base/Float64.v 
theories/Base/Sort.vo theories/Base/Sort.glob theories/Base/Sort.v.beautified theories/Base/Sort.required_vo: theories/Base/Sort.v 
theories/Base/Sort.vio: theories/Base/Sort.v 
theories/Base/Sort.vos theories/Base/Sort.vok theories/Base/Sort.required_vos: theories/Base/Sort.v 
theories/CLI/Cli.vo theories/CLI/Cli.glob theories/CLI/Cli.v.beautified theories/CLI/Cli.required_vo: theories/CLI/Cli.v theories/Base/Sort.vo theories/Base/Float64.vo
theories/CLI/Cli.vio: theories/CLI/Cli.v theories/Base/Sort.vio theories/Base/Float64.vio
theories/CLI/Cli.vos theories/CLI/Cli.vok theories/CLI/Cli.required_vos: theories/CLI/Cli.v theories/Base/Sort.vos theories/Base/Float64.vos
theories/V2/SSet.vo theories/V2/SSet.glob theories/V2/SSet.v.beautified theories/V2/SSet.required_vo: theories/V2/SSet.v theories/Base/Float64.vo theories/Base/Sort.vo
theories/V2/SSet.vio: theories/V2/SSet.v theories/Base/Float64.vio theories/Base/Sort.vio
theories/V2/SSet.vos theories/V2/SSet.vok theories/V2/SSet.required_vos: theories/V2/SSet.v theories/Base/Float64.vos theories/Base/Sort.vos
theories/V2/Match.vo theories/V2/Match.glob theories/V2/Match.v.beautified theories/V2/Match.required_vo: theories/V2/Match.v theories/Base/Float64.vo theories/Base/Sort.vo theories/V2/SSet.vo
theories/V2/Match.vio: theories/V2/Match.v theories/Base/Float64.vio theories/Base/Sort.vio theories/V2/SSet.vio
theories/V2/Match.vos theories/V2/Match.vok theories/V2/Match.required_vos: theories/V2/Match.v theories/Base/Float64.vos theories/Base/Sort.vos theories/V2/SSet.vos
theories/Base/Float64Proof.vo theories/Base/Float64Proof.glob theories/Base/Float64Proof.v.beautified theories/Base/Float64Proof.required_vo: theories/Base/Float64Proof.v theories/Base/Float64.vo
theories/Base/Float64Proof.vio: theories/Base/Float64Proof.v theories/Base/Float64.vio
theories/Base/Float64Proof.vos theories/Base/Float64Proof.vok theories/Base/Float64Proof.required_vos: theories/Base/Float64Proof.v theories/Base/Float64.vos
theories/Base/SortProof.vo theories/Base/SortProof.glob theories/Base/SortProof.v.beautified theories/Base/SortProof.required_vo: theories/Base/SortProof.v theories/Base/Sort.vo
theories/Base/SortProof.vio: theories/Base/SortProof.v theories/Base/Sort.vio
theories/Base/SortProof.vos theories/Base/SortProof.vok theories/Base/SortProof.required_vos: theories/Base/SortProof.v theories/Base/Sort.vos
theories/V2/ScoringProof.vo theories/V2/ScoringProof.glob theories/V2/ScoringProof.v.beautified theories/V2/ScoringProof.required_vo: theories/V2/ScoringProof.v theories/Base/Float64.vo theories/V2/Match.vo
theories/V2/ScoringProof.vio: theories/V2/ScoringProof.v theories/Base/Float64.vio theories/V2/Match.vio
theories/V2/ScoringProof.vos theories/V2/ScoringProof.vok theories/V2/ScoringProof.required_vos: theories/V2/ScoringProof.v theories/Base/Float64.vos theories/V2/Match.vos
theories/V2/MatchND.vo theories/V2/MatchND.glob theories/V2/MatchND.v.beautified theories/V2/MatchND.required_vo: theories/V2/MatchND.v theories/Base/Float64.vo theories/Base/Sort.vo theories/Base/SortProof.vo theories/V2/SSet.vo theories/V2/Match.vo
theories/V2/MatchND.vio: theories/V2/MatchND.v theories/Base/Float64.vio theories/Base/Sort.vio theories/Base/SortProof.vio theories/V2/SSet.vio theories/V2/Match.vio
theories/V2/MatchND.vos theories/V2/MatchND.vok theories/V2/MatchND.required_vos: theories/V2/MatchND.v theories/Base/Float64.vos theories/Base/Sort.vos theories/Base/SortProof.vos theories/V2/SSet.vos theories/V2/Match.vos
theories/V2/MatchWF.vo theories/V2/MatchWF.glob theories/V2/MatchWF.v.beautified theories/V2/MatchWF.required_vo: theories/V2/MatchWF.v theories/Base/Float64.vo theories/Base/Sort.vo theories/V2/SSet.vo theories/V2/Match.vo
theories/V2/MatchWF.vio: theories/V2/MatchWF.v theories/Base/Float64.vio theories/Base/Sort.vio theories/V2/SSet.vio theories/V2/Match.vio
theories/V2/MatchWF.vos theories/V2/MatchWF.vok theories/V2/MatchWF.required_vos: theories/V2/MatchWF.v theories/Base/Float64.vos theories/Base/Sort.vos theories/V2/SSet.vos theories/V2/Match.vos
theories/V2/Planted.vo theories/V2/Planted.glob theories/V2/Planted.v.beautified theories/V2/Planted.required_vo: theories/V2/Planted.v theories/Base/Float64.vo theories/Base/Sort.vo theories/V2/SSet.vo theories/V2/Match.vo
theories/V2/Planted.vio: theories/V2/Planted.v theories/Base/Float64.vio theories/Base/Sort.vio theories/V2/SSet.vio theories/V2/Match.vio
theories/V2/Planted.vos theories/V2/Planted.vok theories/V2/Planted.required_vos: theories/V2/Planted.v theories/Base/Float64.vos theories/Base/Sort.vos theories/V2/SSet.vos theories/V2/Match.vos
theories/V2/Glue.vo theories/V2/Glue.glob theories/V2/Glue.v.beautified theories/V2/Glue.required_vo: theories/V2/Glue.v theories/Base/Utf8.vo theories/Base/Float64.vo theories/Base/Sort.vo theories/Base/Float64Proof.vo theories/Base/SortProof.vo theories/V2/SSet.vo theories/V2/Match.vo theories/V2/ScoringProof.vo theories/V2/MatchND.vo theories/V2/MatchWF.vo theories/V2/Tok.vo theories/V2/TokInv.vo
theories/V2/Glue.vio: theories/V2/Glue.v theories/Base/Utf8.vio theories/Base/Float64.vio theories/Base/Sort.vio theories/Base/Float64Proof.vio theories/Base/SortProof.vio theories/V2/SSet.vio theories/V2/Match.vio theories/V2/ScoringProof.vio theories/V2/MatchND.vio theories/V2/MatchWF.vio theories/V2/Tok.vio theories/V2/TokInv.vio
theories/V2/Glue.vos theories/V2/Glue.vok theories/V2/Glue.required_vos: theories/V2/Glue.v theories/Base/Utf8.vos theories/Base/Float64.vos theories/Base/Sort.vos theories/Base/Float64Proof.vos theories/Base/SortProof.vos theories/V2/SSet.vos theories/V2/Match.vos theories/V2/ScoringProof.vos theories/V2/MatchND.vos theories/V2/MatchWF.vos theories/V2/Tok.vos theories/V2/TokInv.vos
theories/V2/ScoringNoD3.vo theories/V2/ScoringNoD3.glob theories/V2/ScoringNoD3.v.beautified theories/V2/ScoringNoD3.required_vo: theories/V2/ScoringNoD3.v theories/Base/Float64.vo theories/Base/Float64Proof.vo theories/V2/Match.vo theories/V2/ScoringProof.vo theories/V2/Glue.vo
theories/V2/ScoringNoD3.vio: theories/V2/ScoringNoD3.v theories/Base/Float64.vio theories/Base/Float64Proof.vio theories/V2/Match.vio theories/V2/ScoringProof.vio theories/V2/Glue.vio
theories/V2/ScoringNoD3.vos theories/V2/ScoringNoD3.vok theories/V2/ScoringNoD3.required_vos: theories/V2/ScoringNoD3.v theories/Base/Float64.vos theories/Base/Float64Proof.vos theories/V2/Match.vos theories/V2/ScoringProof.vos theories/V2/Glue.vos
theories/V2/Shift.vo theories/V2/Shift.glob theories/V2/Shift.v.beautified theories/V2/Shift.required_vo: theories/V2/Shift.v theories/Base/Sort.vo theories/V2/SSet.vo theories/V2/Planted.vo theories/V2/MatchWF.vo
theories/V2/Shift.vio: theories/V2/Shift.v theories/Base/Sort.vio theories/V2/SSet.vio theories/V2/Planted.vio theories/V2/MatchWF.vio
theories/V2/Shift.vos theories/V2/Shift.vok theories/V2/Shift.required_vos: theories/V2/Shift.v theories/Base/Sort.vos theories/V2/SSet.vos theories/V2/Planted.vos theories/V2/MatchWF.vos
theories/V2/FuseShift.vo theories/V2/FuseShift.glob theories/V2/FuseShift.v.beautified theories/V2/FuseShift.required_vo: theories/V2/FuseShift.v theories/Base/Float64.vo theories/Base/Sort.vo theories/V2/SSet.vo theories/V2/Shift.vo
theories/V2/FuseShift.vio: theories/V2/FuseShift.v theories/Base/Float64.vio theories/Base/Sort.vio theories/V2/SSet.vio theories/V2/Shift.vio
theories/V2/FuseShift.vos theories/V2/FuseShift.vok theories/V2/FuseShift.required_vos: theories/V2/FuseShift.v theories/Base/Float64.vos theories/Base/Sort.vos theories/V2/SSet.vos theories/V2/Shift.vos
theories/V2/WindowSpec.vo theories/V2/WindowSpec.glob theories/V2/WindowSpec.v.beautified theories/V2/WindowSpec.required_vo: theories/V2/WindowSpec.v theories/Base/Float64.vo theories/V2/SSet.vo
theories/V2/WindowSpec.vio: theories/V2/WindowSpec.v theories/Base/Float64.vio theories/V2/SSet.vio
theories/V2/WindowSpec.vos theories/V2/WindowSpec.vok theories/V2/WindowSpec.required_vos: theories/V2/WindowSpec.v theories/Base/Float64.vos theories/V2/SSet.vos
theories/V2/WindowShift.vo theories/V2/WindowShift.glob theories/V2/WindowShift.v.beautified theories/V2/WindowShift.required_vo: theories/V2/WindowShift.v theories/Base/Float64.vo theories/Base/Sort.vo theories/V2/SSet.vo theories/V2/Shift.vo theories/V2/WindowSpec.vo theories/V2/FuseShift.vo theories/V2/MatchWF.vo
theories/V2/WindowShift.vio: theories/V2/WindowShift.v theories/Base/Float64.vio theories/Base/Sort.vio theories/V2/SSet.vio theories/V2/Shift.vio theories/V2/WindowSpec.vio theories/V2/FuseShift.vio theories/V2/MatchWF.vio
theories/V2/WindowShift.vos theories/V2/WindowShift.vok theories/V2/WindowShift.required_vos: theories/V2/WindowShift.v theories/Base/Float64.vos theories/Base/Sort.vos theories/V2/SSet.vos theories/V2/Shift.vos theories/V2/WindowSpec.vos theories/V2/FuseShift.vos theories/V2/MatchWF.vos
theories/V2/PlantedText.vo theories/V2/PlantedText.glob theories/V2/PlantedText.v.beautified theories/V2/PlantedText.required_vo: theories/V2/PlantedText.v theories/Base/Utf8.vo theories/V2/Tok.vo theories/V2/TokSim.vo theories/V2/TokInv.vo theories/Base/Float64.vo theories/Base/Sort.vo theories/V2/SSet.vo theories/V2/Match.vo theories/V2/Planted.vo theories/V2/TokWF.vo
theories/V2/PlantedText.vio: theories/V2/PlantedText.v theories/Base/Utf8.vio theories/V2/Tok.vio theories/V2/TokSim.vio theories/V2/TokInv.vio theories/Base/Float64.vio theories/Base/Sort.vio theories/V2/SSet.vio theories/V2/Match.vio theories/V2/Planted.vio theories/V2/TokWF.vio
theories/V2/PlantedText.vos theories/V2/PlantedText.vok theories/V2/PlantedText.required_vos: theories/V2/PlantedText.v theories/Base/Utf8.vos theories/V2/Tok.vos theories/V2/TokSim.vos theories/V2/TokInv.vos theories/Base/Float64.vos theories/Base/Sort.vos theories/V2/SSet.vos theories/V2/Match.vos theories/V2/Planted.vos theories/V2/TokWF.vos
theories/V2/FilterProof.vo theories/V2/FilterProof.glob theories/V2/FilterProof.v.beautified theories/V2/FilterProof.required_vo: theories/V2/FilterProof.v theories/Base/Float64.vo theories/Base/Sort.vo theories/V2/SSet.vo theories/V2/Match.vo theories/V2/MatchWF.vo theories/V2/Planted.vo
theories/V2/FilterProof.vio: theories/V2/FilterProof.v theories/Base/Float64.vio theories/Base/Sort.vio theories/V2/SSet.vio theories/V2/Match.vio theories/V2/MatchWF.vio theories/V2/Planted.vio
theories/V2/FilterProof.vos theories/V2/FilterProof.vok theories/V2/FilterProof.required_vos: theories/V2/FilterProof.v theories/Base/Float64.vos theories/Base/Sort.vos theories/V2/SSet.vos theories/V2/Match.vos theories/V2/MatchWF.vos theories/V2/Planted.vos
theories/V2/FilterKeep.vo theories/V2/FilterKeep.glob theories/V2/FilterKeep.v.beautified theories/V2/FilterKeep.required_vo: theories/V2/FilterKeep.v theories/Base/Float64.vo theories/Base/Sort.vo theories/V2/SSet.vo theories/V2/Match.vo theories/V2/MatchWF.vo theories/V2/Planted.vo theories/V2/FilterProof.vo
theories/V2/FilterKeep.vio: theories/V2/FilterKeep.v theories/Base/Float64.vio theories/Base/Sort.vio theories/V2/SSet.vio theories/V2/Match.vio theories/V2/MatchWF.vio theories/V2/Planted.vio theories/V2/FilterProof.vio
theories/V2/FilterKeep.vos theories/V2/FilterKeep.vok theories/V2/FilterKeep.required_vos: theories/V2/FilterKeep.v theories/Base/Float64.vos theories/Base/Sort.vos theories/V2/SSet.vos theories/V2/Match.vos theories/V2/MatchWF.vos theories/V2/Planted.vos theories/V2/FilterProof.vos
theories/V2/NormProof.vo theories/V2/NormProof.glob theories/V2/NormProof.v.beautified theories/V2/NormProof.required_vo: theories/V2/NormProof.v theories/Base/Utf8.vo theories/V2/Tok.vo theories/V2/TokSim.vo theories/V2/TokInv.vo theories/V2/Normalize.vo theories/V2/TokWF.vo
theories/V2/NormProof.vio: theories/V2/NormProof.v theories/Base/Utf8.vio theories/V2/Tok.vio theories/V2/TokSim.vio theories/V2/TokInv.vio theories/V2/Normalize.vio theories/V2/TokWF.vio
theories/V2/NormProof.vos theories/V2/NormProof.vok theories/V2/NormProof.required_vos: theories/V2/NormProof.v theories/Base/Utf8.vos theories/V2/Tok.vos theories/V2/TokSim.vos theories/V2/TokInv.vos theories/V2/Normalize.vos theories/V2/TokWF.vos
theories/V2/NormTables.vo theories/V2/NormTables.glob theories/V2/NormTables.v.beautified theories/V2/NormTables.required_vo: theories/V2/NormTables.v theories/Base/Utf8.vo theories/V2/Tok.vo theories/V2/TokSim.vo theories/V2/TokInv.vo theories/V2/Normalize.vo theories/V2/TokTables.vo theories/V2/NormProof.vo
theories/V2/NormTables.vio: theories/V2/NormTables.v theories/Base/Utf8.vio theories/V2/Tok.vio theories/V2/TokSim.vio theories/V2/TokInv.vio theories/V2/Normalize.vio theories/V2/TokTables.vio theories/V2/NormProof.vio
theories/V2/NormTables.vos theories/V2/NormTables.vok theories/V2/NormTables.required_vos: theories/V2/NormTables.v theories/Base/Utf8.vos theories/V2/Tok.vos theories/V2/TokSim.vos theories/V2/TokInv.vos theories/V2/Normalize.vos theories/V2/TokTables.vos theories/V2/NormProof.vos
theories/Props/C20.vo theories/Props/C20.glob theories/Props/C20.v.beautified theories/Props/C20.required_vo: theories/Props/C20.v theories/Cont/SetImpl.vo theories/Cont/SetRefine.vo theories/Cont/Heap.vo theories/Cont/HeapInv.vo
theories/Props/C20.vio: theories/Props/C20.v theories/Cont/SetImpl.vio theories/Cont/SetRefine.vio theories/Cont/Heap.vio theories/Cont/HeapInv.vio
theories/Props/C20.vos theories/Props/C20.vok theories/Props/C20.required_vos: theories/Props/C20.v theories/Cont/SetImpl.vos theories/Cont/SetRefine.vos theories/Cont/Heap.vos theories/Cont/HeapInv.vos
theories/Props/C02.vo theories/Props/C02.glob theories/Props/C02.v.beautified theories/Props/C02.required_vo: theories/Props/C02.v theories/Base/Utf8.vo theories/Base/Float64.vo theories/Base/Sort.vo theories/Base/SortProof.vo theories/Base/Float64Proof.vo theories/V2/Tok.vo theories/V2/SSet.vo theories/V2/Match.vo theories/V2/ScoringProof.vo theories/V2/MatchND.vo theories/V2/MatchWF.vo theories/V2/Glue.vo theories/V2/ScoringNoD3.vo
theories/Props/C02.vio: theories/Props/C02.v theories/Base/Utf8.vio theories/Base/Float64.vio theories/Base/Sort.vio theories/Base/SortProof.vio theories/Base/Float64Proof.vio theories/V2/Tok.vio theories/V2/SSet.vio theories/V2/Match.vio theories/V2/ScoringProof.vio theories/V2/MatchND.vio theories/V2/MatchWF.vio theories/V2/Glue.vio theories/V2/ScoringNoD3.vio
theories/Props/C02.vos theories/Props/C02.vok theories/Props/C02.required_vos: theories/Props/C02.v theories/Base/Utf8.vos theories/Base/Float64.vos theories/Base/Sort.vos theories/Base/SortProof.vos theories/Base/Float64Proof.vos theories/V2/Tok.vos theories/V2/SSet.vos theories/V2/Match.vos theories/V2/ScoringProof.vos theories/V2/MatchND.vos theories/V2/MatchWF.vos theories/V2/Glue.vos theories/V2/ScoringNoD3.vos
theories/Props/C03.vo theories/Props/C03.glob theories/Props/C03.v.beautified theories/Props/C03.required_vo: theories/Props/C03.v theories/Base/Utf8.vo theories/Base/Float64.vo theories/Base/Sort.vo theories/Base/SortProof.vo theories/Base/Float64Proof.vo theories/V2/Tok.vo theories/V2/SSet.vo theories/V2/Match.vo theories/V2/ScoringProof.vo theories/V2/MatchND.vo theories/V2/MatchWF.vo theories/V2/TokInv.vo theories/V2/Glue.vo
theories/Props/C03.vio: theories/Props/C03.v theories/Base/Utf8.vio theories/Base/Float64.vio theories/Base/Sort.vio theories/Base/SortProof.vio theories/Base/Float64Proof.vio theories/V2/Tok.vio theories/V2/SSet.vio theories/V2/Match.vio theories/V2/ScoringProof.vio theories/V2/MatchND.vio theories/V2/MatchWF.vio theories/V2/TokInv.vio theories/V2/Glue.vio
theories/Props/C03.vos theories/Props/C03.vok theories/Props/C03.required_vos: theories/Props/C03.v theories/Base/Utf8.vos theories/Base/Float64.vos theories/Base/Sort.vos theories/Base/SortProof.vos theories/Base/Float64Proof.vos theories/V2/Tok.vos theories/V2/SSet.vos theories/V2/Match.vos theories/V2/ScoringProof.vos theories/V2/MatchND.vos theories/V2/MatchWF.vos theories/V2/TokInv.vos theories/V2/Glue.vos
theories/Props/C04.vo theories/Props/C04.glob theories/Props/C04.v.beautified theories/Props/C04.required_vo: theories/Props/C04.v theories/Base/Utf8.vo theories/Base/Float64.vo theories/Base/Sort.vo theories/Base/SortProof.vo theories/Base/Float64Proof.vo theories/V2/Tok.vo theories/V2/SSet.vo theories/V2/Match.vo theories/V2/ScoringProof.vo theories/V2/MatchND.vo theories/V2/MatchWF.vo
theories/Props/C04.vio: theories/Props/C04.v theories/Base/Utf8.vio theories/Base/Float64.vio theories/Base/Sort.vio theories/Base/SortProof.vio theories/Base/Float64Proof.vio theories/V2/Tok.vio theories/V2/SSet.vio theories/V2/Match.vio theories/V2/ScoringProof.vio theories/V2/MatchND.vio theories/V2/MatchWF.vio
theories/Props/C04.vos theories/Props/C04.vok theories/Props/C04.required_vos: theories/Props/C04.v theories/Base/Utf8.vos theories/Base/Float64.vos theories/Base/Sort.vos theories/Base/SortProof.vos theories/Base/Float64Proof.vos theories/V2/Tok.vos theories/V2/SSet.vos theories/V2/Match.vos theories/V2/ScoringProof.vos theories/V2/MatchND.vos theories/V2/MatchWF.vos
theories/Props/C05.vo theories/Props/C05.glob theories/Props/C05.v.beautified theories/Props/C05.required_vo: theories/Props/C05.v theories/Base/Utf8.vo theories/V2/Tok.vo theories/V2/TokSim.vo theories/V2/TokInv.vo theories/V2/TokWF.vo
theories/Props/C05.vio: theories/Props/C05.v theories/Base/Utf8.vio theories/V2/Tok.vio theories/V2/TokSim.vio theories/V2/TokInv.vio theories/V2/TokWF.vio
theories/Props/C05.vos theories/Props/C05.vok theories/Props/C05.required_vos: theories/Props/C05.v theories/Base/Utf8.vos theories/V2/Tok.vos theories/V2/TokSim.vos theories/V2/TokInv.vos theories/V2/TokWF.vos
theories/Props/C06.vo theories/Props/C06.glob theories/Props/C06.v.beautified theories/Props/C06.required_vo: theories/Props/C06.v theories/Base/Utf8.vo theories/V2/Tok.vo theories/V2/TokSim.vo theories/V2/TokInv.vo theories/V2/TokWF.vo
theories/Props/C06.vio: theories/Props/C06.v theories/Base/Utf8.vio theories/V2/Tok.vio theories/V2/TokSim.vio theories/V2/TokInv.vio theories/V2/TokWF.vio
theories/Props/C06.vos theories/Props/C06.vok theories/Props/C06.required_vos: theories/Props/C06.v theories/Base/Utf8.vos theories/V2/Tok.vos theories/V2/TokSim.vos theories/V2/TokInv.vos theories/V2/TokWF.vos
theories/Props/C10.vo theories/Props/C10.glob theories/Props/C10.v.beautified theories/Props/C10.required_vo: theories/Props/C10.v theories/Base/Utf8.vo theories/Base/Float64.vo theories/Base/Sort.vo theories/Base/SortProof.vo theories/Base/Float64Proof.vo theories/V2/Tok.vo theories/V2/SSet.vo theories/V2/Match.vo theories/V2/ScoringProof.vo theories/V2/MatchND.vo theories/V2/MatchWF.vo theories/V2/TokInv.vo theories/V2/Reader.vo theories/V2/ReaderProof.vo theories/V2/Glue.vo
theories/Props/C10.vio: theories/Props/C10.v theories/Base/Utf8.vio theories/Base/Float64.vio theories/Base/Sort.vio theories/Base/SortProof.vio theories/Base/Float64Proof.vio theories/V2/Tok.vio theories/V2/SSet.vio theories/V2/Match.vio theories/V2/ScoringProof.vio theories/V2/MatchND.vio theories/V2/MatchWF.vio theories/V2/TokInv.vio theories/V2/Reader.vio theories/V2/ReaderProof.vio theories/V2/Glue.vio
theories/Props/C10.vos theories/Props/C10.vok theories/Props/C10.required_vos: theories/Props/C10.v theories/Base/Utf8.vos theories/Base/Float64.vos theories/Base/Sort.vos theories/Base/SortProof.vos theories/Base/Float64Proof.vos theories/V2/Tok.vos theories/V2/SSet.vos theories/V2/Match.vos theories/V2/ScoringProof.vos theories/V2/MatchND.vos theories/V2/MatchWF.vos theories/V2/TokInv.vos theories/V2/Reader.vos theories/V2/ReaderProof.vos theories/V2/Glue.vos
theories/Props/C01.vo theories/Props/C01.glob theories/Props/C01.v.beautified theories/Props/C01.required_vo: theories/Props/C01.v theories/Base/Utf8.vo theories/Base/Float64.vo theories/Base/Sort.vo theories/Base/SortProof.vo theories/Base/Float64Proof.vo theories/V2/Tok.vo theories/V2/SSet.vo theories/V2/Match.vo theories/V2/ScoringProof.vo theories/V2/MatchND.vo theories/V2/MatchWF.vo theories/V2/Planted.vo theories/V2/TokSim.vo theories/V2/TokInv.vo theories/V2/PlantedText.vo theories/V2/FilterProof.vo theories/V2/FilterKeep.vo
theories/Props/C01.vio: theories/Props/C01.v theories/Base/Utf8.vio theories/Base/Float64.vio theories/Base/Sort.vio theories/Base/SortProof.vio theories/Base/Float64Proof.vio theories/V2/Tok.vio theories/V2/SSet.vio theories/V2/Match.vio theories/V2/ScoringProof.vio theories/V2/MatchND.vio theories/V2/MatchWF.vio theories/V2/Planted.vio theories/V2/TokSim.vio theories/V2/TokInv.vio theories/V2/PlantedText.vio theories/V2/FilterProof.vio theories/V2/FilterKeep.vio
theories/Props/C01.vos theories/Props/C01.vok theories/Props/C01.required_vos: theories/Props/C01.v theories/Base/Utf8.vos theories/Base/Float64.vos theories/Base/Sort.vos theories/Base/SortProof.vos theories/Base/Float64Proof.vos theories/V2/Tok.vos theories/V2/SSet.vos theories/V2/Match.vos theories/V2/ScoringProof.vos theories/V2/MatchND.vos theories/V2/MatchWF.vos theories/V2/Planted.vos theories/V2/TokSim.vos theories/V2/TokInv.vos theories/V2/PlantedText.vos theories/V2/FilterProof.vos theories/V2/FilterKeep.vos
theories/Props/C07.vo theories/Props/C07.glob theories/Props/C07.v.beautified theories/Props/C07.required_vo: theories/Props/C07.v theories/Base/Float64.vo theories/V2/SSet.vo theories/V2/Match.vo theories/V2/Planted.vo theories/V2/MatchWF.vo theories/V2/Shift.vo theories/V2/FuseShift.vo theories/V2/WindowSpec.vo theories/V2/WindowShift.vo
theories/Props/C07.vio: theories/Props/C07.v theories/Base/Float64.vio theories/V2/SSet.vio theories/V2/Match.vio theories/V2/Planted.vio theories/V2/MatchWF.vio theories/V2/Shift.vio theories/V2/FuseShift.vio theories/V2/WindowSpec.vio theories/V2/WindowShift.vio
theories/Props/C07.vos theories/Props/C07.vok theories/Props/C07.required_vos: theories/Props/C07.v theories/Base/Float64.vos theories/V2/SSet.vos theories/V2/Match.vos theories/V2/Planted.vos theories/V2/MatchWF.vos theories/V2/Shift.vos theories/V2/FuseShift.vos theories/V2/WindowSpec.vos theories/V2/WindowShift.vos
theories/Props/C11.vo theories/Props/C11.glob theories/Props/C11.v.beautified theories/Props/C11.required_vo: theories/Props/C11.v theories/Base/Utf8.vo theories/V2/Tok.vo theories/V2/TokTables.vo theories/V2/TokInv.vo theories/V2/Normalize.vo theories/V2/NormProof.vo theories/V2/NormTables.vo
theories/Props/C11.vio: theories/Props/C11.v theories/Base/Utf8.vio theories/V2/Tok.vio theories/V2/TokTables.vio theories/V2/TokInv.vio theories/V2/Normalize.vio theories/V2/NormProof.vio theories/V2/NormTables.vio
theories/Props/C11.vos theories/Props/C11.vok theories/Props/C11.required_vos: theories/Props/C11.v theories/Base/Utf8.vos theories/V2/Tok.vos theories/V2/TokTables.vos theories/V2/TokInv.vos theories/V2/Normalize.vos theories/V2/NormProof.vos theories/V2/NormTables.vos
theories/Props/C13.vo theories/Props/C13.glob theories/Props/C13.v.beautified theories/Props/C13.required_vo: theories/Props/C13.v theories/Base/Utf8.vo theories/Base/Sort.vo theories/V1/Tok1.vo theories/V1/Matcher1.vo theories/V1/Tok1Proof.vo theories/V1/Matcher1Proof.vo theories/V1/Matcher1Straddle.vo theories/V1/Matcher1Inside.vo theories/V1/Join1.vo theories/V1/Join1Proof.vo
theories/Props/C13.vio: theories/Props/C13.v theories/Base/Utf8.vio theories/Base/Sort.vio theories/V1/Tok1.vio theories/V1/Matcher1.vio theories/V1/Tok1Proof.vio theories/V1/Matcher1Proof.vio theories/V1/Matcher1Straddle.vio theories/V1/Matcher1Inside.vio theories/V1/Join1.vio theories/V1/Join1Proof.vio
theories/Props/C13.vos theories/Props/C13.vok theories/Props/C13.required_vos: theories/Props/C13.v theories/Base/Utf8.vos theories/Base/Sort.vos theories/V1/Tok1.vos theories/V1/Matcher1.vos theories/V1/Tok1Proof.vos theories/V1/Matcher1Proof.vos theories/V1/Matcher1Straddle.vos theories/V1/Matcher1Inside.vos theories/V1/Join1.vos theories/V1/Join1Proof.vos
theories/Props/C17.vo theories/Props/C17.glob theories/Props/C17.v.beautified theories/Props/C17.required_vo: theories/Props/C17.v theories/Base/Utf8.vo theories/Base/Sort.vo theories/V1/Tok1.vo theories/V1/Matcher1.vo theories/V1/Tok1Proof.vo theories/V1/Matcher1Proof.vo theories/V1/Matcher1Straddle.vo theories/V1/Matcher1Inside.vo theories/V1/Join1.vo theories/V1/Join1Proof.vo
theories/Props/C17.vio: theories/Props/C17.v theories/Base/Utf8.vio theories/Base/Sort.vio theories/V1/Tok1.vio theories/V1/Matcher1.vio theories/V1/Tok1Proof.vio theories/V1/Matcher1Proof.vio theories/V1/Matcher1Straddle.vio theories/V1/Matcher1Inside.vio theories/V1/Join1.vio theories/V1/Join1Proof.vio
theories/Props/C17.vos theories/Props/C17.vok theories/Props/C17.required_vos: theories/Props/C17.v theories/Base/Utf8.vos theories/Base/Sort.vos theories/V1/Tok1.vos theories/V1/Matcher1.vos theories/V1/Tok1Proof.vos theories/V1/Matcher1Proof.vos theories/V1/Matcher1Straddle.vos theories/V1/Matcher1Inside.vos theories/V1/Join1.vos theories/V1/Join1Proof.vos
theories/Props/C12.vo theories/Props/C12.glob theories/Props/C12.v.beautified theories/Props/C12.required_vo: theories/Props/C12.v theories/V2/Load.vo
theories/Props/C12.vio: theories/Props/C12.v theories/V2/Load.vio
theories/Props/C12.vos theories/Props/C12.vok theories/Props/C12.required_vos: theories/Props/C12.v theories/V2/Load.vos
theories/Props/C19.vo theories/Props/C19.glob theories/Props/C19.v.beautified theories/Props/C19.required_vo: theories/Props/C19.v theories/Base/Float64.vo theories/CLI/Cli.vo
theories/Props/C19.vio: theories/Props/C19.v theories/Base/Float64.vio theories/CLI/Cli.vio
theories/Props/C19.vos theories/Props/C19.vok theories/Props/C19.required_vos: theories/Props/C19.v theories/Base/Float64.vos theories/CLI/Cli.vos
theories/Conc/Interleave.vo theories/Conc/Interleave.glob theories/Conc/Interleave.v.beautified theories/Conc/Interleave.required_vo: theories/Conc/Interleave.v 
theories/Conc/Interleave.vio: theories/Conc/Interleave.v 
theories/Conc/Interleave.vos theories/Conc/Interleave.vok theories/Conc/Interleave.required_vos: theories/Conc/Interleave.v 
theories/Conc/InterleaveProof.vo theories/Conc/InterleaveProof.glob theories/Conc/InterleaveProof.v.beautified theories/Conc/InterleaveProof.required_vo: theories/Conc/InterleaveProof.v theories/Conc/Interleave.vo
theories/Conc/InterleaveProof.vio: theories/Conc/InterleaveProof.v theories/Conc/Interleave.vio
theories/Conc/InterleaveProof.vos theories/Conc/InterleaveProof.vok theories/Conc/InterleaveProof.required_vos: theories/Conc/InterleaveProof.v theories/Conc/Interleave.vos
theories/Props/C09.vo theories/Props/C09.glob theories/Props/C09.v.beautified theories/Props/C09.required_vo: theories/Props/C09.v theories/Conc/Interleave.vo theories/Conc/InterleaveProof.vo
theories/Props/C09.vio: theories/Props/C09.v theories/Conc/Interleave.vio theories/Conc/InterleaveProof.vio
theories/Props/C09.vos theories/Props/C09.vok theories/Props/C09.required_vos: theories/Props/C09.v theories/Conc/Interleave.vos theories/Conc/InterleaveProof.vos
theories/Props/C14.vo theories/Props/C14.glob theories/Props/C14.v.beautified theories/Props/C14.required_vo: theories/Props/C14.v theories/Conc/Interleave.vo theories/Conc/InterleaveProof.vo
theories/Props/C14.vio: theories/Props/C14.v theories/Conc/Interleave.vio theories/Conc/InterleaveProof.vio
theories/Props/C14.vos theories/Props/C14.vok theories/Props/C14.required_vos: theories/Props/C14.v theories/Conc/Interleave.vos theories/Conc/InterleaveProof.vos
theories/V1/Archive.vo theories/V1/Archive.glob theories/V1/Archive.v.beautified theories/V1/Archive.required_vo: theories/V1/Archive.v 
theories/V1/Archive.vio: theories/V1/Archive.v 
theories/V1/Archive.vos theories/V1/Archive.vok theories/V1/Archive.required_vos: theories/V1/Archive.v 
theories/V1/License1.vo theories/V1/License1.glob theories/V1/License1.v.beautified theories/V1/License1.required_vo: theories/V1/License1.v theories/Base/Float64.vo
theories/V1/License1.vio: theories/V1/License1.v theories/Base/Float64.vio
theories/V1/License1.vos theories/V1/License1.vok theories/V1/License1.required_vos: theories/V1/License1.v theories/Base/Float64.vos
theories/V1/License1Proof.vo theories/V1/License1Proof.glob theories/V1/License1Proof.v.beautified theories/V1/License1Proof.required_vo: theories/V1/License1Proof.v theories/Base/Float64.vo theories/Base/Float64Proof.vo theories/V1/License1.vo
theories/V1/License1Proof.vio: theories/V1/License1Proof.v theories/Base/Float64.vio theories/Base/Float64Proof.vio theories/V1/License1.vio
theories/V1/License1Proof.vos theories/V1/License1Proof.vok theories/V1/License1Proof.required_vos: theories/V1/License1Proof.v theories/Base/Float64.vos theories/Base/Float64Proof.vos theories/V1/License1.vos
theories/Props/C15.vo theories/Props/C15.glob theories/Props/C15.v.beautified theories/Props/C15.required_vo: theories/Props/C15.v theories/V1/Archive.vo
theories/Props/C15.vio: theories/Props/C15.v theories/V1/Archive.vio
theories/Props/C15.vos theories/Props/C15.vok theories/Props/C15.required_vos: theories/Props/C15.v theories/V1/Archive.vos
theories/Props/C16.vo theories/Props/C16.glob theories/Props/C16.v.beautified theories/Props/C16.required_vo: theories/Props/C16.v theories/Base/Float64.vo theories/V1/License1.vo theories/Base/Float64Proof.vo theories/V1/License1Proof.vo
theories/Props/C16.vio: theories/Props/C16.v theories/Base/Float64.vio theories/V1/License1.vio theories/Base/Float64Proof.vio theories/V1/License1Proof.vio
theories/Props/C16.vos theories/Props/C16.vok theories/Props/C16.required_vos: theories/Props/C16.v theories/Base/Float64.vos theories/V1/License1.vos theories/Base/Float64Proof.vos theories/V1/License1Proof.vos
