"""Common machinery of the /verif checks (see DESIGN.md section 2).

A check for property Cxx is a Python module checks/Cxx.py with a function
run(ctx).  It uses the helpers below to
  1. build the Coq development and gate on the property's theorem file
     (Props/Cxx.v compiles, Print Assumptions within the allowed list, no
     Admitted/Axiom/... anywhere),
  2. build the Go harness from /repo's *current working tree* (overlay +
     -tags verif) and the extracted OCaml model driver,
  3. run the correspondence streams (implementation vs model, same inputs),
  4. run the property's own search oracle on the implementation,
  5. match violations against known_findings.json, write evidence, print
     VIOLATION / KNOWN-FINDING lines and set the exit status.
"""
import hashlib
import json
import os
import re
import subprocess
import sys
import time

VERIF = '/verif'
REPO = '/repo'
BUILD = os.path.join(VERIF, '_build')
COQ = os.path.join(VERIF, 'coq')
GOENV = dict(GOFLAGS='-mod=mod', GOPROXY='off', GOSUMDB='off', GOTOOLCHAIN='local',
             CGO_ENABLED='1')

ALLOWED_AXIOMS = {
    # standard-library axioms that may appear under the float lemmas (Flocq
    # sits on the real numbers); named in DESIGN.md section 7.
    'ClassicalDedekindReals.sig_forall_dec',
    'ClassicalDedekindReals.sig_not_dec',
    'FunctionalExtensionality.functional_extensionality_dep',
    'Classical_Prop.classic',
}
FORBIDDEN = re.compile(
    r'\b(Admitted|admit|Axiom|Axioms|Parameter|Parameters|Conjecture|Hypothesis|Variable|'
    r'Hypotheses|Variables|Admit Obligations|bypass_check|Unset Guard Checking|'
    r'Unset Positivity Checking|Unset Universe Checking|type-in-type|impredicative-set)\b')


def sh(cmd, cwd=None, env=None, timeout=None, stdin=None):
    e = dict(os.environ)
    e.update(GOENV)
    if env:
        e.update(env)
    try:
        p = subprocess.run(cmd, cwd=cwd, env=e, timeout=timeout, input=stdin,
                           stdout=subprocess.PIPE, stderr=subprocess.STDOUT,
                           shell=isinstance(cmd, str), text=True, errors='replace')
        return p.returncode, p.stdout
    except subprocess.TimeoutExpired as ex:
        out = ex.stdout or ''
        if isinstance(out, bytes):
            out = out.decode('utf8', 'replace')
        return 124, out + '\n[timeout]'


def strip_coq_comments(src):
    out, depth, i, n = [], 0, 0, len(src)
    instr = False
    while i < n:
        if not instr and src.startswith('(*', i):
            depth += 1
            i += 2
            continue
        if not instr and depth > 0 and src.startswith('*)', i):
            depth -= 1
            i += 2
            continue
        c = src[i]
        if depth == 0:
            if c == '"':
                instr = not instr
            out.append(c)
        i += 1
    return ''.join(out)


class Ctx:
    def __init__(self, pid, tier, seed):
        self.pid, self.tier, self.seed = pid, tier, seed
        self.t0 = time.time()
        self.rundir = os.path.join(BUILD, 'run', pid)
        os.makedirs(self.rundir, exist_ok=True)
        os.makedirs(os.path.join(BUILD, 'replay'), exist_ok=True)
        self.violations = []      # dicts: kind, cls, detail, replay (path)
        self.known_hits = {}      # finding id -> count
        self.gate_breaks = []     # names of theorems / correspondence streams that no longer check
        self.cov = dict(evaluations=0, distinct_nontrivial=0, rule='', samples=[],
                        traces_validated_against_impl=0, obligations=0, discharged=0,
                        checker_cmd='', trusted_base=[], streams={})
        self.assumptions = []
        self.notes = []
        self._distinct = set()
        self.level = 'proof'
        self.explanation = ''
        self.kf = load_known_findings(pid)
        self.repo_status0 = sh(['git', '-C', REPO, 'status', '--porcelain'])[1]

    # ---------- logging ----------
    def log(self, *a):
        print('[%s %6.1fs]' % (self.pid, time.time() - self.t0), *a, flush=True)

    # ---------- Coq ----------
    def build_coq(self):
        rc, out = sh(['make', '-j16'], cwd=COQ, timeout=3000)
        if rc != 0:
            self.log('coq build FAILED')
            print(out[-3000:])
            self.gate_breaks.append('coq-build: ' + last_error(out))
            return False
        return True

    def cone(self, vfile):
        """transitive LC dependencies (source paths) of a .v file"""
        seen, todo = [], [vfile]
        while todo:
            f = todo.pop()
            if f in seen or not os.path.exists(f):
                continue
            seen.append(f)
            src = strip_coq_comments(open(f).read())
            for m in re.finditer(r'From\s+LC\.(\w+)\s+Require\s+(?:Import\s+|Export\s+)?([\w\s.]+?)\.\s', src):
                for mod in m.group(2).split():
                    todo.append(os.path.join(COQ, 'theories', m.group(1), mod.split('.')[-1] + '.v'))
            for m in re.finditer(r'Require\s+(?:Import\s+|Export\s+)?((?:LC\.[\w.]+\s*)+)\.', src):
                for mod in m.group(1).split():
                    parts = mod.split('.')
                    todo.append(os.path.join(COQ, 'theories', *parts[1:]) + '.v')
        return seen

    def proof_gate(self, theorems=None):
        """compile Props/<pid>.v afresh, collect Print Assumptions, audit the cone"""
        ok = self.build_coq()
        prop = os.path.join(COQ, 'theories', 'Props', self.pid + '.v')
        self.cov['checker_cmd'] = ('make -j16 -C /verif/coq (coqc 8.16.1, full .vo) ; '
                                   'coqc -Q theories LC theories/Props/%s.v' % self.pid)
        if not ok:
            return False
        rc, out = sh(['coqc', '-Q', 'theories', 'LC', prop], cwd=COQ, timeout=1200)
        if rc != 0:
            self.log('Props/%s.v does not compile' % self.pid)
            print(out[-3000:])
            self.gate_breaks.append('theorem-file Props/%s.v: %s' % (self.pid, last_error(out)))
            return False
        if self.tier == 'thorough' and os.environ.get('VERIF_NO_COQCHK') != '1':
            # independent re-check of the compiled theorem file and everything it depends on; collected in finish()
            self._coqchk = subprocess.Popen(['timeout', '5400', 'coqchk', '-silent', '-o', '-Q', 'theories', 'LC', 'LC.Props.' + self.pid],
                                            cwd=COQ, stdout=subprocess.PIPE, stderr=subprocess.STDOUT, text=True)
            self.cov['checker_cmd'] += ' ; coqchk -silent -o -Q theories LC LC.Props.%s' % self.pid
        # Print Assumptions output
        closed = len(re.findall(r'Closed under the global context', out))
        axioms = set()
        inblk = False
        for line in out.split('\n'):
            if line.startswith('Axioms:'):
                inblk = True
                continue
            if not inblk:
                continue
            if line.startswith(' ') or line.strip() == '':
                continue            # continuation of a type
            m = re.match(r'^([A-Za-z_][\w\.\']*)\s*(:|$)', line)
            if m and '.' in m.group(1):
                axioms.add(m.group(1))
            else:
                inblk = False       # some other output (Closed under..., Check, ...)
        bad = [a for a in axioms if a not in ALLOWED_AXIOMS]
        self.assumptions.append('Print Assumptions: %d theorem(s) closed under the global context; axioms used: %s'
                                % (closed, sorted(axioms) if axioms else 'none'))
        if bad:
            self.gate_breaks.append('axioms outside the allowed list: %s' % bad)
        # audit cone
        cone = self.cone(prop)
        nthm, nfiles = 0, 0
        for f in cone:
            src = strip_coq_comments(open(f).read())
            m = FORBIDDEN.search(remove_sections_vars(src))
            if m:
                self.gate_breaks.append('forbidden construct %r in %s' % (m.group(0), os.path.relpath(f, COQ)))
            nthm += len(re.findall(r'^\s*(?:Local\s+|Global\s+)?(?:Theorem|Lemma|Corollary|Example|Fact|Remark|Proposition)\s', src, re.M))
            nfiles += 1
            vo = f[:-2] + '.vo'
            if not os.path.exists(vo) or os.path.getmtime(vo) < os.path.getmtime(f):
                self.gate_breaks.append('stale or missing %s' % os.path.relpath(vo, COQ))
        self.cov['obligations'] = nthm
        self.cov['discharged'] = nthm if not self.gate_breaks else 0
        self.cov['proof_files'] = [os.path.relpath(f, COQ) for f in cone]
        if theorems:
            src = strip_coq_comments(open(prop).read())
            for t in theorems:
                if not re.search(r'\b(Theorem|Lemma|Corollary)\s+%s\b' % re.escape(t), src):
                    self.gate_breaks.append('theorem %s missing from Props/%s.v' % (t, self.pid))
            self.cov['property_theorems'] = theorems
        return not self.gate_breaks

    # ---------- OCaml driver ----------
    def build_driver(self):
        rc, out = sh([os.path.join(VERIF, 'ocaml', 'build.sh')], timeout=1200)
        if rc != 0:
            self.log('driver build FAILED')
            print(out[-3000:])
            self.gate_breaks.append('model-driver build: ' + out[-300:])
            return False
        return True

    def driver(self, family, infile, outfile, extra=None, timeout=3000):
        args = [os.path.join(BUILD, 'extract', 'driver'), family] + (extra or [])
        with open(infile) as fi, open(outfile, 'w') as fo:
            p = subprocess.run(args, stdin=fi, stdout=fo, stderr=subprocess.PIPE, timeout=timeout)
        if p.returncode != 0:
            self.gate_breaks.append('model-driver %s failed: %s' % (family, p.stderr.decode()[-300:]))
            return False
        return True

    def drivers(self, jobs, timeout=3000):
        """run several model-driver jobs concurrently: jobs = [(family, infile, outfile, extra)]"""
        procs = []
        for fam, inf, outf, extra in jobs:
            args = [os.path.join(BUILD, 'extract', 'driver'), fam] + (extra or [])
            procs.append((fam, subprocess.Popen(args, stdin=open(inf), stdout=open(outf, 'w'), stderr=subprocess.PIPE)))
        ok = True
        for fam, p in procs:
            try:
                _, err = p.communicate(timeout=timeout)
            except subprocess.TimeoutExpired:
                p.kill()
                err = b'timeout'
            if p.returncode != 0:
                self.gate_breaks.append('model-driver %s failed: %s' % (fam, (err or b'').decode()[-300:]))
                ok = False
        return ok

    # ---------- Go ----------
    def build_go(self, module, race=False, pkg='./verifharness', name=None):
        """module in {'root','v2'}; builds from /repo's working tree with overlay"""
        moddir = REPO if module == 'root' else os.path.join(REPO, 'v2')
        hdir = os.path.join(VERIF, 'harness', 'go', module)
        gm = os.path.join(BUILD, 'gomod', module)
        os.makedirs(gm, exist_ok=True)
        for f in ('go.mod', 'go.sum'):
            src = os.path.join(moddir, f)
            dst = os.path.join(gm, f)
            if f == 'go.mod' or not os.path.exists(dst):
                open(dst, 'w').write(open(src).read())
        rep = {}
        for root, _, files in os.walk(hdir):
            for f in files:
                s = os.path.join(root, f)
                rep[os.path.join(moddir, os.path.relpath(s, hdir))] = s
        ov = os.path.join(BUILD, 'overlay_%s.json' % module)
        json.dump({'Replace': rep}, open(ov, 'w'), indent=1)
        name = name or (module + 'harness' + ('_race' if race else ''))
        binp = os.path.join(BUILD, 'bin', name)
        os.makedirs(os.path.dirname(binp), exist_ok=True)
        cmd = ['go', 'build', '-modfile=' + os.path.join(gm, 'go.mod'), '-overlay', ov, '-tags', 'verif']
        if race:
            cmd.append('-race')
        cmd += ['-o', binp, pkg]
        rc, out = sh(cmd, cwd=moddir, timeout=1200)
        if rc != 0:
            self.log('go build FAILED (%s)' % module)
            print(out[-3000:])
            self.gate_breaks.append('harness build against current tree failed: ' + out[-400:])
            return None
        return binp

    # ---------- correspondence ----------
    def compare_stream(self, name, cases_path, impl_path, model_path, nontrivial=None,
                       classify=None, max_report=5, concrete=True, kind='correspondence'):
        """line-by-line comparison; returns list of mismatching indices"""
        cases = open(cases_path).read().split('\n')
        impl = open(impl_path).read().split('\n')
        model = open(model_path).read().split('\n')
        if cases and cases[-1] == '':
            cases.pop()
        impl = impl[:len(cases)] + [''] * (len(cases) - len(impl))
        model = model[:len(cases)] + [''] * (len(cases) - len(model))
        mism = []
        nt = 0
        for i, c in enumerate(cases):
            self._distinct.add(hashlib.md5((name + c).encode()).hexdigest())
            if nontrivial is None or nontrivial(c, impl[i]):
                nt += 1
            if impl[i] != model[i]:
                mism.append(i)
        self.cov['evaluations'] += len(cases)
        self.cov['traces_validated_against_impl'] += len(cases) - len(mism)
        self.cov['streams'][name] = dict(cases=len(cases), nontrivial=nt, mismatches=len(mism))
        if cases:
            k = min(len(cases) - 1, 1 + self.seed % 7)
            self.cov['samples'].append({'stream': name, 'case': cases[k][:400], 'impl': impl[k][:400]})
        for i in mism[:max_report]:
            cls = classify(cases[i], impl[i], model[i]) if classify else None
            if concrete:
                self.add_violation(kind + ':' + name, cls,
                                   dict(stream=name, index=i, case=cases[i], impl=impl[i], model=model[i]))
            elif i == mism[0]:
                self.gate_breaks.append('correspondence stream %s no longer checks: first differing case #%d %s impl=%s model=%s'
                                        % (name, i, cases[i][:300], impl[i][:300], model[i][:300]))
        if len(mism) > max_report:
            self.notes.append('%s: %d further mismatches not listed' % (name, len(mism) - max_report))
        return mism

    def oracle_stream(self, name, path, cases_path=None, max_report=5):
        """verdict lines written by the Go property oracle: 'OK <0|1 nontrivial> [note]' or
        'VIOL <class|-> <detail...>'; optional parallel file with the inputs for the replay"""
        lines = [l for l in open(path).read().split('\n') if l != '']
        cases = open(cases_path).read().split('\n') if cases_path and os.path.exists(cases_path) else None
        nt = viol = 0
        reported = {}
        for i, l in enumerate(lines):
            self._distinct.add(hashlib.md5((name + str(i) + (cases[i] if cases and i < len(cases) else l)).encode()).hexdigest())
            if l.startswith('OK'):
                if l[2:4].strip().startswith('1'):
                    nt += 1
                continue
            viol += 1
            parts = l.split(' ', 2)
            cls = parts[1] if len(parts) > 1 and parts[1] != '-' else None
            key = cls or '-'
            reported[key] = reported.get(key, 0) + 1
            if reported[key] <= max_report:
                self.add_violation('oracle:' + name, cls,
                                   dict(stream=name, index=i, verdict=l[:2000],
                                        case=(cases[i][:4000] if cases and i < len(cases) else None)))
        self.cov['evaluations'] += len(lines)
        self.cov['streams'][name] = dict(cases=len(lines), nontrivial=nt, mismatches=viol)
        if lines:
            k = min(len(lines) - 1, 1 + self.seed % 7)
            self.cov['samples'].append({'stream': name, 'verdict': lines[k][:300],
                                        'case': (cases[k][:300] if cases and k < len(cases) else None)})
        return viol

    def two_phase_unescape(self, family_args, cases, d, harness):
        """html.UnescapeString oracle: the model lists every raw token containing '&', Go unescapes them"""
        amps = os.path.join(d, 'amps.txt')
        ue = os.path.join(d, 'ue.table')
        args = [os.path.join(BUILD, 'extract', 'driver')] + family_args + ['amps']
        with open(cases) as fi, open(amps, 'w') as fo:
            p = subprocess.run(args, stdin=fi, stdout=fo, stderr=subprocess.PIPE, timeout=3000)
        if p.returncode != 0:
            self.gate_breaks.append('model-driver (amps phase) failed: ' + p.stderr.decode()[-300:])
            return None
        with open(amps) as fi, open(ue, 'w') as fo:
            p = subprocess.run([harness, 'unescape'], stdin=fi, stdout=fo, stderr=subprocess.PIPE, timeout=600)
        n = len([l for l in open(ue).read().split('\n') if l])
        self.assumptions.append('html.UnescapeString oracle: %d raw tokens containing & resolved by the running Go code' % n)
        return ue

    # ---------- violations ----------
    def add_violation(self, kind, cls, detail, concrete=True):
        """cls: narrow classification label used to match known findings (or None)"""
        for f in self.kf:
            if f.get('status') == 'known' and cls is not None and f.get('class') == cls:
                self.known_hits[f['id']] = self.known_hits.get(f['id'], 0) + 1
                return
        n = len(self.violations)
        path = os.path.join(BUILD, 'replay', ('re-' if getattr(self, 'replay_mode', False) else '') + '%s-%d.json' % (self.pid, n))
        json.dump(dict(property=self.pid, kind=kind, cls=cls, seed=self.seed, tier=self.tier,
                       concrete_failing_input=concrete, detail=detail), open(path, 'w'), indent=1)
        self.violations.append(dict(kind=kind, cls=cls, replay=path, concrete=concrete))

    def collect_coqchk(self):
        p = getattr(self, '_coqchk', None)
        if p is None:
            return
        out, _ = p.communicate()
        if p.returncode == 124:
            self.notes.append('coqchk did not finish within 90 min (not counted as a failure; the coqc build is complete)')
            return
        if p.returncode != 0:
            self.gate_breaks.append('coqchk rejects Props/%s.vo: %s' % (self.pid, out[-400:]))
            return
        m = re.search(r'\* Axioms:(.*?)\* Constants/Inductives relying on type-in-type:(.*?)\* Constants/Inductives relying on unsafe \(co\)fixpoints:(.*?)\* Inductives whose positivity is assumed:(.*)', out, re.S)
        if not m:
            self.gate_breaks.append('coqchk output not understood: ' + out[-300:])
            return
        ax = [l.strip() for l in m.group(1).split('\n') if l.strip() and l.strip() != '<none>']
        # coqchk lists the axioms of EVERY library in the loaded context, used by the theorems or not (the primitive
        # integer/float declarations of Coq.Numbers.Cyclic.Int63 and Coq.Floats come in with Coq.Floats.SpecFloat's
        # siblings); anything declared by the standard library (prefix Coq.) is admissible and reported, anything else is not
        bad = [a for a in ax if not a.startswith('Coq.')]
        prim = [a for a in ax if re.match(r'Coq\.(Numbers\.Cyclic\.Int63|Floats)\.', a)]
        ax = sorted(a for a in ax if a not in prim) + (['%d primitive int63/float declarations of Coq.Numbers.Cyclic.Int63 and Coq.Floats (loaded, not used: see Print Assumptions)' % len(prim)] if prim else [])
        for k, name in ((2, 'type-in-type'), (3, 'unsafe fixpoints'), (4, 'assumed positivity')):
            if m.group(k).strip() != '<none>':
                self.gate_breaks.append('coqchk: %s: %s' % (name, m.group(k).strip()[:200]))
        if bad:
            self.gate_breaks.append('coqchk: axioms outside the allowed list: %s' % bad)
        self.assumptions.append('coqchk -o (independent checker, whole dependency cone incl. libraries): axioms %s; no type-in-type, '
                                'unsafe fixpoints or assumed positivity' % (ax or 'none'))

    def finish(self):
        self.collect_coqchk()
        # a broken gate without any concrete failing input is still a violation
        if self.gate_breaks and not any(v['concrete'] for v in self.violations):
            path = os.path.join(BUILD, 'replay', ('re-' if getattr(self, 'replay_mode', False) else '') + '%s-gate.json' % self.pid)
            json.dump(dict(property=self.pid, no_longer_checks=self.gate_breaks, seed=self.seed, tier=self.tier,
                           note='no concrete failing input was found by the search'), open(path, 'w'), indent=1)
            self.violations.append(dict(kind='gate', cls=None, replay=path, concrete=False))
        status1 = sh(['git', '-C', REPO, 'status', '--porcelain'])[1]
        if status1 != self.repo_status0:
            self.notes.append('WARNING: check changed /repo working tree status')
        for f in self.kf:
            if f.get('status') == 'known' and self.known_hits.get(f['id'], 0) > 0:
                print('KNOWN-FINDING: property=%s %s' % (self.pid, f['what']))
        self.cov['distinct_nontrivial'] = max(self.cov['distinct_nontrivial'], 0)
        self.cov['distinct_cases'] = len(self._distinct)
        ev = dict(property_id=self.pid, tier=self.tier, seed=self.seed, level=self.level,
                  coverage=self.cov, assumptions=self.assumptions + self.notes,
                  wall_s=round(time.time() - self.t0, 2), violations=len(self.violations),
                  known_findings_hit=self.known_hits, gate_breaks=self.gate_breaks)
        if self.explanation:
            self.cov['explanation'] = self.explanation
        os.makedirs(os.path.join(VERIF, 'evidence'), exist_ok=True)
        if not getattr(self, 'replay_mode', False):
            json.dump(ev, open(os.path.join(VERIF, 'evidence', self.pid + '.json'), 'w'), indent=1)
        for v in self.violations:
            tail = '' if v['concrete'] else ' no-failing-input-found'
            print('VIOLATION property=%s replay=%s%s' % (self.pid, v['replay'], tail))
        self.log('done: %d violation(s), %d known-finding hit(s), %d evaluations'
                 % (len(self.violations), sum(self.known_hits.values()), self.cov['evaluations']))
        return 1 if self.violations else 0


def remove_sections_vars(src):
    """Variable/Hypothesis inside a Section are allowed; drop Section bodies' declarations of
    those two words only (they are still audited outside sections)."""
    out, depth = [], 0
    for line in src.split('\n'):
        if re.match(r'\s*Section\s+\w+', line):
            depth += 1
        elif re.match(r'\s*End\s+\w+\s*\.', line) and depth > 0:
            depth -= 1
        if depth > 0:
            line = re.sub(r'\b(Variable|Variables|Hypothesis|Hypotheses|Context)\b', 'SECTIONVAR', line)
        out.append(line)
    return '\n'.join(out)


def last_error(out):
    m = re.findall(r'(File "[^"]+", line \d+.*\n(?:.*\n){0,4})', out)
    return (m[-1] if m else out[-300:]).strip()[:500]


def load_known_findings(pid):
    p = os.path.join(VERIF, 'known_findings.json')
    if not os.path.exists(p):
        return []
    return [f for f in json.load(open(p)).get('findings', []) if f.get('property') == pid]
