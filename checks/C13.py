"""C13: v1 string classifier finds verbatim occurrences exactly; any value is accepted."""
import vcheck

THEOREMS = __import__('checks.thm', fromlist=['x']).C13
TB = ['Coq 8.16.1 kernel', 'extraction (ExtrOcamlBasic + List.rev)', 'ocaml/driver.ml', 'harness/go/root/verifharness/c13.go',
      'regexp literal search, go-diff levDist and the goroutine fan-out are not modelled: the model covers the token scan, '
      'TargetRange and the slice bounds of the exact-occurrence branch']


def run(ctx):
    ctx.cov['rule'] = ('known-value sets of 1-4 values (1-8 or 20-70 tokens) over vocabularies with regex metacharacters, punctuation, '
                       'Unicode, invalid UTF-8, none contained in another; unknown = filler + value + filler (token aligned); with and '
                       'without FlattenWhitespace; thresholds 0.5-1.0; every batch in a child process (worker-goroutine panics kill the '
                       'process; crashed batches are bisected to the case). oracle: AddValue succeeds, the planted value is reported '
                       'with confidence 1.0 and Offset/Extent = its position, NearestMatch of a known value returns it at 1.0, '
                       'confidences in (0,1], Offset/Extent inside the normalised unknown. model stream: reported span vs exact_span.')
    ctx.cov['trusted_base'] = TB
    ctx.proof_gate(theorems=THEOREMS)
    ok = ctx.build_driver()
    h = ctx.build_go('root')
    if not (ok and h):
        return
    d = ctx.rundir
    rc, out = vcheck.sh([h, 'c13', str(ctx.seed), ctx.tier, d], timeout=3000)
    if rc != 0:
        ctx.gate_breaks.append('harness c13 failed: ' + out[-300:])
        return
    ctx.driver('span', d + '/span.cases', d + '/span.model', extra=['fixed'])
    ctx.compare_stream('exact-span-model', d + '/span.cases', d + '/span.impl', d + '/span.model', concrete=False)
    ctx.oracle_stream('verbatim-occurrences', d + '/c13.verdicts', d + '/c13.cases')
    ctx.cov['distinct_nontrivial'] = sum(v['nontrivial'] for v in ctx.cov['streams'].values())
