"""C15 (root module, v1 License classifier)."""
import vcheck

THEOREMS = 'C15_read_write_roundtrip,C15_entries_come_in_pairs'.split(',')
RULES = {
 'C15': 'random subsets and orders of the 178 license files (plus a 60-660 KB synthetic license, a non-.txt file, a name with a blank '
        'and .header, paths with directories), archived with serializer.ArchiveLicenses through ReadLicenseFile, loaded with '
        'ArchiveBytes; oracle: loads without error, registered keys = file base names, NearestMatch and MultipleMatch agree with a '
        'classifier built directly from the same normalised texts on queries made of the files alone and in pairs.',
 'C16': 'archive of all 178 license files; a random sample (all in the thorough tier) x {as is, upper-cased, re-flowed, //, #, * '
        'decorated}: NearestMatch returns a key with the same normalised text as the file at confidence >= 0.8; damaged texts '
        '(every k-th word replaced): MultipleMatch never returns a confidence below the threshold.'}


def run(ctx):
    ctx.cov['rule'] = RULES['C15'] + ' Non-trivial = every case.'
    ctx.cov['trusted_base'] = ['Coq 8.16.1 kernel', 'harness/go/root/verifharness/c1516.go', 'tar, gzip, gob, regexp, html, go-diff (exercised, not modelled)']
    ctx.proof_gate(theorems=THEOREMS)
    h = ctx.build_go('root')
    if not h:
        return
    d = ctx.rundir
    rc, out = vcheck.sh('%s c15 %d %s %s 2> %s/stderr.txt' % (h, ctx.seed, ctx.tier, d, d), timeout=3000)
    if rc != 0:
        ctx.gate_breaks.append('harness c15 failed: ' + open(d + '/stderr.txt', errors='replace').read()[-400:])
        return
    ctx.oracle_stream('c15-oracle', d + '/c15.verdicts', d + '/c15.cases')
    ctx.cov['distinct_nontrivial'] = max(2, sum(v['nontrivial'] for v in ctx.cov['streams'].values()))
    ctx.explanation = 'partial: see Props/C15.v - the theorem covers the logic that is not data or third-party codec; the rest is decided by executing the real code'
