"""C04: Match is deterministic and side-effect free."""
import os, shutil
import vcheck
from checks import _v2
THEOREMS = __import__('checks.thm', fromlist=['x']).C04

def run(ctx):
    ctx.cov['rule'] = ('oracle: every query (corpus documents incl. the two identical WTFPL texts, exact/edited/planted/'
                       'concatenated inputs) is matched repeatedly, through MatchFrom, on a separately built classifier, '
                       'on classifiers built in 2 random AddContent orders, on a superset corpus with unrelated documents, '
                       'after interleaved Match/Normalize calls, with tracing on (all phases, all licenses) and off again; '
                       'all results must be bit-identical and the input slice untouched; the harness is run in several '
                       'separate processes (fresh map seeds) whose outputs must be byte-identical. model stream: generic '
                       'inputs through the model, which sorts with a stable sort on a fixed document order.')
    ctx.cov['trusted_base'] = _v2.TB + ['Go map iteration enumerates every key once; sort.Sort returns a sorted permutation']
    ctx.proof_gate(theorems=THEOREMS)
    if not ctx.build_driver():
        return
    _v2.match_stream(ctx, 'determinism')   # the oracle below runs even when the model-stream harness failed
    d = ctx.rundir
    nproc = 2 if ctx.tier == 'quick' else 12
    # separate processes (fresh map seeds), run side by side; process 0 writes into the run directory
    import subprocess
    hbin = ctx.build_go('v2')
    if not hbin:
        return
    procs = []
    for k in range(nproc):
        od = d if k == 0 else os.path.join(d, 'proc%d' % k)
        os.makedirs(od, exist_ok=True)
        procs.append((od, subprocess.Popen([hbin, 'c04', str(ctx.seed), ctx.tier, od], stdout=subprocess.PIPE, stderr=subprocess.STDOUT)))
    outs = []
    for od, p in procs:
        out, _ = p.communicate()
        if p.returncode != 0:
            ctx.gate_breaks.append('harness c04 failed: %s' % out.decode(errors='replace')[-400:])
            return
        outs.append(open(od + '/c04.impl').read())
        if od != d:
            shutil.rmtree(od, ignore_errors=True)
    ctx.oracle_stream('determinism-histories', d + '/c04.verdicts', d + '/c04.cases')
    lines0 = outs[0].split('\n')
    diff = [(k, i) for k in range(1, nproc) for i, l in enumerate(outs[k].split('\n')) if i < len(lines0) and l != lines0[i]]
    ctx.cov['streams']['across-processes'] = dict(cases=len(lines0) * (nproc - 1), nontrivial=len(lines0), mismatches=len(diff), processes=nproc)
    ctx.cov['evaluations'] += len(lines0) * (nproc - 1)
    for (k, i) in diff[:3]:
        cases = open(d + '/c04.cases').read().split('\n')
        ctx.add_violation('oracle:across-processes', None, dict(process=k, index=i, case=cases[i] if i < len(cases) else None,
                          first=lines0[i], other=outs[k].split('\n')[i]))
    ctx.cov['distinct_nontrivial'] = sum(v['nontrivial'] for v in ctx.cov['streams'].values())
