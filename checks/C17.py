"""C17: v1 token offsets and candidate ranges always delimit real text."""
import vcheck

THEOREMS = __import__('checks.thm', fromlist=['x']).C17
TB = ['Coq 8.16.1 kernel', 'extraction (ExtrOcamlBasic + List.rev)', 'ocaml/driver.ml', 'harness/go/root (overlay accessors in searchset)',
      'unicode.IsSpace/IsPunct tables and UTF-8 decoding read from / compared with the running Go code',
      'targetMatchedRanges + sort.Sort are taken as an oracle: the model starts from the sorted range list the code produces']


def run(ctx):
    ctx.cov['rule'] = ('tokenizer: snippets of the 178 v1 license texts and random strings over words, ASCII and multi-byte '
                       'punctuation, Unicode spaces, invalid and truncated UTF-8; oracle: offsets reproduce every token text from the '
                       'string, increasing, non-overlapping, every non-space rune covered. ranges: source/target pairs (license text '
                       'vs edited copy in context; highly repetitive texts over 2-4 word vocabularies; granularity 1-4); oracle on '
                       'FindPotentialMatches output: non-empty candidates ordered by target position, ranges inside the token bounds, '
                       'TargetRange start <= end inside the string. model streams: tokenizer and range pipeline (untangle, split, '
                       'merge, coalesce, TargetRange) vs the code. Non-trivial = at least one candidate / every tokenizer case.')
    ctx.cov['trusted_base'] = TB
    ctx.proof_gate(theorems=THEOREMS)
    ok = ctx.build_driver()
    h = ctx.build_go('root')
    if not (ok and h):
        return
    d = ctx.rundir
    rc, out = vcheck.sh([h, 'c17', str(ctx.seed), ctx.tier, d], timeout=3000)
    if rc != 0:
        ctx.gate_breaks.append('harness c17 failed: ' + out[-300:])
        return
    ctx.drivers([('tok1', d + '/tok1.cases', d + '/tok1.model', [d, 'fixed']), ('ranges', d + '/ranges.cases', d + '/ranges.model', [])])
    ctx.compare_stream('v1-tokenizer-model', d + '/tok1.cases', d + '/tok1.impl', d + '/tok1.model', concrete=False)
    ctx.compare_stream('v1-ranges-model', d + '/ranges.cases', d + '/ranges.impl', d + '/ranges.model',
                       nontrivial=lambda c, i: i not in ('', 'PANIC'), concrete=False)
    ctx.oracle_stream('token-offsets', d + '/tok1.verdicts', d + '/tok1.cases')
    ctx.oracle_stream('candidate-ranges', d + '/ranges.verdicts', d + '/ranges.cases')
    ctx.oracle_stream('candidate-ranges-storm', d + '/storm.verdicts', d + '/storm.cases')
    ctx.cov['distinct_nontrivial'] = sum(v['nontrivial'] for v in ctx.cov['streams'].values())
