"""C17: v1 token offsets and candidate ranges always delimit real text."""
import vcheck

THEOREMS = __import__('checks.thm', fromlist=['x']).C17
TB = ['Coq 8.16.1 kernel', 'extraction (ExtrOcamlBasic + List.rev)', 'ocaml/driver.ml', 'harness/go/root (overlay accessors in searchset)',
      'unicode.IsSpace/IsPunct tables and UTF-8 decoding read from / compared with the running Go code',
      'targetMatchedRanges + sort.Sort are taken as an oracle: the model starts from the sorted range list the code produces']


def run(ctx):
    ctx.cov['rule'] = ('tokenizer: snippets of the 178 v1 license texts and random strings over words, ASCII and multi-byte '
                       'punctuation, Unicode spaces, invalid and truncated UTF-8; oracle: offsets reproduce every token text from the '
                       'string, increasing, non-overlapping, every non-space rune covered. ranges: source/target pairs (license text '
                       'vs edited copy in context; highly repetitive texts over 2-4 word vocabularies; granularity 1-4); oracle on '
                       'FindPotentialMatches output: non-empty candidates ordered by target position, ranges inside the token bounds, '
                       'TargetRange start <= end inside the string. model streams: tokenizer and range pipeline (untangle, split, '
                       'merge, coalesce, TargetRange) vs the code. Non-trivial = at least one candidate / every tokenizer case.')
    ctx.cov['trusted_base'] = TB
    ctx.proof_gate(theorems=THEOREMS)
    ok = ctx.build_driver()
    h = ctx.build_go('root')
    if not (ok and h):
        return
    d = ctx.rundir
    rc, out = vcheck.sh([h, 'c17', str(ctx.seed), ctx.tier, d], timeout=3000)
    if rc != 0:
        ctx.gate_breaks.append('harness c17 failed: ' + out[-300:])
        return
    ctx.drivers([('tok1', d + '/tok1.cases', d + '/tok1.model', [d, 'fixed']), ('ranges', d + '/ranges.cases', d + '/ranges.model', []),
                 ('join1', d + '/join.cases', d + '/join.model', [])])
    ctx.compare_stream('v1-tokenizer-model', d + '/tok1.cases', d + '/tok1.impl', d + '/tok1.model', concrete=False)
    ctx.compare_stream('v1-ranges-model', d + '/ranges.cases', d + '/ranges.impl', d + '/ranges.model',
                       nontrivial=lambda c, i: i not in ('', 'PANIC'), concrete=False)
    # the hypotheses the C17(b) theorems start from (Join1Proof.candidates_from_nodes): the windows New hashes are the
    # model's, every range handed to the pipeline pairs a source window with a target node of equal checksum, sorted
    ctx.compare_stream('v1-join-hypotheses', d + '/join.cases', d + '/join.impl', d + '/join.model',
                       nontrivial=lambda c, i: ',' in c, concrete=False)
    ctx.oracle_stream('token-offsets', d + '/tok1.verdicts', d + '/tok1.cases')
    ctx.oracle_stream('candidate-ranges', d + '/ranges.verdicts', d + '/ranges.cases')
    ctx.oracle_stream('candidate-ranges-storm', d + '/storm.verdicts', d + '/storm.cases')
    # last clause of the property: a Match's Offset/Extent can always be used to slice the normalised input. The
    # MultipleMatch cases of the C13 harness are run (child processes: a bad slice panics in a worker goroutine) and
    # only the verdicts about extents and crashes are taken from them
    rc, out = vcheck.sh([h, 'c13', str(ctx.seed), ctx.tier, d], timeout=3000)
    if rc != 0:
        ctx.gate_breaks.append('harness c13 failed: ' + out[-300:])
    else:
        with open(d + '/extents.verdicts', 'w') as f:
            for l in open(d + '/c13.verdicts').read().split('\n'):
                if not l:
                    continue
                if l.startswith('VIOL') and not ('outside the' in l or 'killed by a panic' in l or 'panicked' in l):
                    l = 'OK 1'
                f.write(l + '\n')
        ctx.oracle_stream('match-extents-slice-the-input', d + '/extents.verdicts', d + '/c13.cases')
    ctx.cov['distinct_nontrivial'] = sum(v['nontrivial'] for v in ctx.cov['streams'].values())
