"""C12: LoadLicenses(dir) equals AddContent per file, for every spelling of dir."""
from checks import _v2
THEOREMS = ['C12_load_equals_add_each', 'C12_ignores_shallow_and_non_txt', 'C12_original_refuted']


def run(ctx):
    ctx.cov['rule'] = ('generated directory trees (1-8 files at depth 1-5, names with blanks and dots, suffixes .txt txt .TXT .md none '
                       '.txt.bak, empty files) materialised in a scratch directory x 8 spellings of the directory (absolute, trailing '
                       'separator, ./dir, relative, relative with trailing separator, ".", double separator, unclean); oracle: no panic, '
                       'no error, corpus keys = per-file AddContent keys, identical Match results on probe inputs when all files sit at '
                       'depth 3; DefaultClassifier vs LoadLicenses(assets) incl. independence of two DefaultClassifier calls. model '
                       'stream: corpus keys vs Load.load_file. Non-trivial = tree with at least one loadable file.')
    ctx.cov['trusted_base'] = _v2.TB + ['filepath.Walk / filepath.Rel / embed (contract: Rel(dir, walked path) = clean relative path)']
    ctx.proof_gate(theorems=THEOREMS)
    if not ctx.build_driver():
        return
    h = _v2.harness(ctx, 'c12')
    if not h:
        return
    d = ctx.rundir
    ctx.driver('load', d + '/load.cases', d + '/load.model')
    ctx.compare_stream('load-model', d + '/load.cases', d + '/load.impl', d + '/load.model',
                       nontrivial=lambda c, i: i != '', concrete=False)
    ctx.oracle_stream('load-equals-addcontent', d + '/c12.verdicts', d + '/c12.cases')
    ctx.cov['distinct_nontrivial'] = sum(v['nontrivial'] for v in ctx.cov['streams'].values())
