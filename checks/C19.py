"""C19: the identify_license CLI reports what the library finds."""
import vcheck
from checks import _v2
THEOREMS = ['C19_printed_is_union_of_library_results', 'C19_exit_status']


def run(ctx):
    ctx.cov['rule'] = ('the real identify_license binary, built from the working tree, run on generated directory trees (licensed, '
                       'unlicensed, empty, nested directories, names with blanks, no trailing newline, CRLF, a 66-75 KB first line, a '
                       'long trailing line, two licenses plus a notice) x -headers x -json x -include_text x -tasks {1,2,7,1000}, '
                       'directory or individual paths as arguments; oracle: printed lines = the library Match results of every file '
                       '(multiset), exit status 0 iff something was reported, JSON files sorted, classifications = library results, '
                       'Text = lines StartLine..EndLine (ScanLines semantics). Non-trivial = run with at least one reported license.')
    ctx.cov['trusted_base'] = _v2.TB + ['os/exec, the file system, encoding/json, flag parsing of the tool (exercised, not modelled)']
    ctx.proof_gate(theorems=THEOREMS)
    h = ctx.build_go('v2')
    b = ctx.build_go('v2', pkg='./tools/identify_license', name='identify_license')
    if not (h and b):
        return
    if not _v2.harness(ctx, 'c19', [b]):
        return
    ctx.oracle_stream('cli-vs-library', ctx.rundir + '/c19.verdicts', ctx.rundir + '/c19.cases')
    ctx.cov['distinct_nontrivial'] = max(2, sum(v['nontrivial'] for v in ctx.cov['streams'].values()))
    ctx.explanation = ('partial: theorems cover the assembly of per-file results (schedule independence as a multiset, exit status); '
                       'everything else is decided by running the real binary')
