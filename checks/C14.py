"""C14: concurrent use (interleaving theorems + -race harness)."""
from checks import _race

THEOREMS = {'C09': ['C09_no_conflicting_accesses', 'C09_every_call_returns_its_sequential_result', 'C09_shared_state_never_modified'],
            'C14': ['C14_interleaving_eq_sequential', 'C14_schedule_independent', 'C14_lazy_init_refuted']}['C14']


def run(ctx):
    ctx.cov['rule'] = {'C09': 'one classifier (40 embedded documents), cold in the first round of each fan-out width, matched from 2, 16 and 64 '
                              'goroutines alternating Match and MatchFrom over inputs that reach the fuzzy path (edited, partial+full, '
                              'doubled, truncated multi-byte endings); every result compared with the sequential result of a separately '
                              'built classifier; the harness is built with -race. Non-trivial = input with at least one match.',
                       'C14': 'stringclassifier.Classifier filled with AddValue (lazy search sets) and with AddPrecomputedValue, cold per '
                              'round, used from 2, 8 and 32 goroutines mixing MultipleMatch, NearestMatch and AddValue (fresh and '
                              'duplicate keys: exactly one winner); results compared with sequential ones; -race build.'}['C14']
    ctx.cov['trusted_base'] = ['Coq 8.16.1 kernel', 'Go race detector and scheduler (what is observed is a sample of interleavings)',
                               'harness/go/root/verifharness/c14.go']
    ctx.proof_gate(theorems=THEOREMS)
    h = _race.race_run(ctx, 'root', 'c14')
    if h:
        ctx.oracle_stream('concurrent-equals-sequential', ctx.rundir + '/c14.verdicts', ctx.rundir + '/c14.cases')
    ctx.cov['distinct_nontrivial'] = max(2, sum(v['nontrivial'] for v in ctx.cov['streams'].values()))
    ctx.explanation = ('partial: the theorems are about the interleaving model (read-only footprint => race free, schedule independent); '
                       'that the Go code has that footprint is observed with the race detector, not proved')
