"""C06: notices, list markers, hyphenation, spelling variants are ignored."""
from checks import _v2
THEOREMS = __import__('checks.thm', fromlist=['x']).C06

def run(ctx):
    ctx.cov['rule'] = ('oracle (metamorphic, full embedded corpus): per license-bearing input: 3 notice/ISO-date lines (12 '
                       'templates, only those the running tokenizer itself treats as ignorable) inserted at random line gaps - '
                       'licenses unchanged up to the line shift and a Copyright match on exactly the inserted line; list markers '
                       '1. iv. 3.1. 1) b. a) 12. before a line whose first word is not header-like; 3 hyphen splits of an inner '
                       'word; interchangeable spellings in both directions; http<->https. tokenizer stream as in C05. '
                       'Non-trivial = input with at least one match.')
    ctx.cov['trusted_base'] = _v2.TB
    ctx.proof_gate(theorems=THEOREMS)
    if not ctx.build_driver():
        return
    h = _v2.harness(ctx, 'tok')
    if h:   # the oracle below runs even when the model-stream harness failed
        _v2.tables_gate(ctx)
        _v2.tok_stream(ctx, h)
    if _v2.harness(ctx, 'c06'):
        ctx.oracle_stream('ignored-variations', ctx.rundir + '/c06.verdicts', ctx.rundir + '/c06.cases')
    ctx.cov['distinct_nontrivial'] = sum(v['nontrivial'] for v in ctx.cov['streams'].values())
