"""Names of the property theorems each check requires to be present in Props/<id>.v"""
C01 = ['C01_candidate_survives', 'C01_survives_beside_or_on_last_line', 'C01_two_copies_on_one_line', 'C01_rejected_candidates_have_no_influence', 'C01_filter_result_settled', 'C01_text_level', 'C01_tokenizer_compositional', 'C01_settled_lines', 'C01_prefilter_never_rejects', 'C01_main_diagonal', 'C01_range_survives_fusion_and_cut', 'C01_exact_copy_scores_one', 'C01_candidate_present', 'C01_reported_when_isolated']
C02 = ['C02_confidence_bound_any_valid_script', 'C02_distance_and_span_any_valid_script', 'C02_confidence_bound', 'C02_distance_and_span', 'C02_script_cost_bounds_levenshtein', 'C02_levenshtein_is_least_script_cost',
       'C02_trimming_removes_exactly_the_deleted_words', 'C02_confidence_antitone', 'C02_confidence_one_iff_zero_distance']
C03 = ['C03_all_in_one', 'C03_sorted_by_confidence', 'C03_every_match_well_formed', 'C03_lines_ordered', 'C03_token_lines_bounded', 'C03_token_lines_sorted',
       'C03_results_are_sorted_candidates', 'C03_sort_sorted', 'C03_confidence_at_most_one', 'C03_ranges_in_bounds']
C04 = ['C04_order_independent', 'C04_any_sort_same_result', 'C04_less_total', 'C04_sorted_permutation_unique',
       'C04_original_less_not_total', 'C04_original_order_dependent']
C05 = ['C05_recase', 'C05_whitespace_runs', 'C05_trailing_blanks', 'C05_crlf', 'C05_indentation', 'C05_decoration',
       'C05_typographic_dashes', 'C05_typographic_quotes', 'C05_blank_lines']
C06 = ['C06_notice_insert', 'C06_marker_dropped', 'C06_marker_shapes_dot', 'C06_marker_shapes_paren', 'C06_spelling', 'C06_https']
C07 = ['C07_exact_copy_position_independent_partial', 'C07_hash_join_position_independent_partial', 'C07_hit_bitmap_position_independent_partial',
       'C07_window_refines_count', 'C07_detect_runs_spec', 'C07_runs_sound', 'C07_window_position_independent', 'C07_window_qualifies_embedded',
       'C07_window_nothing_after', 'C07_window_before_needs_first', 'C07_fusion_position_independent_partial', 'C07_fusion_size_irrelevant',
       'C07_potential_matches_shift_given_runs_partial', 'C07_clamp_is_position_dependent',
       'C07_detect_runs_position_independent_partial', 'C07_searchset_stage_position_independent_partial', 'C07_matched_ranges_stage_position_independent_partial']
C10 = ['C10_total_for_valid_oracle', 'C10_match_total', 'C10_ranges_in_bounds', 'C10_offsets_bounded', 'C10_reader_total']
C11 = ['C11_for_checked_tables', 'C11_restricted', 'C11_retokenize_normalized', 'C11_raw_vs_norm', 'C11_raw_tokens_well_formed', 'C11_raw_words_partial', 'C11_lines_monotone_partial']
C17 = ['C17_offsets_reproduce_text', 'C17_tokens_ordered', 'C17_tokens_cover_non_space', 'C17_candidates_well_formed', 'C17_candidates_ordered', 'C17_target_range_inside_text', 'C17_original_refuted',
       'C17_windows_in_bounds', 'C17_sort_establishes_hypotheses', 'C17_candidates_from_nodes', 'C17_target_range_from_nodes']
C13 = ['C13_occurrence_starting_inside_a_token', 'C13_start_token_never_found', 'C13_occurrence_ending_inside_a_token', 'C13_exact_occurrence_span', 'C13_reported_spans_inside_text']
