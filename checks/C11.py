"""C11: Normalize output lines up with Match positions and matches the same."""
import vcheck
from checks import _v2
THEOREMS = __import__('checks.thm', fromlist=['x']).C11

def run(ctx):
    ctx.cov['rule'] = ('oracle: for license-bearing inputs (corpus documents alone/in context/edited, scenario files, two-license '
                       'files, targeted witnesses): tokens(Normalize(x)) must equal tokens(x) word for word and line for line, '
                       'and Match(Normalize(x)) = Match(x) without Copyright entries. Normalize model stream: model vs '
                       'Normalize on those inputs plus synthetic texts (byte-identical output). Non-trivial = more than 3 words.')
    ctx.cov['trusted_base'] = _v2.TB
    ctx.proof_gate(theorems=THEOREMS)
    if not ctx.build_driver():
        return
    h = _v2.harness(ctx, 'c11')
    if not h:
        return
    d = ctx.rundir
    ue = ctx.two_phase_unescape(['normalize', d], d + '/normalize.cases', d, h)
    if ue:
        ctx.driver('normalize', d + '/normalize.cases', d + '/normalize.model', extra=[d, 'run', ue])
        ctx.compare_stream('normalize-model', d + '/normalize.cases', d + '/normalize.impl', d + '/normalize.model',
                           nontrivial=lambda c, i: len(i) > 10, concrete=False)
    ctx.oracle_stream('normalize-lines-up', d + '/c11.verdicts', d + '/c11.cases')
    ctx.oracle_stream('normalize-results-are-values', d + '/c11h.verdicts', d + '/c11h.cases')
    # the theorem C11_restricted predicts the oracle's verdict wherever its two boolean hypotheses hold: evaluate
    # them (extracted NormProof.flushes_ok / canon_resid, on the dumped tables) on every license-bearing input
    if ue:
        # C11_restricted is stated for tables satisfying NormProof.tables_ok; NormTables.norm_tables_wf_ok derives that
        # from a boolean check, evaluated here on the tables dumped from the running code (every rune below the bound)
        rc, out = vcheck.sh([vcheck.BUILD + '/extract/driver', 'normwf', d, ue])
        ok = rc == 0 and out.strip().endswith('true')
        ctx.assumptions.append('norm_tables_wf (NormTables.v; implies tables_ok, the table hypothesis of C11_restricted) evaluated by the '
                               'extracted model on the dumped Unicode/punctuation/interchangeable tables: %s' % ('true' if ok else 'FALSE'))
        if not ok:
            ctx.gate_breaks.append('the tokenizer tables of the running code left the class the C11 theorem is proved for (norm_tables_wf = false): ' + out[-200:])
    if ue and ctx.driver('normhyp', d + '/normalize.cases', d + '/normhyp.out', extra=[d, ue]):
        hyp = [l for l in open(d + '/normhyp.out').read().split('\n') if l]
        ver = [l for l in open(d + '/c11.verdicts').read().split('\n') if l]
        cases = open(d + '/c11.cases').read().split('\n')
        holds = agree = 0
        for i, v in enumerate(ver):
            if i < len(hyp) and hyp[i] == '1 1':
                holds += 1
                # the token part of the oracle is exactly the theorem's conclusion; the Match part follows from it
                if v.startswith('OK'):
                    agree += 1
                else:
                    ctx.add_violation('theorem-vs-implementation', None,
                                      dict(stream='C11_restricted', index=i, case=cases[i][:3000] if i < len(cases) else None,
                                           verdict=v[:1500], note='both hypotheses of C11_restricted hold for this input (evaluated by the '
                                           'extracted model on the dumped tables) but the implementation does not satisfy the conclusion'))
        ctx.cov['streams']['theorem-hypotheses'] = dict(cases=len(ver), nontrivial=holds, mismatches=holds - agree)
        ctx.assumptions.append('C11_restricted: its hypotheses (flushes_ok, canon_resid) hold on %d of %d license-bearing inputs of this run; '
                               'the implementation satisfies the conclusion on %d of those' % (holds, len(ver), agree))
    ctx.cov['distinct_nontrivial'] = sum(v['nontrivial'] for v in ctx.cov['streams'].values())
