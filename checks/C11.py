"""C11: Normalize output lines up with Match positions and matches the same."""
import vcheck
from checks import _v2
THEOREMS = __import__('checks.thm', fromlist=['x']).C11

def run(ctx):
    ctx.cov['rule'] = ('oracle: for license-bearing inputs (corpus documents alone/in context/edited, scenario files, two-license '
                       'files, targeted witnesses): tokens(Normalize(x)) must equal tokens(x) word for word and line for line, '
                       'and Match(Normalize(x)) = Match(x) without Copyright entries. Normalize model stream: model vs '
                       'Normalize on those inputs plus synthetic texts (byte-identical output). Non-trivial = more than 3 words.')
    ctx.cov['trusted_base'] = _v2.TB
    ctx.proof_gate(theorems=THEOREMS)
    if not ctx.build_driver():
        return
    h = _v2.harness(ctx, 'c11')
    if not h:
        return
    d = ctx.rundir
    ue = ctx.two_phase_unescape(['normalize', d], d + '/normalize.cases', d, h)
    if ue:
        ctx.driver('normalize', d + '/normalize.cases', d + '/normalize.model', extra=[d, 'run', ue])
        ctx.compare_stream('normalize-model', d + '/normalize.cases', d + '/normalize.impl', d + '/normalize.model',
                           nontrivial=lambda c, i: len(i) > 10, concrete=False)
    ctx.oracle_stream('normalize-lines-up', d + '/c11.verdicts', d + '/c11.cases')
    ctx.cov['distinct_nontrivial'] = sum(v['nontrivial'] for v in ctx.cov['streams'].values())
