"""Shared stages of the v2 (classifier) checks."""
import os
import vcheck

TB = ['Coq 8.16.1 kernel', 'extraction (ExtrOcamlBasic only)', 'ocaml/driver.ml',
      'harness/go/v2 (overlay accessors zz_verif_export.go, generators, oracles)',
      'Unicode tables, punctuationMappings, listMarker, interchangeableWords read from the running Go code',
      'html.UnescapeString (two-phase oracle), go-diff DiffMainRunes (recorded edit scripts, validity checked), '
      'hash/crc32 (checksums taken from the running code)']


def harness(ctx, cmd, extra=None, timeout=3000):
    h = ctx.build_go('v2')
    if not h:
        return None
    rc, out = vcheck.sh([h, cmd, str(ctx.seed), ctx.tier, ctx.rundir] + (extra or []), timeout=timeout)
    if rc != 0:
        ctx.gate_breaks.append('harness %s failed: %s' % (cmd, out[-400:]))
        return None
    return h


def tables_gate(ctx):
    """the tokenizer theorems are stated for tables satisfying tables_wf: evaluate it on the dumped tables"""
    rc, out = vcheck.sh([vcheck.BUILD + '/extract/driver', 'tokwf', ctx.rundir])
    ok = rc == 0 and out.strip().endswith('true')
    ctx.assumptions.append('tables_wf (TokWF.v) evaluated by the extracted model on the tables dumped from the running code: %s'
                           % ('true' if ok else 'FALSE'))
    if not ok:
        ctx.gate_breaks.append('the tokenizer tables of the running code left the well-formed class of the theorems (tables_wf = false)')
    return ok


def tok_stream(ctx, h):
    """tokenizer model vs white-box tokenisation, both modes"""
    d = ctx.rundir
    nt = lambda c, i: i not in (' | ', '', 'PANIC')
    for mode in ('norm', 'raw'):
        cases = '%s/tok_%s.cases' % (d, mode)
        ue = ctx.two_phase_unescape(['tok', d, mode], cases, d, h)
        if ue is None:
            return
        ctx.driver('tok', cases, '%s/tok_%s.model' % (d, mode), extra=[d, mode, 'run', ue])
        ctx.compare_stream('tokenizer-model-' + mode, cases, '%s/tok_%s.impl' % (d, mode), '%s/tok_%s.model' % (d, mode),
                           nontrivial=nt, concrete=False)


def run_match_model(ctx, d, shards=14):
    """runs the extracted whole-pipeline model on match.cases; large files are split into shards (case i goes to
    shard i mod K, every shard gets the corpus blocks its cases refer to) that run in parallel; outputs are
    re-interleaved, the oracle statistics summed"""
    import shutil
    lines = open(d + '/match.cases').read().split('\n')
    ncases = sum(1 for l in lines if l.startswith('CASE '))
    if ncases < 200:
        ctx.driver('match', d + '/match.cases', d + '/match.model', extra=[d, 'total'])
        return
    corp, cases, cur, kind = {}, [], None, None
    for l in lines:
        if l.startswith('CORPUS '):
            cur, kind = [l], 'corpus'
            cid = l.split()[1]
        elif l.startswith('CASE '):
            cur, kind = [l], 'case'
            ccid = l.split()[1]
        elif cur is not None:
            cur.append(l)
        if kind == 'corpus' and l.strip() == 'END':
            corp[cid] = cur
            cur, kind = None, None
        elif kind == 'case' and l.strip() == 'ENDCASE':
            cases.append((ccid, cur))
            cur, kind = None, None
    k = min(shards, max(1, ncases // 50))
    jobs = []
    for sh in range(k):
        sd = os.path.join(d, 'shard%d' % sh)
        os.makedirs(sd, exist_ok=True)
        shutil.copy(d + '/unicode.digits', sd + '/unicode.digits')
        have = set()
        with open(sd + '/match.cases', 'w') as f:
            for i in range(sh, len(cases), k):
                cid, block = cases[i]
                if cid not in have:
                    have.add(cid)
                    f.write('\n'.join(corp[cid]) + '\n')
                f.write('\n'.join(block) + '\n')
        jobs.append(('match', sd + '/match.cases', sd + '/match.model', [sd, 'total']))
    ctx.drivers(jobs, timeout=7200)
    outs = [[x for x in open(j[2]).read().split('\n')] for j in jobs]
    merged = []
    for i in range(len(cases)):
        o = outs[i % k]
        merged.append(o[i // k] if i // k < len(o) else '')
    open(d + '/match.model', 'w').write('\n'.join(merged) + '\n')
    tot = {}
    for sh in range(k):
        sp = os.path.join(d, 'shard%d' % sh, 'oracle_stats.txt')
        if os.path.exists(sp):
            for kv in open(sp).read().split():
                a, b = kv.split('=')
                tot[a] = tot.get(a, 0) + int(b)
        shutil.rmtree(os.path.join(d, 'shard%d' % sh), ignore_errors=True)
    open(d + '/oracle_stats.txt', 'w').write(' '.join('%s=%d' % kv for kv in tot.items()) + '\n')


def match_stream(ctx, family):
    """whole-pipeline model (Match.v) vs Match on the family's inputs; go-diff scripts validated"""
    h = harness(ctx, 'match', [family])
    if not h:
        return None
    d = ctx.rundir
    run_match_model(ctx, d)
    impl = open(d + '/match.impl').read().split('\n')
    model = open(d + '/match.model').read().split('\n')
    names = open(d + '/match.names').read().split('\n')
    n = len([x for x in names if x])
    mism = [i for i in range(n) if impl[i] != model[i]]
    nt = sum(1 for i in range(n) if impl[i] and not impl[i].startswith(' total'))
    slow = sum(1 for x in names if 'slow=true' in x)
    ctx.cov['evaluations'] += n
    ctx.cov['traces_validated_against_impl'] += n - len(mism)
    stats = open(d + '/oracle_stats.txt').read().strip() if os.path.exists(d + '/oracle_stats.txt') else ''
    nstage = sum(1 for l in open(d + '/match.cases') if l.startswith('G ') or l.startswith('S '))
    ctx.cov['streams']['match-model-' + family] = dict(cases=n, nontrivial=nt, mismatches=len(mism), deadline_sensitive_diffs=slow,
                                                   stage_level_observations=nstage)
    ctx.assumptions.append('go-diff oracle: every recorded script checked to be a valid edit script between span and document (D1); '
                           + stats + ' (scripts with an empty entry are covered too: the C02 bound is proved for any valid script, V2/ScoringNoD3.v)')
    if n:
        k = min(n - 1, 1 + ctx.seed % 7)
        ctx.cov['samples'].append({'stream': 'match-model', 'case': names[k], 'impl': impl[k][:300]})
    for i in range(n):
        ctx._distinct.add('match' + names[i] + impl[i])
    if ctx.pid in ('C02', 'C03'):
        # property oracle on the results of the model-stream inputs as well: StartLine/EndLine are the lines of the first
        # and last word of the reported token span (token lines as recorded from the code's tokenizer in the T line)
        case_lines = []
        for l in open(d + '/match.cases'):
            if l.startswith('T IDS'):
                f = l.split(' LINES ')[1].split(' PSEUDO')[0].strip()
                case_lines.append([int(x) for x in f.split(',')] if f else [])
        bad = 0
        if len(case_lines) == n:
            for i in range(n):
                for part in impl[i].split(';'):
                    f = part.strip().split(':')
                    if len(f) >= 4 and f[1].isdigit() and not f[0].startswith('Copyright/'):
                        try:
                            sl, el = [int(x) for x in f[2].split('-')]
                            st, et = [int(x) for x in f[3].split('-')]
                            ok = 0 <= st <= et < len(case_lines[i]) and case_lines[i][st] == sl and case_lines[i][et] == el
                        except ValueError:
                            continue
                        if not ok:
                            bad += 1
                            if bad <= 3:
                                ctx.add_violation('oracle:lines-of-first-and-last-word', None,
                                                  dict(stream='match-model-' + family, index=i, case=names[i],
                                                       verdict='StartLine/EndLine are not the lines of the first/last word of the reported span: '
                                                               + part.strip() + ' token lines ' + repr(case_lines[i][:60])))
            ctx.cov['streams']['lines-of-first-and-last-word'] = dict(cases=n, nontrivial=nt, mismatches=bad)
    if ctx.pid == 'C03':
        # property oracle on the results of the model-stream inputs as well: non-increasing confidence
        import struct
        bad = 0
        for i in range(n):
            confs = []
            for part in impl[i].split(';'):
                f = part.strip().split(':')
                if len(f) >= 4 and f[1].isdigit():
                    confs.append(struct.unpack('<d', struct.pack('<Q', int(f[1])))[0])
            if any(confs[j] < confs[j + 1] for j in range(len(confs) - 1)):
                bad += 1
                if bad <= 3:
                    ctx.add_violation('oracle:ordered-by-confidence', None,
                                      dict(stream='match-model-' + family, index=i, case=names[i],
                                           verdict='matches not ordered by non-increasing confidence: ' + impl[i][:600] + ' confidences ' + repr(confs)))
        ctx.cov['streams']['ordered-by-confidence'] = dict(cases=n, nontrivial=nt, mismatches=bad)
    if mism:
        i = mism[0]
        ctx.gate_breaks.append('correspondence stream match-model no longer checks: first differing case #%d (%s): impl=%s model=%s'
                               % (i, names[i], impl[i][:400], model[i][:400]))
    return h
