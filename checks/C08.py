"""C08: streaming == in-memory; reader faults surface as errors."""
import vcheck

THEOREMS = ['C08_stream_equals_whole', 'C08_padding_independent', 'C08_fault_surfaces', 'C08_decode_encode',
            'C08_original_refuted']


def run(ctx):
    ctx.cov['rule'] = ('texts with 2-4 byte runes, invalid and truncated UTF-8 placed across the 1020/1024-byte boundaries: '
                       'every pad width 0..2056 near a boundary (coarser elsewhere in the quick tier), adversarial readers '
                       '(1 byte per Read, random sizes, zero-length reads, data together with EOF), reader faults at random '
                       'and extreme offsets incl. errors wrapping io.EOF; every failure offset on short inputs. '
                       'Non-trivial = non-empty tokenisation or a fault case.')
    ctx.cov['trusted_base'] = ['Coq 8.16.1 kernel', 'extraction (ExtrOcamlBasic only)', 'ocaml/driver.ml',
                               'harness/go/v2 (overlay accessors, adversarial readers)',
                               'io.ReadFull semantics (reader abstracted to byte stream + failure offset)',
                               'Unicode tables and html.UnescapeString taken from the running Go code']
    ctx.proof_gate(theorems=THEOREMS)
    ok = ctx.build_driver()
    h = ctx.build_go('v2')
    if not (ok and h):
        return
    d = ctx.rundir
    rc, out = vcheck.sh([h, 'c08', str(ctx.seed), ctx.tier, d], timeout=3000)
    if rc != 0:
        ctx.gate_breaks.append('harness c08 failed: ' + out[-300:])
        return
    cases = d + '/reader.cases'
    ue = ctx.two_phase_unescape(['reader', d, 'whole'], cases, d, h)
    if ue is None:
        return
    ctx.drivers([('reader', cases, d + '/reader.' + v, [d, v, 'run', ue]) for v in ('fixed', 'whole')])
    nt = lambda c, i: i not in (' | ', '')
    # property oracle at tokenizer level: streamed result == whole-string tokenisation, faults == ERR
    ctx.compare_stream('stream-vs-whole', cases, d + '/reader.impl', d + '/reader.whole', nontrivial=nt,
                       concrete=True, kind='oracle')
    # correspondence: the code vs the model the theorems are about
    ctx.compare_stream('reader-model', cases, d + '/reader.impl', d + '/reader.fixed', nontrivial=nt, concrete=False)
    # property oracle at Match level
    ctx.oracle_stream('matchfrom-vs-match', d + '/matchfrom.verdicts', d + '/matchfrom.cases')
    ctx.cov['distinct_nontrivial'] = sum(v['nontrivial'] for v in ctx.cov['streams'].values())
