"""C02 (see DESIGN.md)."""
from checks import _v2
THEOREMS = __import__('checks.thm', fromlist=['x']).C02

def run(ctx):
    ctx.cov['rule'] = 'oracle: for every non-Copyright match of Match on exact, edited, truncated, concatenated corpus texts, scenario files and synthetic corpora: independent O(nm) word Levenshtein distance L between the reported span (white-box tokens) and the document; Confidence <= 1 - L/|K| in float64, 1.0 only if identical, Start/EndLine = lines of first/last word. model stream: edited inputs; every recorded go-diff script is checked to be a valid edit script (contract of the theorem).' + ' Non-trivial = at least one match reported.'
    ctx.cov['trusted_base'] = _v2.TB
    ctx.proof_gate(theorems=THEOREMS)
    if not ctx.build_driver():
        return
    h = _v2.match_stream(ctx, 'edited')
    if _v2.harness(ctx, 'c0203'):   # the oracle runs even when the model-stream harness failed
        for (name, vf, cf) in [('confidence-vs-levenshtein', 'c02.verdicts', 'c0203.cases')]:
            ctx.oracle_stream(name, ctx.rundir + '/' + vf, ctx.rundir + '/' + cf)
    ctx.cov['distinct_nontrivial'] = sum(v['nontrivial'] for v in ctx.cov['streams'].values())
