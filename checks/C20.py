"""C20: sets and priority queue vs their mathematical models."""
import os
import re


def run(ctx):
    ctx.cov['rule'] = ('sets: exhaustive over all ordered pairs of subsets of {0,1,2} (plus nil argument, self '
                       'application) x every binary/unary operation followed by mutations of result and operands, '
                       'plus seeded random histories (full store read back after every op); heap: exhaustive over '
                       'all priority vectors in {0,1,2}^k, k<=5, x every follow-up op, plus random histories. '
                       'non-trivial = history with >=3 ops; distinct = distinct case lines')
    ctx.cov['trusted_base'] = ['Coq 8.16.1 kernel', 'extraction (ExtrOcamlBasic only)', 'ocaml/driver.ml',
                               'harness/go/root/verifharness/c20.go', 'Go container/heap modelled in Cont/Heap.v']
    ctx.proof_gate(theorems=THEOREMS)
    ok = ctx.build_driver()
    h = ctx.build_go('root')
    if not (ok and h):
        return
    d = ctx.rundir
    rc, out = __import__('vcheck').sh([h, 'c20', str(ctx.seed), ctx.tier, d], timeout=3000)
    if rc != 0:
        ctx.gate_breaks.append('harness c20 failed: ' + out[-300:])
        return
    nt = lambda c, i: len(c.split()) >= 8
    for s, fam in (('sets_StringSet', 'sets'), ('sets_IntSet', 'sets'), ('heap', 'heap')):
        ctx.driver(fam, '%s/%s.cases' % (d, s), '%s/%s.model' % (d, s))
        ctx.compare_stream(s, '%s/%s.cases' % (d, s), '%s/%s.impl' % (d, s), '%s/%s.model' % (d, s), nontrivial=nt)
    # search oracle directly on the implementation's heap traces: every popped
    # element is minimal among the array before the pop, the multiset is
    # conserved and indices are accurate (independent of the model).
    ctx.oracle_stream('heap-bursts', d + '/burst.verdicts', d + '/burst.cases')
    n_bad = heap_oracle(ctx, '%s/heap.cases' % d, '%s/heap.impl' % d)
    ctx.cov['streams']['heap_oracle_violations'] = n_bad
    ctx.cov['distinct_nontrivial'] = sum(v['nontrivial'] for v in ctx.cov['streams'].values() if isinstance(v, dict))
    ctx.cov['exhaustive'] = False


THEOREMS = ['C20_sets_refine_gset', 'C20_sets_operands_unchanged', 'C20_pq_invariant_every_history',
            'C20_pq_invariant_every_prefix', 'C20_pq_pop_minimal', 'C20_pq_push', 'C20_pq_remove', 'C20_pq_fix',
            'C20_pq_total']


def heap_oracle(ctx, cases_path, impl_path):
    bad = 0
    cases = open(cases_path).read().split('\n')
    for ci, line in enumerate(open(impl_path).read().split('\n')):
        if not line:
            continue
        ops = cases[ci].split()
        steps = [s.strip() for s in line.split('|') if s.strip()]
        prev = []
        pos = 0
        why = None
        for st in steps:
            if st == 'PANIC':
                why = 'panic'
                break
            m = re.match(r'(\S+) a=(\S*) i=(\d)', st)
            if not m:
                why = 'unparsable ' + st
                break
            out, arr, acc = m.group(1), m.group(2), m.group(3)
            cur = [tuple(map(int, x.split(':'))) for x in arr.split(',')] if arr else []
            opc = int(ops[pos])
            if acc != '1':
                why = 'index reported through setIndex is not the position'
            if opc == 0:
                e = (int(ops[pos + 1]), int(ops[pos + 2]))
                if sorted(cur) != sorted(prev + [e]):
                    why = 'push does not conserve multiset'
                pos += 3
            elif opc == 1:
                e = tuple(map(int, out[1:].split(':')))
                if any(p[1] < e[1] for p in prev):
                    why = 'pop returned non-minimal element'
                if sorted(cur + [e]) != sorted(prev):
                    why = 'pop does not conserve multiset'
                pos += 1
            elif opc == 2:
                i, p = int(ops[pos + 1]), int(ops[pos + 2])
                exp = sorted([(a, (p if a == i else b)) for a, b in prev])
                if sorted(cur) != exp:
                    why = 'fix does not conserve multiset'
                pos += 3
            elif opc == 3:
                i = int(ops[pos + 1])
                e = tuple(map(int, out[1:].split(':')))
                if e[0] != i or sorted(cur + [e]) != sorted(prev):
                    why = 'remove removed wrong element or lost one'
                pos += 2
            elif opc == 4:
                e = tuple(map(int, out[1:].split(':')))
                if any(p[1] < e[1] for p in prev) or cur != prev:
                    why = 'min not minimal'
                pos += 1
            else:
                if out != 'L%d' % len(prev):
                    why = 'len wrong'
                pos += 1
            # heap order makes later pops minimal; checked through pops above
            if why:
                break
            prev = cur
        if why:
            bad += 1
            if bad <= 3:
                ctx.add_violation('oracle:heap', None, dict(case=cases[ci], impl=line, why=why))
    return bad
