"""C18: comment extraction = reference lexer; ChunkIterator = maximal runs."""
import vcheck

THEOREMS = ['C18_lexer_equals_reference', 'C18_total', 'C18_lines', 'C18_ordered', 'C18_chunks', 'C18_chunks_unique']


def run(ctx):
    ctx.cov['rule'] = ('lexer: every string of up to L tokens over a per-language-row token alphabet (delimiters, their '
                       'first characters, quotes, backslash, newline, a letter; L=4 quick / 6 thorough) for one language '
                       'of each distinct table row, plus seeded random programs for all 49 languages (multi-byte and '
                       'invalid UTF-8 included); ChunkIterator: Parse outputs and random comment lists. Non-trivial = '
                       'the implementation returned at least one comment.')
    ctx.cov['trusted_base'] = ['Coq 8.16.1 kernel', 'extraction (ExtrOcamlBasic only)', 'ocaml/driver.ml',
                               'harness/go/root/verifharness/c18.go (dumps the language table from the running code)',
                               'rune decoding of the input is done by Go ([]rune(string)); the model works on runes']
    ctx.proof_gate(theorems=THEOREMS)
    ok = ctx.build_driver()
    h = ctx.build_go('root')
    if not (ok and h):
        return
    d = ctx.rundir
    rc, out = vcheck.sh([h, 'c18', str(ctx.seed), ctx.tier, d], timeout=3000)
    if rc != 0:
        ctx.gate_breaks.append('harness c18 failed: ' + out[-300:])
        return
    # the theorems are stated for well-formed language rows: evaluate the predicate on the dumped table
    rc, out = vcheck.sh([vcheck.BUILD + '/extract/driver', 'langwf', d + '/lang.table'])
    bad = [l for l in out.split('\n') if l.strip() and not l.strip().endswith('true')]
    ctx.assumptions.append('lang_wf evaluated by the extracted model on all %d dumped language rows: %d not well-formed'
                           % (len(out.split()) // 2, len(bad)))
    if rc != 0 or bad:
        ctx.gate_breaks.append('language table left the well-formed class of the theorem (lang_wf false for rows %s)' % bad[:5])
    nt = lambda c, i: not i.startswith(' |') and i != 'PANIC'
    for variant in ('repaired', 'spec'):
        ctx.driver('lexer', d + '/lex.cases', d + '/lex.' + variant, extra=[d + '/lang.table', variant])
    ctx.driver('chunks', d + '/chunk.cases', d + '/chunk.model')
    # property oracle: implementation vs the reference lexer (concrete failing inputs)
    ctx.compare_stream('lexer-vs-reference', d + '/lex.cases', d + '/lex.impl', d + '/lex.spec',
                       nontrivial=nt, concrete=True, kind='oracle', classify=classify)
    # correspondence: implementation vs the model of the code (the object of the theorems)
    ctx.compare_stream('lexer-model', d + '/lex.cases', d + '/lex.impl', d + '/lex.repaired',
                       nontrivial=nt, concrete=False)
    ctx.compare_stream('chunks', d + '/chunk.cases', d + '/chunk.impl', d + '/chunk.model',
                       nontrivial=lambda c, i: len(c.split()) >= 4, concrete=True, kind='oracle')
    ctx.cov['distinct_nontrivial'] = sum(v['nontrivial'] for v in ctx.cov['streams'].values())
    ctx.cov['exhaustive'] = False
    ctx.cov['explanation'] = ('exhaustive over the stated token alphabets up to the stated length (finite space enumerated '
                              'completely) plus random programs; the theorems cover all inputs for well-formed rows')


def classify(case, impl, model):
    return None
