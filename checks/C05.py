"""C05: presentation changes do not change detection."""
from checks import _v2
THEOREMS = __import__('checks.thm', fromlist=['x']).C05

def run(ctx):
    ctx.cov['rule'] = ('oracle (metamorphic, full embedded corpus): corpus documents alone and in context, edited texts, '
                       'scenario files, two-license files; per input one random variant of each family - re-casing, '
                       'whitespace runs/indentation/trailing blanks (blank, tab, VT, FF), CRLF, line decoration '
                       '(// # * ; -- > | %%), typographic dashes and quotes, blank-line insertion (line numbers mapped), and a '
                       'composition; lines ending in a hyphen and the line after them are left untouched. '
                       'tokenizer stream: model vs white-box tokens on corpus/scenario/synthetic/hostile/mutated texts in both '
                       'modes. Non-trivial = input with at least one match / non-empty tokenisation.')
    ctx.cov['trusted_base'] = _v2.TB
    ctx.proof_gate(theorems=THEOREMS)
    if not ctx.build_driver():
        return
    h = _v2.harness(ctx, 'tok')
    if h:   # the oracle below runs even when the model-stream harness failed
        _v2.tables_gate(ctx)
        _v2.tok_stream(ctx, h)
    if _v2.harness(ctx, 'c05'):
        ctx.oracle_stream('presentation-changes', ctx.rundir + '/c05.verdicts', ctx.rundir + '/c05.cases')
    ctx.cov['distinct_nontrivial'] = sum(v['nontrivial'] for v in ctx.cov['streams'].values())
