"""Shared stage of the concurrency checks: run a -race build of the harness and turn race reports into violations."""
import os
import re
import vcheck


def race_run(ctx, module, cmd):
    h = ctx.build_go(module, race=True)
    if not h:
        return
    d = ctx.rundir
    env = {'GORACE': 'halt_on_error=0 exitcode=66 history_size=2'}
    rc, out = vcheck.sh('%s %s %d %s %s 2> %s/stderr.txt' % (h, cmd, ctx.seed, ctx.tier, d, d), env=env, timeout=3000)
    err = open(d + '/stderr.txt', errors='replace').read()
    reports = err.split('WARNING: DATA RACE')[1:]
    sigs = {}
    for rep in reports:
        frames = re.findall(r'^\s+(\S+\(\))\s*\n\s+(\S+:\d+)', rep, re.M)
        sig = ' <- '.join(f[0] for f in frames[:3])
        sigs.setdefault(sig, rep[:3000])
    ctx.cov['streams']['race-detector'] = dict(cases=1, nontrivial=1, mismatches=len(reports), distinct_stacks=len(sigs))
    ctx.cov['evaluations'] += 1
    ctx.assumptions.append('Go race detector (-race build of the harness, GORACE halt_on_error=0): %d reports, %d distinct stacks'
                           % (len(reports), len(sigs)))
    for sig, rep in list(sigs.items())[:5]:
        ctx.add_violation('race-detector', None, dict(stack_signature=sig, report='WARNING: DATA RACE' + rep,
                                                      replay='%s %s %d %s <dir> with GORACE=%s' % (h, cmd, ctx.seed, ctx.tier, env['GORACE'])))
    if rc not in (0, 66):
        ctx.add_violation('harness-crash', None, dict(exit=rc, stderr_tail=err[-2000:]))
    return h
