"""C01: a planted corpus document is found whole at confidence 1.0."""
from checks import _v2
THEOREMS = __import__('checks.thm', fromlist=['x']).C01

def run(ctx):
    ctx.cov['rule'] = ('oracle: 1-3 verbatim copies of embedded corpus documents (and of user-added synthetic documents incl. '
                       'duplicates, infixes, repetitive ones) planted between blocks of out-of-vocabulary text, thresholds '
                       '0.7..1.0 (and random ones for synthetic corpora); expected name/type, confidence 1.0, exact token span '
                       'and lines computed from white-box tokenisation of the pieces. model stream: planted/self/concatenated '
                       'inputs through the whole-pipeline model. Non-trivial = at least one match reported.')
    ctx.cov['trusted_base'] = _v2.TB
    ctx.proof_gate(theorems=THEOREMS)
    if not ctx.build_driver():
        return
    h = _v2.match_stream(ctx, 'planted')
    if _v2.harness(ctx, 'c01'):   # the oracle runs even when the model-stream harness failed
        ctx.oracle_stream('planted-copies', ctx.rundir + '/c01.verdicts', ctx.rundir + '/c01.cases')
    ctx.cov['distinct_nontrivial'] = sum(v['nontrivial'] for v in ctx.cov['streams'].values())
