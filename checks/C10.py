"""C10: the v2 API is total on arbitrary bytes."""
from checks import _v2
THEOREMS = __import__('checks.thm', fromlist=['x']).C10

def run(ctx):
    ctx.cov['rule'] = ('oracle: Match, MatchFrom (fragmenting reader), Normalize, AddContent(+Match) on hostile bytes (random '
                       'bytes, NULs, invalid/truncated UTF-8, entity storms, hyphen-newline storms, megabyte single tokens, long '
                       'single lines of distinct words, mutated and truncated license texts, inputs without words) x corpora '
                       '{empty, one empty document, notice-only document, tiny synthetic, 15 embedded, full embedded} x thresholds '
                       '{0, 5e-324, 0.01, 0.5, 0.8, 1}; recover() + 20 s budget per call. model stream: hostile inputs and '
                       'threshold 0 through the whole-pipeline model (panic <=> Err). Non-trivial = every case.')
    ctx.cov['trusted_base'] = _v2.TB
    ctx.proof_gate(theorems=THEOREMS)
    if not ctx.build_driver():
        return
    # a crash of a model-stream harness must not keep the property oracle from searching for the failing input
    h = _v2.match_stream(ctx, 'hostile')
    if h and _v2.harness(ctx, 'tok'):
        _v2.tok_stream(ctx, h)
    if _v2.harness(ctx, 'c10'):
        ctx.oracle_stream('no-panic-no-hang', ctx.rundir + '/c10.verdicts', ctx.rundir + '/c10.cases')
    ctx.cov['distinct_nontrivial'] = sum(v['nontrivial'] for v in ctx.cov['streams'].values())
