"""C07 (see DESIGN.md)."""
from checks import _v2
THEOREMS = __import__('checks.thm', fromlist=['x']).C07

def run(ctx):
    ctx.cov['rule'] = 'oracle: X in {exact, edited, word-trimmed at both ends, truncated 70-95%, scenario files, concatenations, texts at the exact hit-density boundary of detectRuns (adaptive: the most damaged text that is still reported alone)}, X of at least q words; Match(X) vs Match(P + X + S) for blocks P, S of 0..180 out-of-vocabulary words over 0..20 lines: same matches with token indices and lines shifted by the size of P (compared as a multiset). model stream: planted/edited-planted/boundary-density/headless-fragment inputs, final Results and per-document getMatchedRanges (stage level).' + ' Non-trivial = at least one match reported.'
    ctx.cov['trusted_base'] = _v2.TB
    ctx.proof_gate(theorems=THEOREMS)
    if not ctx.build_driver():
        return
    h = _v2.match_stream(ctx, 'shifted')
    if _v2.harness(ctx, 'c07'):   # the oracle runs even when the model-stream harness failed
        for (name, vf, cf) in [('position-independence', 'c07.verdicts', 'c07.cases')]:
            ctx.oracle_stream(name, ctx.rundir + '/' + vf, ctx.rundir + '/' + cf)
    ctx.cov['distinct_nontrivial'] = sum(v['nontrivial'] for v in ctx.cov['streams'].values())
