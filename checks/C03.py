"""C03 (see DESIGN.md)."""
from checks import _v2
THEOREMS = __import__('checks.thm', fromlist=['x']).C03

def run(ctx):
    ctx.cov['rule'] = 'oracle: every result of Match on exact/edited/truncated/concatenated/mutated texts, full embedded corpus at 0.8 plus sampled and synthetic corpora at thresholds 0.05..1.0: confidence in [threshold,1], known (type,name,variant), 1 <= StartLine <= EndLine <= TotalInputLines <= lines of input, token indices in range, ordering by non-increasing confidence, Copyright matches well formed. model stream: generic inputs.' + ' Non-trivial = at least one match reported.'
    ctx.cov['trusted_base'] = _v2.TB
    ctx.proof_gate(theorems=THEOREMS)
    if not ctx.build_driver():
        return
    h = _v2.match_stream(ctx, 'generic')
    if _v2.harness(ctx, 'c0203'):   # the oracle runs even when the model-stream harness failed
        for (name, vf, cf) in [('well-formed-results', 'c03.verdicts', 'c0203.cases')]:
            ctx.oracle_stream(name, ctx.rundir + '/' + vf, ctx.rundir + '/' + cf)
    ctx.cov['distinct_nontrivial'] = sum(v['nontrivial'] for v in ctx.cov['streams'].values())
