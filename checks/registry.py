"""Table from which MANIFEST.json is generated (bin/mkmanifest)."""
T_CORR = ("machine-checked Coq theorems over an executable Gallina model + correspondence check "
          "(extracted model vs Go implementation on generated inputs) + property oracle search")
CHECKS = [
    dict(id='C20',
         text=("Coq theorems: for every operation history the handle-store model of the Go sets refines std++ gset "
               "(same outputs, duplicate-free Elements, operands never modified); for the model of pq + container/heap "
               "the invariant (heap order, distinct ids, every setIndex value accurate) holds in every reachable "
               "state, Pop returns a minimal element, Push/Pop/Remove/Fix conserve the multiset, Fix repairs an "
               "arbitrary priority change, no out-of-range access on defined operations. The model is tied to the code by running both on "
               "exhaustive small and random long histories with full read-back of all live sets after every op."),
         note=("Trusted: Coq kernel, extraction (ExtrOcamlBasic), ocaml/driver.ml, Go harness; Go's container/heap "
               "is modelled by transliteration (Cont/Heap.v), Go map iteration assumed to enumerate each key once."),
         technique=T_CORR),
    dict(id='C18',
         text=("Coq theorems: for every well-formed language row (predicate evaluated on the table dumped from the "
               "running code at every check) and every input, the model of Parse's lexer terminates and returns exactly "
               "the comments of an independently written reference lexer (order, text, 1-based lines); ChunkIterator's "
               "model is total, delivers each comment once in order in maximal runs, and the run conditions determine "
               "the chunking uniquely. Model tied to the code by exhaustive short token strings per language row plus "
               "random programs; the reference lexer is also run directly against the code as the property oracle."),
         note=("Trusted: Coq kernel, extraction, driver, Go harness; input decoding to runes is Go's; Go's match() "
               "push-back is modelled as prefix test (equal whenever input ends in newline, which Parse forces). The "
               "reference lexer fixes the reading of the informal property (unterminated lexeme yields no comment, "
               "Python module docstrings are comments, chunk adjacency is by start line)."),
         technique=T_CORR),
    dict(id='C01',
         text='Coq theorems (Planted.v): for every hash function, context and threshold <= 1 a verbatim copy of a corpus document passes the prefilter, produces exactly the main-diagonal range, survives density window, fusion and cut with exact bounds, scores 1.0 with zero offsets, is in the candidate list with exact token span/lines/names, and is reported when the other candidates are line-isolated from it (shown necessary). Tied to the code by the whole-pipeline model stream and a direct planted-copy oracle on Match over all embedded documents and synthetic corpora.',
         note='go-diff enters through contract D2 only (diff of equal sequences is one Equal), validated on every recorded script; byte-level compositionality of planting (context ends at a line boundary) is exercised by the oracle, not proved; |K| < 2^53.',
         technique=T_CORR),
    dict(id='C02',
         text='Coq theorems (ScoringProof.v, Float64Proof.v): for ANY valid edit script the reported confidence is fl(1 - fl(D/|K|)) with D >= word Levenshtein distance between the document and the span trimmed by exactly the reported offsets, D = 0 only if identical; float64 monotonicity and conf = 1.0 <=> D = 0 via Flocq. Model stream validates every go-diff script; independent O(nm) Levenshtein oracle on Match results.',
         note='diff library = oracle with validated contract (the recorded script is a valid edit script between span and document - empty entries allowed since ScoringNoD3.v); float lemmas rest on the stdlib real-number axioms (listed in evidence); dictionary words non-empty and space-free (proved for the tokenizer in TokInv.v).',
         technique=T_CORR),
    dict(id='C03',
         text='Coq theorems (MatchWF.v, TokInv.v, SortProof.v, Float64Proof.v): every reported match is well formed (threshold <= conf, names from a corpus key, token indices in range, lines = lines of first/last token, lines ordered and <= TotalInputLines <= 1 + newlines), results are a subsequence of the Less-sorted candidates, conf <= 1. Direct field-by-field oracle on Match results.',
         note="composition of the per-layer theorems into one statement is by inspection of Props/C03.v; threshold-0 corner (TotalInputLines 0 with a Copyright match) is outside C03's quantifier.",
         technique=T_CORR),
    dict(id='C04',
         text="Coq theorems (MatchND.v, SortProof.v): with the repaired total comparator the model's result is the same for every order of the corpus documents and every correct sorting algorithm; the original comparator is refuted end to end (identical documents). Oracle: repeated/permuted/superset/interleaved/traced/cross-process runs must be bit-identical.",
         note="map iteration and sort.Sort are modelled as 'any order' / 'any sorted permutation'; purity of the input slice and the go-diff deadline are runtime facts checked only by the harness; dictionary growth effect on scoreDiffs is a known finding.",
         technique=T_CORR),
    dict(id='C05',
         text='Coq theorems (TokSim.v, TokWF.v): for every table satisfying the executable predicate tables_wf (evaluated on the tables dumped from the running code) re-casing, whitespace runs, trailing blanks/CRLF, indentation, line decoration, typographic dashes/quotes leave the tokenisation unchanged, blank lines shift line numbers exactly; side conditions = the hyphen exemption. Tokenizer model stream + metamorphic Match oracle over the full corpus.',
         note='Match depends on the input only through the tokenisation (by construction of the model, validated by the match stream); html.UnescapeString is an oracle.',
         technique=T_CORR),
    dict(id='C06',
         text='Coq theorems (TokSim.v, TokWF.v): notice lines at clean boundaries add exactly one Copyright pseudo match and shift lines; header-like markers contribute no token (exact characterisation of which words are markers, incl. the a) finding); interchangeable spellings and https/http clean to the same token. Metamorphic Match oracle incl. the reporting of inserted notices.',
         note='hyphen splitting is covered by the oracle only; overlap-filter treatment of pseudo matches is a known finding.',
         technique=T_CORR),
    dict(id='C07',
         text='Model stream (whole-pipeline model vs Match on planted/edited inputs) and metamorphic oracle Match(X) vs Match(P+X+S); the exact-copy case is covered by the C01 theorems (range bounds independent of A, B). Stage theorems for arbitrary X: hash join and hit bitmap shift (Shift.v), the density window refines its counting specification and its test is position independent in the interior and at the trailing edge (WindowSpec.v), fusion and the claimed-token cut commute with the shift for non-negative diagonals (FuseShift.v); composed in WindowShift.v: findPotentialMatches of prefix+X+suffix is that of X shifted, for arbitrary X with |X| >= |document|, positive window target, no negative diagonal, out-of-vocabulary blocks. The overlap resolution of match is not covered by a shift theorem: partial.',
         note='partial: the whole searchset stage is proved position independent for arbitrary X under |X| >= |document|, positive window target, no matched range on a negative diagonal, no checksum collision with the surrounding text; proved for exact copies up to the proposed range. Searched (metamorphic oracle, boundary-density and threshold-window inputs) and tied at stage level (getMatchedRanges vs model), not proved: X shorter than the document (short-target trim), negative diagonals (the clamp is position dependent, witness in FuseShift.v), and the line-based overlap resolution of match.',
         technique=T_CORR),
    dict(id='C10',
         text='Coq theorems: match_tokens never reaches an out-of-range site for any threshold/corpus/input given a valid diff oracle (MatchWF.v + ScoringProof.v offsets), searchset ranges in bounds, read loop total on every byte string (ReaderProof.v), all recursion structural or on fuel proved sufficient. Oracle: hostile bytes x corpora x thresholds with recover and time budget.',
         note='termination/performance of the Go code itself (two superquadratic behaviours are known findings), html/regexp/unicode totality are runtime facts exercised by the oracle.',
         technique=T_CORR),
    dict(id='C11',
         text='Normalize model (Normalize.v) tied to the code byte-for-byte; oracle: tokens(Normalize(x)) = tokens(x) and Match(Normalize(x)) = Match(x) minus Copyright on license-bearing inputs. No general theorem yet (four known findings show the unrestricted statement is false): partial.',
         note='partial: C11_restricted / C11_for_checked_tables proved (V2/NormProof.v, NormTables.v): the property holds for every input whose raw run passes two boolean side conditions, each the negation of a recorded exception class; the side conditions and the table hypothesis are evaluated on every oracle input / on the dumped tables in every run. The unrestricted statement is refuted by the known findings.',
         technique=T_CORR),
    dict(id='C08',
         text='Coq theorems (ReaderProof.v): for every byte string, table and mode the chunked read loop (1024-byte buffer, 1020 target, <= 4 carried bytes) yields exactly the whole-string tokenisation, hence independence of fragmentation and padding; a reader fault at any offset <= len yields the error; UTF-8 decode/encode round trip; the original loop is refuted by a 1025-byte witness. Reader model stream + MatchFrom-vs-Match oracle under adversarial readers.',
         note='io.ReadFull semantics abstracted (byte stream + failure offset), validated by the adversarial readers; Match depends on input only through tokenisation.',
         technique=T_CORR),
    dict(id='C17',
         text='Models of v1 Tokenize and of the candidate-range pipeline (sort order given, untangle, split, merge, coalesce, TargetRange) tied to the code on license snippets, Unicode/invalid UTF-8 strings and highly repetitive low-vocabulary pairs; theorems (Tok1Proof.v, when listed in the evidence) on offsets reproducing token text and on ranges staying in bounds; direct oracles on Tokenize and FindPotentialMatches output.',
         note='which equal-checksum window pairs targetMatchedRanges keeps (bookkeeping with pointers into a slice compacted in place) is not modelled; the theorems need only that every range pairs a hashed source window with a target node of equal checksum and that the list is sorted (Join1Proof.v), and both are evaluated on the code output of every case together with the window lists themselves (v1-join-hypotheses stream); unicode classes from the running code.',
         technique=T_CORR),
    dict(id='C13',
         text='Model of the exact-occurrence branch (token scan, TargetRange, slice bounds) with the theorem that a token-aligned occurrence is reported with exactly its Offset/Extent and that reported spans lie inside the text (Matcher1Proof.v when listed); the original scan is refuted by computation. Oracle in child processes (worker-goroutine panics kill the process): planted verbatim values, NearestMatch of known values, confidence and span bounds, AddValue on arbitrary strings.',
         note='partial: regexp literal search, levDist/go-diff, dedup/uniquify and the goroutine fan-out are exercised by the oracle only.',
         technique=T_CORR),
    dict(id='C12',
         text="Coq theorems (Load.v): the repaired LoadLicenses performs exactly the AddContent calls of the files with at least three segments whose path ends in txt (key = first three segments), ignoring shallower and non-txt files; the code as found is refuted at string level (trailing separator, '.', stray depth-2 file: index out of range). Oracle on real directory trees x 8 spellings incl. DefaultClassifier vs LoadLicenses(assets).",
         note='filepath.Walk/Rel/Clean and embed are oracles whose contract (relative segments independent of the spelling) is checked on every generated tree; equality of Match results is checked on probe inputs.',
         technique=T_CORR),
    dict(id='C19',
         text="PARTIAL. Coq theorems (Cli.v): for every interleaving of the per-file appends the printed results are, as a multiset, the union of the library's per-file results filtered by -headers, and the exit status is 0 iff that union is non-empty; readFileLines model with/without the scanner limit (refutation of the limit). The real binary built from the tree is run on generated directory trees x flags x -tasks and compared with in-process Match results (stdout, JSON incl. Text, exit status).",
         note='partial: process plumbing, flag parsing, logging, JSON encoding, the 24h timeout and real goroutine scheduling are not modelled; order among equal sort keys is not claimed.',
         technique=T_CORR),
    dict(id='C09',
         text='PARTIAL. Coq theorems (InterleaveProof.v): threads that only read shared locations and write private ones never conflict, leave shared state untouched under every schedule and each ends with its sequential result. That the Go code has this footprint is observed: a -race build of the harness runs 2/16/64 goroutines of Match/MatchFrom on one (cold and warm) classifier over fuzzy-path inputs and compares every result with the sequential one; race reports are the replay.',
         note='partial: memory-model facts (slices sharing backing arrays, go-diff internals) cannot be exhibited by a Gallina model; the race detector samples interleavings.',
         technique=T_CORR),
    dict(id='C14',
         text='PARTIAL, as C09, for stringclassifier.Classifier: interleaving theorems plus a model-level refutation of the unlocked lazy initialisation the code had; -race harness mixing MultipleMatch, NearestMatch and AddValue (fresh and duplicate keys) on classifiers with lazy and with precomputed search sets, results compared with sequential ones.',
         note='partial: see C09. licenseclassifier.License wraps the same classifier and is covered through it.',
         technique=T_CORR),
    dict(id='C15',
         text='PARTIAL. Coq theorem (Archive.v): for abstract codecs with decode(encode x) = x, reading the written archive yields exactly the (base name without .txt, normalised text, search set) triples of a directly built classifier, for every list of files. Oracle: real ArchiveLicenses/New(ArchiveBytes) on random subsets and orders of the 178 files plus synthetic (large, oddly named, non-.txt, with directories), keys and NearestMatch/MultipleMatch compared with a directly built classifier.',
         note='partial: tar, gzip, gob trusted; equality of answers follows from equal state and is checked by the oracle.',
         technique=T_CORR),
    dict(id='C16',
         text='PARTIAL. Coq theorems (License1.v, License1Proof.v): MultipleMatch keeps exactly the matches passing WithinConfidenceThreshold, and (binary64, via Flocq) that test is equivalent to threshold <= confidence. The corpus part - every shipped license text, upper-cased, re-flowed, //, #, *, box- and javadoc-decorated, is identified by NearestMatch at >= 0.8 - is a finite fact about data and the regexp normaliser, established by executing the real code (sample in quick, all 178 in thorough); fine damage sweep around the threshold for MultipleMatch.',
         note='partial: normaliser pipeline is an oracle; variants are a sample.',
         technique=T_CORR),
]
_PENDING = "check under construction in this round (model/proof not yet committed); not claimed until it is"
NOT_APPLICABLE = [dict(property_id='C%02d' % i, reason=_PENDING) for i in range(1, 20) if i not in range(1, 21)]
