"""Table from which MANIFEST.json is generated (bin/mkmanifest)."""
T_CORR = ("machine-checked Coq theorems over an executable Gallina model + correspondence check "
          "(extracted model vs Go implementation on generated inputs) + property oracle search")
CHECKS = [
    dict(id='C20',
         text=("Coq theorems: for every operation history the handle-store model of the Go sets refines std++ gset "
               "(same outputs, duplicate-free Elements, operands never modified); for the model of pq + container/heap "
               "the invariant (heap order, distinct ids, every setIndex value accurate) holds in every reachable "
               "state, Pop returns a minimal element, Push/Pop/Remove/Fix conserve the multiset, Fix repairs an "
               "arbitrary priority change, no out-of-range access on defined operations. The model is tied to the code by running both on "
               "exhaustive small and random long histories with full read-back of all live sets after every op."),
         note=("Trusted: Coq kernel, extraction (ExtrOcamlBasic), ocaml/driver.ml, Go harness; Go's container/heap "
               "is modelled by transliteration (Cont/Heap.v), Go map iteration assumed to enumerate each key once."),
         technique=T_CORR),
    dict(id='C18',
         text=("Coq theorems: for every well-formed language row (predicate evaluated on the table dumped from the "
               "running code at every check) and every input, the model of Parse's lexer terminates and returns exactly "
               "the comments of an independently written reference lexer (order, text, 1-based lines); ChunkIterator's "
               "model is total, delivers each comment once in order in maximal runs, and the run conditions determine "
               "the chunking uniquely. Model tied to the code by exhaustive short token strings per language row plus "
               "random programs; the reference lexer is also run directly against the code as the property oracle."),
         note=("Trusted: Coq kernel, extraction, driver, Go harness; input decoding to runes is Go's; Go's match() "
               "push-back is modelled as prefix test (equal whenever input ends in newline, which Parse forces). The "
               "reference lexer fixes the reading of the informal property (unterminated lexeme yields no comment, "
               "Python module docstrings are comments, chunk adjacency is by start line)."),
         technique=T_CORR),
]
_PENDING = "check under construction in this round (model/proof not yet committed); not claimed until it is"
NOT_APPLICABLE = [dict(property_id='C%02d' % i, reason=_PENDING) for i in range(1, 20) if i != 18]
